//! bounds family (property C01): estimates and confidence bounds of HLL / CPC / theta sketches.
//!
//! Function-level ops (hooks; the model recomputes the bounds from the crate's own estimate):
//!   1 hll_fn   lg_k ooo hip_bits kxq0_bits kxq1_bits cur_min num_at_cur_min -> [est lb1 lb2 lb3 ub1 ub2 ub3]
//!   2 cpc_fn   merge_flag hip_bits lg_k num_coupons                         -> [est lb1 lb2 lb3 ub1 ub2 ub3]
//!   3 theta_fn num_samples theta_bits no_data_seen                          -> [lb1 lb2 lb3 ub1 ub2 ub3] | ERR
//!   7 hll_parts lg_k kxq0_bits kxq1_bits cur_min num_at_cur_min -> [raw bitmap composite]  (out-of-order estimator)
//!   8 mc kind(0 hll,1 cpc,2 theta) lg_k variant n trials seed -> [trials sum_relerr sum_relerr^2 cover1 cover2 cover3]  (Monte Carlo)
//!   9 hll_union lg_k type n seed -> [est lb1..3 ub1..3 of the HllUnion itself, then of to_sketch(Hll8), is_empty]
//!  10 cpc_image bytes… -> ERR | [est lb1..3 ub1..3 is_empty num_coupons merge_flag, then the CpcWrapper's seven | ERR]
//! Sketch-level ops (public API only; items are the distinct integers seed*2^32 + i, i < n):
//!   4 hll_sk   lg_k type n seed mode   mode 0 streamed, 1 serialize+deserialize, 2 union of two overlapping halves,
//!                                      3 union of the same two halves read back from bytes
//!              -> [est lb1..3 ub1..3 is_empty mode (coupon count | out_of_order)]
//!   5 cpc_sk   lg_k n seed mode        mode 0 streamed, 1 serialize+deserialize, 2 union of two halves, 3 CpcWrapper of the image
//!              -> [est lb1..3 ub1..3 is_empty num_coupons merge_flag]
//!   6 theta_sk lg_k n seed p_bits(f32) mode   mode 0 update sketch, 1 compact, 2 compact ordered serialize+deserialize,
//!                                      3 compressed serialize+deserialize
//!              -> [est lb1..3 ub1..3 num_retained theta64 is_empty]
use datasketches::common::NumStdDev;
use datasketches::cpc::{CpcSketch, CpcUnion, CpcWrapper};
use datasketches::hll::{HllSketch, HllType, HllUnion};
use datasketches::theta::{CompactThetaSketch, ThetaSketch};

use crate::{fbits, Family, Ob, ERR};

pub struct Fam;

const SD: [NumStdDev; 3] = [NumStdDev::One, NumStdDev::Two, NumStdDev::Three];
const TYPES: [HllType; 3] = [HllType::Hll4, HllType::Hll6, HllType::Hll8];

fn f(bits: i128) -> f64 {
    f64::from_bits(bits as u64)
}

fn item(seed: i128, i: u64) -> i64 {
    ((seed as u64) << 32).wrapping_add(i) as i64
}

fn seven(est: f64, lb: impl Fn(NumStdDev) -> f64, ub: impl Fn(NumStdDev) -> f64) -> Ob {
    let mut ob: Ob = vec![fbits(est)];
    for s in SD {
        ob.push(fbits(lb(s)));
    }
    for s in SD {
        ob.push(fbits(ub(s)));
    }
    ob
}

impl Family for Fam {
    fn new(_cfg: &[i128]) -> Self {
        Fam
    }

    fn step(&mut self, code: i64, a: &[i128]) -> Ob {
        match code {
            1 => {
                let r = datasketches::hll::verif_estimator_bounds(
                    a[0] as u8,
                    a[1] != 0,
                    f(a[2]),
                    f(a[3]),
                    f(a[4]),
                    a[5] as u8,
                    a[6] as u32,
                );
                r.iter().map(|x| fbits(*x)).collect()
            }
            2 => {
                let r = datasketches::cpc::verif_estimator_bounds(a[0] != 0, f(a[1]), a[2] as u8, a[3] as u32);
                r.iter().map(|x| fbits(*x)).collect()
            }
            3 => match datasketches::verif::theta_binomial_bounds(a[0] as u64, f(a[1]), a[2] != 0) {
                Some(r) => r.iter().map(|x| fbits(*x)).collect(),
                None => vec![ERR],
            },
            4 => {
                let (lg_k, t, n, seed, mode) = (a[0] as u8, TYPES[a[1] as usize], a[2] as u64, a[3], a[4]);
                let sk = match mode {
                    0 | 1 => {
                        let mut s = HllSketch::new(lg_k, t);
                        for i in 0..n {
                            s.update(item(seed, i));
                        }
                        if mode == 1 { HllSketch::deserialize(&s.serialize()).unwrap() } else { s }
                    }
                    _ => {
                        // two overlapping halves [0, 2n/3) and [n/3, n)
                        let mut s1 = HllSketch::new(lg_k, t);
                        let mut s2 = HllSketch::new(lg_k, TYPES[((a[1] + 1) % 3) as usize]);
                        for i in 0..(2 * n / 3) {
                            s1.update(item(seed, i));
                        }
                        for i in (n / 3)..n {
                            s2.update(item(seed, i));
                        }
                        if mode == 3 {
                            s1 = HllSketch::deserialize(&s1.serialize()).unwrap();
                            s2 = HllSketch::deserialize(&s2.serialize()).unwrap();
                        }
                        let mut u = HllUnion::new(lg_k);
                        u.update(&s1);
                        u.update(&s2);
                        u.to_sketch(t)
                    }
                };
                let mut ob = seven(sk.estimate(), |s| sk.lower_bound(s), |s| sk.upper_bound(s));
                ob.push(sk.is_empty() as i128);
                let st = sk.verif_state();
                ob.push(st.mode as i128);
                ob.push(if st.mode < 2 { st.len as i128 } else { st.out_of_order as i128 });
                ob
            }
            5 => {
                let (lg_k, n, seed, mode) = (a[0] as u8, a[1] as u64, a[2], a[3]);
                let mut s = CpcSketch::new(lg_k);
                let mut ob;
                match mode {
                    0 | 1 | 3 => {
                        for i in 0..n {
                            s.update(item(seed, i));
                        }
                        if mode == 3 {
                            let w = CpcWrapper::new(&s.serialize()).unwrap();
                            ob = seven(w.estimate(), |k| w.lower_bound(k), |k| w.upper_bound(k));
                            ob.push(w.is_empty() as i128);
                            // the wrapper exposes neither the coupon count nor the merge flag: those of the wrapped image
                            ob.push(s.num_coupons() as i128);
                            ob.push(s.verif_state().merge_flag as i128);
                            return ob;
                        }
                        if mode == 1 {
                            s = CpcSketch::deserialize(&s.serialize()).unwrap();
                        }
                    }
                    _ => {
                        let mut s2 = CpcSketch::new(lg_k);
                        for i in 0..(2 * n / 3) {
                            s.update(item(seed, i));
                        }
                        for i in (n / 3)..n {
                            s2.update(item(seed, i));
                        }
                        let mut u = CpcUnion::new(lg_k);
                        u.update(&s);
                        u.update(&s2);
                        s = u.to_sketch();
                    }
                }
                ob = seven(s.estimate(), |k| s.lower_bound(k), |k| s.upper_bound(k));
                ob.push(s.is_empty() as i128);
                ob.push(s.num_coupons() as i128);
                ob.push(s.verif_state().merge_flag as i128);
                ob
            }
            6 => {
                let (lg_k, n, seed, p, mode) = (a[0] as u8, a[1] as u64, a[2], f32::from_bits(a[3] as u32), a[4]);
                let mut s = ThetaSketch::builder().lg_k(lg_k).sampling_probability(p).build();
                for i in 0..n {
                    s.update(item(seed, i));
                }
                let tail = |nr: usize, t64: u64, e: bool| vec![nr as i128, t64 as i128, e as i128];
                if mode == 0 {
                    let mut ob = seven(s.estimate(), |k| s.lower_bound(k), |k| s.upper_bound(k));
                    ob.extend(tail(s.num_retained(), s.theta64(), s.is_empty()));
                    return ob;
                }
                let c: CompactThetaSketch = match mode {
                    1 => s.compact(false),
                    2 => CompactThetaSketch::deserialize(&s.compact(true).serialize()).unwrap(),
                    _ => CompactThetaSketch::deserialize(&s.compact(true).serialize_compressed()).unwrap(),
                };
                let mut ob = seven(c.estimate(), |k| c.lower_bound(k), |k| c.upper_bound(k));
                ob.extend(tail(c.num_retained(), c.theta64(), c.is_empty()));
                ob
            }
            7 => {
                let r = datasketches::hll::verif_estimator_parts(a[0] as u8, f(a[1]), f(a[2]), a[3] as u8, a[4] as u32);
                r.iter().map(|x| fbits(*x)).collect()
            }
            8 => {
                // Monte Carlo: `trials` independent sketches of `n` distinct items each
                let (kind, lg_k, variant, n, trials, seed) = (a[0], a[1] as u8, a[2], a[3] as u64, a[4] as u64, a[5] as u64);
                let (mut sum, mut sumsq) = (0.0f64, 0.0f64);
                let mut cover = [0u64; 3];
                for t in 0..trials {
                    // disjoint item ranges per trial, scrambled so that consecutive trials are unrelated streams
                    let base = (seed.wrapping_mul(0x9E37_79B9_7F4A_7C15)).wrapping_add(t.wrapping_mul(0xD6E8_FEB8_6659_FD93));
                    let it = |i: u64| base.wrapping_add(i.wrapping_mul(0x2545_F491_4F6C_DD1D)) as i64;
                    let (est, lb, ub): (f64, [f64; 3], [f64; 3]) = match kind {
                        0 => {
                            let ty = TYPES[(variant % 3) as usize];
                            let sk = if variant < 3 {
                                let mut s = HllSketch::new(lg_k, ty);
                                for i in 0..n { s.update(it(i)); }
                                s
                            } else {
                                let mut s1 = HllSketch::new(lg_k, ty);
                                let mut s2 = HllSketch::new(lg_k, ty);
                                for i in 0..(2 * n / 3) { s1.update(it(i)); }
                                for i in (n / 3)..n { s2.update(it(i)); }
                                let mut u = HllUnion::new(lg_k);
                                u.update(&s1);
                                u.update(&s2);
                                u.to_sketch(ty)
                            };
                            (sk.estimate(), SD.map(|s| sk.lower_bound(s)), SD.map(|s| sk.upper_bound(s)))
                        }
                        1 => {
                            let mut s = CpcSketch::new(lg_k);
                            if variant == 0 {
                                for i in 0..n { s.update(it(i)); }
                            } else {
                                let mut s2 = CpcSketch::new(lg_k);
                                for i in 0..(2 * n / 3) { s.update(it(i)); }
                                for i in (n / 3)..n { s2.update(it(i)); }
                                let mut u = CpcUnion::new(lg_k);
                                u.update(&s);
                                u.update(&s2);
                                s = u.to_sketch();
                            }
                            (s.estimate(), SD.map(|k| s.lower_bound(k)), SD.map(|k| s.upper_bound(k)))
                        }
                        _ => {
                            let p = [1.0f32, 0.5, 0.1, 0.01][(variant % 4) as usize];
                            let mut s = ThetaSketch::builder().lg_k(lg_k).sampling_probability(p).build();
                            for i in 0..n { s.update(it(i)); }
                            if variant >= 4 {
                                let c = s.compact(true);
                                (c.estimate(), SD.map(|k| c.lower_bound(k)), SD.map(|k| c.upper_bound(k)))
                            } else {
                                (s.estimate(), SD.map(|k| s.lower_bound(k)), SD.map(|k| s.upper_bound(k)))
                            }
                        }
                    };
                    let truth = n as f64;
                    let re = if n == 0 { est } else { est / truth - 1.0 };
                    sum += re;
                    sumsq += re * re;
                    for j in 0..3 {
                        if lb[j] <= truth && truth <= ub[j] { cover[j] += 1; }
                    }
                }
                vec![trials as i128, fbits(sum), fbits(sumsq), cover[0] as i128, cover[1] as i128, cover[2] as i128]
            }
            9 => {
                // HllUnion's own estimate and bounds, next to those of its result sketch
                let (lg_k, t, n, seed) = (a[0] as u8, TYPES[a[1] as usize], a[2] as u64, a[3]);
                let mut s1 = HllSketch::new(lg_k, t);
                let mut s2 = HllSketch::new(lg_k, TYPES[((a[1] + 1) % 3) as usize]);
                for i in 0..(2 * n / 3) { s1.update(item(seed, i)); }
                for i in (n / 3)..n { s2.update(item(seed, i)); }
                let mut u = HllUnion::new(lg_k);
                u.update(&s1);
                u.update(&s2);
                let mut ob = seven(u.estimate(), |s| u.lower_bound(s), |s| u.upper_bound(s));
                let r = u.to_sketch(HllType::Hll8);
                ob.extend(seven(r.estimate(), |s| r.lower_bound(s), |s| r.upper_bound(s)));
                ob.push(u.is_empty() as i128);
                ob
            }
            10 => {
                // a CPC image given as bytes: the sketch's and the wrapper's estimate and bounds
                let bytes: Vec<u8> = a.iter().map(|x| *x as u8).collect();
                match CpcSketch::deserialize(&bytes) {
                    Err(_) => vec![ERR],
                    Ok(s) => {
                        let mut ob = seven(s.estimate(), |k| s.lower_bound(k), |k| s.upper_bound(k));
                        ob.push(s.is_empty() as i128);
                        ob.push(s.num_coupons() as i128);
                        ob.push(s.verif_state().merge_flag as i128);
                        match CpcWrapper::new(&bytes) {
                            Ok(w) => ob.extend(seven(w.estimate(), |k| w.lower_bound(k), |k| w.upper_bound(k))),
                            Err(_) => ob.push(ERR),
                        }
                        ob
                    }
                }
            }
            _ => panic!("bounds: unknown op {code}"),
        }
    }
}
