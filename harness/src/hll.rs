//! hll family: replays HLL cases on the real crate (property C02 and the HLL legs of later
//! properties).  A case holds two groups of three sketches (Hll4, Hll6, Hll8) with one lg_k;
//! stream ops feed all three sketches of a group in lock-step.
//!
//! cfg = [lg_k]
//! ops: 1 upd g item coupon   public `update(item as i64)` (the coupon is the reference value for the model)
//!      2 cpn g coupon        hook `verif_update_with_coupon`
//!      3 dump g t            canonical state
//!      4 est g t             [estimate bits]
//!      5 bounds g t          [lb1 lb2 lb3 ub1 ub2 ub3] bits
//!      6 raw g t             container / aux table in storage order
//!      7 ser g t             serialized bytes
//!      8 rt g t              sketch := deserialize(serialize(sketch))
//!      9 deser g t bytes..   sketch := deserialize(bytes) -> [1] | ERR
//!      30 merge g t          canonical state of u.to_sketch(Hll8), u = HllUnion::new(lg_k of the sketch); u.update(&sketch)
//!      31 reser g t          [exact, modaux, has_aux]: serialize(deserialize(serialize(sk))) == serialize(sk) byte for byte /
//!                            up to the order of the Hll4 exception list; has_aux = the image lists exceptions
//!      32 qry g t            [estimate, lb1..3, ub1..3] bits (crate only: the model answers [])
//!
//! union cases: cfg = [lg_max_k, 1]; a table of 8 source sketches and one HllUnion
//!      10 new i lg_k t       slot i := HllSketch::new
//!      11 cpn i coupon       hook verif_update_with_coupon on slot i
//!      12 upd i item coupon  public update(item) on slot i
//!      13 ooo i              array-mode slot i := deserialize(serialize() with the OUT_OF_ORDER flag set)
//!      14 uni i              union.update(&slot i)
//!      15 uval item coupon   union.update_value(item)
//!      16 reset              union.reset()
//!      17 sdump i            canonical state of slot i
//!      18 tosk t             canonical state of union.to_sketch(t)
//!      19 est t              [estimate, lb1..3, ub1..3] bits of union.to_sketch(t)
//!      20 uinfo              [lg_config_k, lg_max_k, is_empty]
//!      21 uest               [estimate, lb1..3, ub1..3] bits of the union itself
//!      22 tosk_rt t          r = union.to_sketch(t); r' = deserialize(serialize(r)): [exact, modaux, has_aux] ++ state of r'
use datasketches::common::NumStdDev;
use datasketches::hll::{HllSketch, HllType, HllUnion};

use crate::{fbits, Family, Ob, ERR, PANIC};

pub struct Fam {
    sk: Vec<HllSketch>,
    /// union cases (cfg = [lg_max_k, 1]): source sketches and the union
    slots: Vec<Option<HllSketch>>,
    union: Option<HllUnion>,
}

const TYPES: [HllType; 3] = [HllType::Hll4, HllType::Hll6, HllType::Hll8];

fn dump(s: &HllSketch) -> Ob {
    let st = s.verif_state();
    let mut ob: Ob = vec![st.mode as i128, st.lg_config_k as i128, st.target_type as i128];
    if st.mode < 2 {
        ob.push(st.lg_size as i128);
        ob.push(st.len as i128);
        let mut cs: Vec<u32> = st.raw_coupons.iter().copied().filter(|c| *c != 0).collect();
        cs.sort_unstable();
        ob.extend(cs.iter().map(|c| *c as i128));
    } else {
        ob.push(st.cur_min as i128);
        ob.push(st.num_at_cur_min as i128);
        ob.push(st.out_of_order as i128);
        ob.push(fbits(st.hip_accum));
        ob.push(fbits(st.kxq0));
        ob.push(fbits(st.kxq1));
        let kmask = (1u32 << st.lg_config_k) - 1;
        let mut aux: Vec<(u32, u32)> =
            st.aux_raw.iter().filter(|e| **e != 0).map(|e| (e & 0x3ff_ffff & kmask, e >> 26)).collect();
        aux.sort_unstable();
        ob.push(aux.len() as i128);
        for (s, v) in aux {
            ob.push(s as i128);
            ob.push(v as i128);
        }
        ob.extend(st.registers.iter().map(|v| *v as i128));
    }
    ob
}

/// The image bytes as an observation.  Every NaN is canonicalised on both sides (the model's floats have
/// one NaN): a NaN in one of the three f64 fields of an array-mode image (hip_accum @8, kxq0 @16, kxq1 @24;
/// reachable only through a malformed image that was accepted) is reported as 0x7ff8000000000000.
fn canonical_image(mut b: Vec<u8>) -> Ob {
    if b.len() >= 40 && (b[7] & 3) == 2 {
        for off in [8usize, 16, 24] {
            let bits = u64::from_le_bytes(b[off..off + 8].try_into().unwrap());
            if f64::from_bits(bits).is_nan() {
                b[off..off + 8].copy_from_slice(&0x7ff8_0000_0000_0000u64.to_le_bytes());
            }
        }
    }
    b.iter().map(|x| *x as i128).collect()
}

fn is_hll4_image(b: &[u8]) -> bool {
    b.len() >= 40 && (b[7] & 3) == 2 && ((b[7] >> 2) & 3) == 0
}

/// the image up to the order of the Hll4 exception list (the iteration order of the aux hash table)
fn norm_image(b: &[u8]) -> Vec<u32> {
    let mut out: Vec<u32> = Vec::new();
    if is_hll4_image(b) {
        let n = (40 + (1usize << (b[3] as usize - 1))).min(b.len());
        out.extend(b[..n].iter().map(|x| *x as u32));
        let mut aux: Vec<u32> = b[n..].chunks_exact(4).map(|c| u32::from_le_bytes(c.try_into().unwrap())).collect();
        aux.sort_unstable();
        out.extend(aux);
    } else {
        out.extend(b.iter().map(|x| *x as u32));
    }
    out
}

/// [exact, modaux, has_aux] for an image and the image of its deserialized copy
fn reser_obs(img: &[u8], img2: &[u8]) -> Ob {
    let has_aux = is_hll4_image(img) && u32::from_le_bytes(img[36..40].try_into().unwrap()) != 0;
    vec![(img == img2) as i128, (norm_image(img) == norm_image(img2)) as i128, has_aux as i128]
}

fn est7(s: &HllSketch) -> Ob {
    vec![
        fbits(s.estimate()),
        fbits(s.lower_bound(NumStdDev::One)),
        fbits(s.lower_bound(NumStdDev::Two)),
        fbits(s.lower_bound(NumStdDev::Three)),
        fbits(s.upper_bound(NumStdDev::One)),
        fbits(s.upper_bound(NumStdDev::Two)),
        fbits(s.upper_bound(NumStdDev::Three)),
    ]
}

impl Fam {
    fn ustep(&mut self, code: i64, a: &[i128]) -> Ob {
        let i = a.first().copied().unwrap_or(0) as usize;
        match code {
            10 => {
                self.slots[i] = Some(HllSketch::new(a[1] as u8, TYPES[a[2] as usize]));
                vec![]
            }
            // an op that names a slot never created (only a shrunk case does) is a no-op answering [-996]
            11 | 12 | 13 | 14 | 17 if self.slots.get(i).map_or(true, |s| s.is_none()) => vec![-996],
            11 => {
                self.slots[i].as_mut().unwrap().verif_update_with_coupon(a[1] as u32);
                vec![]
            }
            12 => {
                self.slots[i].as_mut().unwrap().update(a[1] as i64);
                vec![]
            }
            13 => {
                let s = self.slots[i].as_ref().unwrap();
                if s.verif_state().mode == 2 {
                    let mut b = s.serialize();
                    b[5] |= 16; // OUT_OF_ORDER_FLAG_MASK
                    self.slots[i] = Some(HllSketch::deserialize(&b).expect("flagged image must parse"));
                }
                vec![]
            }
            14 => {
                let s = self.slots[i].as_ref().unwrap();
                self.union.as_mut().unwrap().update(s);
                vec![]
            }
            15 => {
                self.union.as_mut().unwrap().update_value(a[0] as i64);
                vec![]
            }
            16 => {
                self.union.as_mut().unwrap().reset();
                vec![]
            }
            17 => dump(self.slots[i].as_ref().unwrap()),
            18 => dump(&self.union.as_ref().unwrap().to_sketch(TYPES[a[0] as usize])),
            19 => est7(&self.union.as_ref().unwrap().to_sketch(TYPES[a[0] as usize])),
            20 => {
                let u = self.union.as_ref().unwrap();
                vec![u.lg_config_k() as i128, u.lg_max_k() as i128, u.is_empty() as i128]
            }
            21 => {
                let u = self.union.as_ref().unwrap();
                vec![
                    fbits(u.estimate()),
                    fbits(u.lower_bound(NumStdDev::One)),
                    fbits(u.lower_bound(NumStdDev::Two)),
                    fbits(u.lower_bound(NumStdDev::Three)),
                    fbits(u.upper_bound(NumStdDev::One)),
                    fbits(u.upper_bound(NumStdDev::Two)),
                    fbits(u.upper_bound(NumStdDev::Three)),
                ]
            }
            22 => {
                let r = self.union.as_ref().unwrap().to_sketch(TYPES[a[0] as usize]);
                let img = r.serialize();
                match HllSketch::deserialize(&img) {
                    Ok(r2) => {
                        let mut ob = reser_obs(&img, &r2.serialize());
                        ob.extend(dump(&r2));
                        ob
                    }
                    Err(_) => vec![ERR],
                }
            }
            _ => vec![PANIC],
        }
    }
}

impl Family for Fam {
    fn new(cfg: &[i128]) -> Self {
        let lg_k = cfg[0] as u8;
        if cfg.len() >= 2 && cfg[1] == 1 {
            return Fam { sk: vec![], slots: (0..8).map(|_| None).collect(), union: Some(HllUnion::new(lg_k)) };
        }
        let mut sk = Vec::new();
        for _g in 0..2 {
            for t in TYPES {
                sk.push(HllSketch::new(lg_k, t));
            }
        }
        Fam { sk, slots: vec![], union: None }
    }

    fn parse_len(&self, code: i64, a: &[i128]) -> Option<usize> {
        if self.union.is_none() && code == 9 { Some(a.len().saturating_sub(2)) } else { None }
    }

    fn step(&mut self, code: i64, a: &[i128]) -> Ob {
        if self.union.is_some() {
            return self.ustep(code, a);
        }
        let g = a[0] as usize;
        match code {
            1 => {
                for t in 0..3 {
                    self.sk[g * 3 + t].update(a[1] as i64);
                }
                vec![]
            }
            2 => {
                for t in 0..3 {
                    self.sk[g * 3 + t].verif_update_with_coupon(a[1] as u32);
                }
                vec![]
            }
            3 => dump(&self.sk[g * 3 + a[1] as usize]),
            4 => vec![fbits(self.sk[g * 3 + a[1] as usize].estimate())],
            5 => {
                let s = &self.sk[g * 3 + a[1] as usize];
                vec![
                    fbits(s.lower_bound(NumStdDev::One)),
                    fbits(s.lower_bound(NumStdDev::Two)),
                    fbits(s.lower_bound(NumStdDev::Three)),
                    fbits(s.upper_bound(NumStdDev::One)),
                    fbits(s.upper_bound(NumStdDev::Two)),
                    fbits(s.upper_bound(NumStdDev::Three)),
                ]
            }
            6 => {
                let st = self.sk[g * 3 + a[1] as usize].verif_state();
                if st.mode < 2 {
                    let mut ob: Ob = vec![st.lg_size as i128, st.len as i128];
                    ob.extend(st.raw_coupons.iter().map(|c| *c as i128));
                    ob
                } else {
                    let mut ob: Ob = vec![st.aux_lg_size as i128, st.aux_count as i128];
                    ob.extend(st.aux_raw.iter().map(|c| *c as i128));
                    ob
                }
            }
            7 => canonical_image(self.sk[g * 3 + a[1] as usize].serialize()),
            8 => {
                let i = g * 3 + a[1] as usize;
                match HllSketch::deserialize(&self.sk[i].serialize()) {
                    Ok(s) => {
                        self.sk[i] = s;
                        vec![]
                    }
                    Err(_) => vec![ERR],
                }
            }
            9 => {
                let i = g * 3 + a[1] as usize;
                let bytes: Vec<u8> = a[2..].iter().map(|b| *b as u8).collect();
                match HllSketch::deserialize(&bytes) {
                    Ok(s) => {
                        self.sk[i] = s;
                        vec![1]
                    }
                    Err(_) => vec![ERR],
                }
            }
            30 => {
                let s = &self.sk[g * 3 + a[1] as usize];
                let mut u = HllUnion::new(s.verif_state().lg_config_k as u8);
                u.update(s);
                dump(&u.to_sketch(HllType::Hll8))
            }
            31 => {
                let img = self.sk[g * 3 + a[1] as usize].serialize();
                match HllSketch::deserialize(&img) {
                    Ok(s2) => reser_obs(&img, &s2.serialize()),
                    Err(_) => vec![ERR],
                }
            }
            32 => est7(&self.sk[g * 3 + a[1] as usize]),
            _ => vec![PANIC],
        }
    }
}
