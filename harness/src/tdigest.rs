//! tdigest family: replays t-digest cases on the real crate through its public API only
//! (op codes: see /verif/coq/theories/Corr/TDigest.v).
use datasketches::tdigest::TDigestMut;

use crate::{fbits, Family, Ob, ERR, PANIC};

const NONE: i128 = -2;

pub struct Fam {
    slots: Vec<Option<TDigestMut>>,
}

fn f(a: i128) -> f64 {
    f64::from_bits(a as u64)
}

fn ob_opt(x: Option<f64>) -> i128 {
    match x {
        Some(v) => fbits(v),
        None => NONE,
    }
}

fn ob_list(x: Option<Vec<f64>>) -> Ob {
    match x {
        Some(v) => v.into_iter().map(fbits).collect(),
        None => vec![NONE],
    }
}

fn rd_f64(b: &[u8], off: usize) -> f64 {
    f64::from_le_bytes(b[off..off + 8].try_into().unwrap())
}

/// parse the crate's own image: [k, reverse_merge, n, min, max, mean_0, weight_0, ...]
fn parse_image(b: &[u8]) -> Ob {
    let k = u16::from_le_bytes([b[3], b[4]]) as i128;
    let flags = b[5];
    let rev = ((flags & 4) != 0) as i128;
    if flags & 1 != 0 {
        return vec![k, rev, 0, NONE, NONE];
    }
    if flags & 2 != 0 {
        let v = fbits(rd_f64(b, 8));
        return vec![k, rev, 1, v, v, v, 1];
    }
    let n = u32::from_le_bytes(b[8..12].try_into().unwrap()) as usize;
    let mut out = vec![k, rev, n as i128, fbits(rd_f64(b, 16)), fbits(rd_f64(b, 24))];
    for i in 0..n {
        let off = 32 + 16 * i;
        out.push(fbits(rd_f64(b, off)));
        out.push(u64::from_le_bytes(b[off + 8..off + 16].try_into().unwrap()) as i128);
    }
    out
}

impl Family for Fam {
    fn new(_cfg: &[i128]) -> Self {
        Fam { slots: (0..8).map(|_| None).collect() }
    }

    /// deserialize ops parse untrusted bytes.  make() reserves 48 * (2k + fudge) bytes for the
    /// configuration k announced by the image (bytes 3-4 of the DataSketches format; a reference
    /// image announces it as a float): that configuration-sized reservation is granted on top of
    /// the input length (DESIGN.md C14: c1 * |b| + c0(cfg)).
    fn parse_len(&self, code: i64, a: &[i128]) -> Option<usize> {
        if code == 15 || code == 21 {
            let n = a.len() - 1;
            let k = if n >= 5 && a[3] == 20 {
                (a[4] as usize) | ((a[5] as usize) << 8)
            } else {
                65535
            };
            Some(n + 48 * (2 * k + 30) / 64)
        } else {
            None
        }
    }

    fn step(&mut self, code: i64, a: &[i128]) -> Ob {
        let slot = a[0] as usize;
        // an operation addressed to a slot that holds no digest (e.g. after a rejected image) is a
        // harness-level no-op, observed as EMPTY (-996) on both sides
        if !matches!(code, 0 | 15 | 21) && self.slots[slot].is_none() {
            return vec![-996];
        }
        if code == 2 && self.slots[a[1] as usize].is_none() {
            return vec![-996];
        }
        match code {
            0 => {
                self.slots[slot] = Some(TDigestMut::new(a[1] as u16));
                vec![]
            }
            1 => {
                self.slots[slot].as_mut().unwrap().update(f(a[1]));
                vec![]
            }
            2 => {
                let other = self.slots[a[1] as usize].clone().unwrap();
                let empty = other.is_empty();
                let dst = self.slots[slot].as_mut().unwrap();
                dst.merge(&other);
                if empty { vec![] } else { parse_image(&dst.clone().serialize()) }
            }
            3 | 4 => {
                let mode = a[1];
                let args: Vec<f64> = a[2..].iter().map(|x| f(*x)).collect();
                if mode == 0 {
                    let s = self.slots[slot].as_mut().unwrap();
                    args.iter().map(|x| ob_opt(if code == 3 { s.rank(*x) } else { s.quantile(*x) })).collect()
                } else {
                    let s = self.slots[slot].clone().unwrap().freeze();
                    args.iter().map(|x| ob_opt(if code == 3 { s.rank(*x) } else { s.quantile(*x) })).collect()
                }
            }
            5 | 6 => {
                let mode = a[1];
                let args: Vec<f64> = a[2..].iter().map(|x| f(*x)).collect();
                if mode == 0 {
                    let s = self.slots[slot].as_mut().unwrap();
                    ob_list(if code == 5 { s.cdf(&args) } else { s.pmf(&args) })
                } else {
                    let s = self.slots[slot].clone().unwrap().freeze();
                    ob_list(if code == 5 { s.cdf(&args) } else { s.pmf(&args) })
                }
            }
            7 => vec![self.slots[slot].as_ref().unwrap().total_weight() as i128],
            8 => vec![ob_opt(self.slots[slot].as_ref().unwrap().min_value())],
            9 => vec![ob_opt(self.slots[slot].as_ref().unwrap().max_value())],
            10 => vec![self.slots[slot].as_ref().unwrap().is_empty() as i128],
            17 => vec![self.slots[slot].as_ref().unwrap().k() as i128],
            11 => parse_image(&self.slots[slot].as_mut().unwrap().serialize()),
            12 => parse_image(&self.slots[slot].clone().unwrap().serialize()),
            14 => {
                let bytes = self.slots[slot].as_mut().unwrap().serialize();
                match TDigestMut::deserialize(&bytes, false) {
                    Ok(s) => {
                        self.slots[slot] = Some(s);
                        vec![1]
                    }
                    Err(_) => vec![ERR],
                }
            }
            15 | 21 => {
                let bytes: Vec<u8> = a[1..].iter().map(|b| *b as u8).collect();
                match TDigestMut::deserialize(&bytes, code == 21) {
                    Ok(s) => {
                        self.slots[slot] = Some(s);
                        vec![1]
                    }
                    Err(_) => vec![ERR],
                }
            }
            16 => {
                let s = self.slots[slot].take().unwrap();
                let mut s = s.freeze().unfreeze();
                let ob = parse_image(&s.serialize());
                self.slots[slot] = Some(s);
                ob
            }
            19 => {
                let bytes = self.slots[slot].as_mut().unwrap().serialize();
                match TDigestMut::deserialize(&bytes, false) {
                    Ok(s) => {
                        self.slots[a[1] as usize] = Some(s);
                        vec![1]
                    }
                    Err(_) => vec![ERR],
                }
            }
            20 => self.slots[slot].as_mut().unwrap().serialize().into_iter().map(|b| b as i128).collect(),
            18 => {
                let s = self.slots[slot].as_mut().unwrap();
                let mut out = vec![];
                for q in &a[1..] {
                    let x = s.quantile(f(*q));
                    out.push(ob_opt(x));
                    out.push(match x {
                        Some(x) => ob_opt(s.rank(x)),
                        None => NONE,
                    });
                }
                out
            }
            _ => vec![PANIC],
        }
    }
}
