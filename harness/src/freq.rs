//! Frequent Items family (C07; FI legs of the codec properties): replays a case on
//! `FrequentItemsSketch<i64>` through the public API only.
//!
//! cfg = [] ; 8 slots; ops (a = arguments):
//!  0 new          slot max_map_size                 -> []
//!  1 update       slot item weight hash             -> []            (hash is for the model only)
//!  2 query        slot item hash                    -> [estimate, lower, upper, maximum_error]
//!  3 stats        slot                              -> [maximum_error, total_weight, num_active, is_empty,
//!                                                       lg_cur, cur_cap, lg_max, max_cap]
//!  4 merge        dst src                           -> []            (src is cloned first, dst == src allowed)
//!  5 frequent     slot error_type mode threshold    -> [maximum_error, item, est, ub, lb, ...] rows sorted by item
//!                   error_type 0 = NoFalseNegatives, 1 = NoFalsePositives; mode 0 = frequent_items(et),
//!                   mode 1 = frequent_items_with_threshold(et, threshold)
//!  6 serialize    slot                              -> bytes
//!  7 roundtrip    src dst                           -> [1] and slots[dst] = deserialize(serialize(slots[src])) | ERR
//!  8 deserialize  slot k hash_1..hash_k bytes...    -> [1] | ERR     (hashes of the image's items, model only)
//!  9 reset        slot                              -> []
//! 10 epsilon      slot                              -> [bits of epsilon()]
//! 11 parse        slot k hash_1..hash_k bytes...    -> [1] | ERR | ALLOC   (C14: the slot is cleared first; peak
//!                   allocation of deserialize above 64 * len + 1 MiB gives ALLOC and the value is dropped)
//! 12 canon        slot                              -> serialize() decoded: [len, pre_longs, ser_ver, family, lg_max, lg_cur,
//!                   flags, active, weight, offset, item, count, ...] with the pairs sorted by item (layout independent)
//! String items (the hasher's multi-write path: std hashes a str as its bytes, then one 0xff byte): the same operations on
//! `FrequentItemsSketch<String>`, kept in a second set of 8 slots; an item is an id (what the model uses as the key) plus
//! its UTF-8 bytes (what the crate gets):
//! 20 new_s slot max_map_size | 21 update_s slot id weight hash bytes... | 22 query_s slot id hash bytes... | 23 stats_s slot
//! 24 merge_s dst src | 25 frequent_s slot error_type mode threshold (rows sorted by id)
//! 31 ser_s slot -> bytes | 32 parse_s slot bytes... -> [1] | ERR | ALLOC (slot cleared first, allocation accounted)
//! 33 rt_s slot -> [1] when deserialize(serialize(s)) answers every accessor / every row / epsilon exactly as s does and
//!    re-serializes to the same set of (item, count) pairs with the same header; [0, which] otherwise; ERR when rejected
//! 34 use_s slot -> [1] after estimates, updates (through purges), a merge with a clone and a serialize of the sketch
//!    (31..34 are judged on the crate's observations only: the Coq codec model is for i64 items)
//! u64 items: ops 40..52 = ops 0..12 on `FrequentItemsSketch<u64>` in a third set of slots; an item is given as the i64 with
//!    the same bits (same hash, same image bytes), so the i64 model answers them
//! An operation addressed to a slot that holds no sketch (e.g. after a rejected image) is a no-op observed
//! as EMPTY = [-996] (Base/Oracles.v).
use datasketches::frequencies::{ErrorType, FrequentItemsSketch};

use crate::{fbits, Family, Ob, ERR, PANIC};

const EMPTY: i128 = -996;

type Sk = FrequentItemsSketch<i64>;
type Ss = FrequentItemsSketch<String>;
type Su = FrequentItemsSketch<u64>;

/// the image decoded into a layout-independent observation (pairs sorted by item)
fn canon(b: &[u8]) -> Ob {
    let mut ob: Ob = vec![b.len() as i128];
    ob.extend(b.iter().take(6).map(|x| *x as i128));
    if b.len() < 32 {
        ob.extend([0, 0, 0]);
        return ob;
    }
    let u64at = |i: usize| u64::from_le_bytes(b[i..i + 8].try_into().unwrap());
    let n = u32::from_le_bytes(b[8..12].try_into().unwrap()) as usize;
    ob.extend([n as i128, u64at(16) as i128, u64at(24) as i128]);
    let mut pairs: Vec<(i64, u64)> = (0..n).map(|i| (u64at(32 + 8 * n + 8 * i) as i64, u64at(32 + 8 * i))).collect();
    pairs.sort();
    for (x, c) in pairs {
        ob.push(x as i128);
        ob.push(c as i128);
    }
    ob
}

pub struct Fam {
    slots: Vec<Option<Sk>>,
    sslots: Vec<Option<Ss>>,
    uslots: Vec<Option<Su>>,
    ids: std::collections::HashMap<String, i64>,
}

fn text(a: &[i128]) -> String {
    String::from_utf8(a.iter().map(|b| *b as u8).collect()).expect("utf-8 item")
}

impl Fam {
    fn get(&self, i: i128) -> &Sk {
        self.slots[i as usize].as_ref().expect("empty slot")
    }

    fn get_mut(&mut self, i: i128) -> &mut Sk {
        self.slots[i as usize].as_mut().expect("empty slot")
    }
}

impl Family for Fam {
    fn new(_cfg: &[i128]) -> Self {
        Fam { slots: vec![None; 8], sslots: vec![None; 8], uslots: vec![None; 8], ids: std::collections::HashMap::new() }
    }

    fn step(&mut self, code: i64, a: &[i128]) -> Ob {
        // operations on a slot that holds no sketch
        let needs = match code {
            1 | 2 | 3 | 5 | 6 | 7 | 9 | 10 | 12 => vec![a[0]],
            4 => vec![a[0], a[1]],
            _ => vec![],
        };
        if needs.iter().any(|i| self.slots[*i as usize].is_none()) {
            return vec![EMPTY];
        }
        let sneeds = match code {
            21 | 22 | 23 | 25 | 31 | 33 | 34 => vec![a[0]],
            24 => vec![a[0], a[1]],
            _ => vec![],
        };
        if sneeds.iter().any(|i| self.sslots[*i as usize].is_none()) {
            return vec![EMPTY];
        }
        if (40..=52).contains(&code) {
            return self.step_u64(code - 40, a);
        }
        match code {
            31 => self.sslots[a[0] as usize].as_ref().unwrap().serialize().iter().map(|b| *b as i128).collect(),
            32 => {
                let bytes: Vec<u8> = a[1..].iter().map(|b| *b as u8).collect();
                self.sslots[a[0] as usize] = None;
                let base = crate::alloc_mark();
                let r = Ss::deserialize(&bytes);
                if crate::alloc_peak_since(base) > 64 * bytes.len() + (1 << 20) {
                    return vec![crate::ALLOC];
                }
                match r {
                    Ok(s) => {
                        self.sslots[a[0] as usize] = Some(s);
                        vec![1]
                    }
                    Err(_) => vec![ERR],
                }
            }
            33 => {
                let s = self.sslots[a[0] as usize].as_ref().unwrap();
                let bytes = s.serialize();
                let d = match Ss::deserialize(&bytes) {
                    Ok(d) => d,
                    Err(_) => return vec![ERR],
                };
                let stats = |x: &Ss| {
                    (x.maximum_error(), x.total_weight(), x.num_active_items(), x.is_empty(), x.lg_cur_map_size(),
                     x.current_map_capacity(), x.lg_max_map_size(), x.maximum_map_capacity(), x.epsilon().to_bits())
                };
                if stats(s) != stats(&d) {
                    return vec![0, 1];
                }
                let rows = |x: &Ss, et| {
                    let mut v: Vec<(String, u64, u64, u64)> = x
                        .frequent_items_with_threshold(et, 0)
                        .iter()
                        .map(|r| (r.item().clone(), r.estimate(), r.upper_bound(), r.lower_bound()))
                        .collect();
                    v.sort();
                    v
                };
                let all = rows(s, ErrorType::NoFalseNegatives);
                if all != rows(&d, ErrorType::NoFalseNegatives) || rows(s, ErrorType::NoFalsePositives) != rows(&d, ErrorType::NoFalsePositives) {
                    return vec![0, 2];
                }
                for (item, e, u, l) in &all {
                    if (d.estimate(item), d.upper_bound(item), d.lower_bound(item)) != (*e, *u, *l) {
                        return vec![0, 3];
                    }
                }
                let probe = "never seen".to_string();
                if (s.estimate(&probe), s.upper_bound(&probe), s.lower_bound(&probe)) != (d.estimate(&probe), d.upper_bound(&probe), d.lower_bound(&probe)) {
                    return vec![0, 4];
                }
                // the image of the copy: same length, same header, same pairs (the slot order is not canonical)
                let b2 = d.serialize();
                if b2.len() != bytes.len() || b2[..bytes.len().min(32)] != bytes[..bytes.len().min(32)] {
                    return vec![0, 5];
                }
                match Ss::deserialize(&b2) {
                    Ok(d2) if rows(&d2, ErrorType::NoFalseNegatives) == all => vec![1],
                    _ => vec![0, 6],
                }
            }
            34 => {
                let s = self.sslots[a[0] as usize].as_mut().unwrap();
                let room = s.total_weight() < u64::MAX / 4;
                let mut acc = 0u64;
                for i in 0..40u32 {
                    let item = format!("use-{}-{}", i, "x".repeat((i % 19) as usize));
                    acc = acc.wrapping_add(s.estimate(&item)).wrapping_add(s.upper_bound(&item));
                    if room {
                        s.update_with_count(item, 1 + (i as u64 % 3));
                    }
                }
                if room {
                    let other = s.clone();
                    s.merge(&other);
                }
                let n = s.frequent_items(ErrorType::NoFalseNegatives).len() + s.frequent_items(ErrorType::NoFalsePositives).len();
                let bytes = s.serialize();
                let _ = (acc, n);
                match Ss::deserialize(&bytes) {
                    Ok(_) => vec![1],
                    Err(_) => vec![0],
                }
            }
            0 => {
                self.slots[a[0] as usize] = Some(Sk::new(a[1] as usize));
                vec![]
            }
            1 => {
                self.get_mut(a[0]).update_with_count(a[1] as i64, a[2] as u64);
                vec![]
            }
            2 => {
                let s = self.get(a[0]);
                let x = a[1] as i64;
                vec![
                    s.estimate(&x) as i128,
                    s.lower_bound(&x) as i128,
                    s.upper_bound(&x) as i128,
                    s.maximum_error() as i128,
                ]
            }
            3 => {
                let s = self.get(a[0]);
                vec![
                    s.maximum_error() as i128,
                    s.total_weight() as i128,
                    s.num_active_items() as i128,
                    s.is_empty() as i128,
                    s.lg_cur_map_size() as i128,
                    s.current_map_capacity() as i128,
                    s.lg_max_map_size() as i128,
                    s.maximum_map_capacity() as i128,
                ]
            }
            4 => {
                let other = self.get(a[1]).clone();
                self.get_mut(a[0]).merge(&other);
                vec![]
            }
            5 => {
                let s = self.get(a[0]);
                let et = if a[1] == 0 { ErrorType::NoFalseNegatives } else { ErrorType::NoFalsePositives };
                let mut rows = if a[2] == 0 {
                    s.frequent_items(et)
                } else {
                    s.frequent_items_with_threshold(et, a[3] as u64)
                };
                rows.sort_by_key(|r| *r.item());
                let mut ob = vec![s.maximum_error() as i128];
                for r in rows {
                    ob.push(*r.item() as i128);
                    ob.push(r.estimate() as i128);
                    ob.push(r.upper_bound() as i128);
                    ob.push(r.lower_bound() as i128);
                }
                ob
            }
            6 => self.get(a[0]).serialize().iter().map(|b| *b as i128).collect(),
            7 => {
                let bytes = self.get(a[0]).serialize();
                match Sk::deserialize(&bytes) {
                    Ok(s) => {
                        self.slots[a[1] as usize] = Some(s);
                        vec![1]
                    }
                    Err(_) => vec![ERR],
                }
            }
            8 => {
                let k = a[1] as usize;
                let bytes: Vec<u8> = a[2 + k..].iter().map(|b| *b as u8).collect();
                match Sk::deserialize(&bytes) {
                    Ok(s) => {
                        self.slots[a[0] as usize] = Some(s);
                        vec![1]
                    }
                    Err(_) => vec![ERR],
                }
            }
            9 => {
                self.get_mut(a[0]).reset();
                vec![]
            }
            10 => vec![fbits(self.get(a[0]).epsilon())],
            12 => canon(&self.get(a[0]).serialize()),
            20 => {
                self.sslots[a[0] as usize] = Some(Ss::new(a[1] as usize));
                vec![]
            }
            21 => {
                let item = text(&a[4..]);
                self.ids.insert(item.clone(), a[1] as i64);
                self.sslots[a[0] as usize].as_mut().unwrap().update_with_count(item, a[2] as u64);
                vec![]
            }
            22 => {
                let item = text(&a[3..]);
                self.ids.insert(item.clone(), a[1] as i64);
                let s = self.sslots[a[0] as usize].as_ref().unwrap();
                vec![
                    s.estimate(&item) as i128,
                    s.lower_bound(&item) as i128,
                    s.upper_bound(&item) as i128,
                    s.maximum_error() as i128,
                ]
            }
            23 => {
                let s = self.sslots[a[0] as usize].as_ref().unwrap();
                vec![
                    s.maximum_error() as i128,
                    s.total_weight() as i128,
                    s.num_active_items() as i128,
                    s.is_empty() as i128,
                    s.lg_cur_map_size() as i128,
                    s.current_map_capacity() as i128,
                    s.lg_max_map_size() as i128,
                    s.maximum_map_capacity() as i128,
                ]
            }
            24 => {
                let other = self.sslots[a[1] as usize].clone().unwrap();
                self.sslots[a[0] as usize].as_mut().unwrap().merge(&other);
                vec![]
            }
            25 => {
                let s = self.sslots[a[0] as usize].as_ref().unwrap();
                let et = if a[1] == 0 { ErrorType::NoFalseNegatives } else { ErrorType::NoFalsePositives };
                let rows = if a[2] == 0 { s.frequent_items(et) } else { s.frequent_items_with_threshold(et, a[3] as u64) };
                let mut out: Vec<(i64, u64, u64, u64)> =
                    rows.iter().map(|r| (self.ids[r.item()], r.estimate(), r.upper_bound(), r.lower_bound())).collect();
                out.sort();
                let mut ob = vec![s.maximum_error() as i128];
                for (id, e, u, l) in out {
                    ob.extend([id as i128, e as i128, u as i128, l as i128]);
                }
                ob
            }
            11 => {
                let k = a[1] as usize;
                let bytes: Vec<u8> = a[2 + k..].iter().map(|b| *b as u8).collect();
                self.slots[a[0] as usize] = None;
                let base = crate::alloc_mark();
                let r = Sk::deserialize(&bytes);
                if crate::alloc_peak_since(base) > 64 * bytes.len() + (1 << 20) {
                    // out-of-proportion allocation: reported as ALLOC; the value is dropped
                    return vec![crate::ALLOC];
                }
                match r {
                    Ok(s) => {
                        self.slots[a[0] as usize] = Some(s);
                        vec![1]
                    }
                    Err(_) => vec![ERR],
                }
            }
            _ => vec![PANIC],
        }
    }
}

impl Fam {
    /// ops 0..12 on `FrequentItemsSketch<u64>`; items cross the case format as the i64 with the same bits
    fn step_u64(&mut self, code: i64, a: &[i128]) -> Ob {
        let needs = match code {
            1 | 2 | 3 | 5 | 6 | 7 | 9 | 10 | 12 => vec![a[0]],
            4 => vec![a[0], a[1]],
            _ => vec![],
        };
        if needs.iter().any(|i| self.uslots[*i as usize].is_none()) {
            return vec![EMPTY];
        }
        let item = |v: i128| v as i64 as u64;
        match code {
            0 => {
                self.uslots[a[0] as usize] = Some(Su::new(a[1] as usize));
                vec![]
            }
            1 => {
                self.uslots[a[0] as usize].as_mut().unwrap().update_with_count(item(a[1]), a[2] as u64);
                vec![]
            }
            2 => {
                let s = self.uslots[a[0] as usize].as_ref().unwrap();
                let x = item(a[1]);
                vec![s.estimate(&x) as i128, s.lower_bound(&x) as i128, s.upper_bound(&x) as i128, s.maximum_error() as i128]
            }
            3 => {
                let s = self.uslots[a[0] as usize].as_ref().unwrap();
                vec![
                    s.maximum_error() as i128,
                    s.total_weight() as i128,
                    s.num_active_items() as i128,
                    s.is_empty() as i128,
                    s.lg_cur_map_size() as i128,
                    s.current_map_capacity() as i128,
                    s.lg_max_map_size() as i128,
                    s.maximum_map_capacity() as i128,
                ]
            }
            4 => {
                let other = self.uslots[a[1] as usize].clone().unwrap();
                self.uslots[a[0] as usize].as_mut().unwrap().merge(&other);
                vec![]
            }
            5 => {
                let s = self.uslots[a[0] as usize].as_ref().unwrap();
                let et = if a[1] == 0 { ErrorType::NoFalseNegatives } else { ErrorType::NoFalsePositives };
                let rows = if a[2] == 0 { s.frequent_items(et) } else { s.frequent_items_with_threshold(et, a[3] as u64) };
                let mut out: Vec<(i64, u64, u64, u64)> =
                    rows.iter().map(|r| (*r.item() as i64, r.estimate(), r.upper_bound(), r.lower_bound())).collect();
                out.sort();
                let mut ob = vec![s.maximum_error() as i128];
                for (x, e, u, l) in out {
                    ob.extend([x as i128, e as i128, u as i128, l as i128]);
                }
                ob
            }
            6 => self.uslots[a[0] as usize].as_ref().unwrap().serialize().iter().map(|b| *b as i128).collect(),
            7 => {
                let bytes = self.uslots[a[0] as usize].as_ref().unwrap().serialize();
                match Su::deserialize(&bytes) {
                    Ok(s) => {
                        self.uslots[a[1] as usize] = Some(s);
                        vec![1]
                    }
                    Err(_) => vec![ERR],
                }
            }
            8 | 11 => {
                let k = a[1] as usize;
                let bytes: Vec<u8> = a[2 + k..].iter().map(|b| *b as u8).collect();
                if code == 11 {
                    self.uslots[a[0] as usize] = None;
                }
                let base = crate::alloc_mark();
                let r = Su::deserialize(&bytes);
                if code == 11 && crate::alloc_peak_since(base) > 64 * bytes.len() + (1 << 20) {
                    return vec![crate::ALLOC];
                }
                match r {
                    Ok(s) => {
                        self.uslots[a[0] as usize] = Some(s);
                        vec![1]
                    }
                    Err(_) => vec![ERR],
                }
            }
            9 => {
                self.uslots[a[0] as usize].as_mut().unwrap().reset();
                vec![]
            }
            10 => vec![fbits(self.uslots[a[0] as usize].as_ref().unwrap().epsilon())],
            12 => canon(&self.uslots[a[0] as usize].as_ref().unwrap().serialize()),
            _ => vec![PANIC],
        }
    }
}
