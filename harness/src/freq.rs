//! Frequent Items family (C07; FI legs of the codec properties): replays a case on
//! `FrequentItemsSketch<i64>` through the public API only.
//!
//! cfg = [] ; 8 slots; ops (a = arguments):
//!  0 new          slot max_map_size                 -> []
//!  1 update       slot item weight hash             -> []            (hash is for the model only)
//!  2 query        slot item hash                    -> [estimate, lower, upper, maximum_error]
//!  3 stats        slot                              -> [maximum_error, total_weight, num_active, is_empty,
//!                                                       lg_cur, cur_cap, lg_max, max_cap]
//!  4 merge        dst src                           -> []            (src is cloned first, dst == src allowed)
//!  5 frequent     slot error_type mode threshold    -> [maximum_error, item, est, ub, lb, ...] rows sorted by item
//!                   error_type 0 = NoFalseNegatives, 1 = NoFalsePositives; mode 0 = frequent_items(et),
//!                   mode 1 = frequent_items_with_threshold(et, threshold)
//!  6 serialize    slot                              -> bytes
//!  7 roundtrip    src dst                           -> [1] and slots[dst] = deserialize(serialize(slots[src])) | ERR
//!  8 deserialize  slot k hash_1..hash_k bytes...    -> [1] | ERR     (hashes of the image's items, model only)
//!  9 reset        slot                              -> []
//! 10 epsilon      slot                              -> [bits of epsilon()]
//! 11 parse        slot k hash_1..hash_k bytes...    -> [1] | ERR | ALLOC   (C14: the slot is cleared first; peak
//!                   allocation of deserialize above 64 * len + 1 MiB gives ALLOC and the value is dropped)
//! 12 canon        slot                              -> serialize() decoded: [len, pre_longs, ser_ver, family, lg_max, lg_cur,
//!                   flags, active, weight, offset, item, count, ...] with the pairs sorted by item (layout independent)
//! String items (the hasher's multi-write path: std hashes a str as its bytes, then one 0xff byte): the same operations on
//! `FrequentItemsSketch<String>`, kept in a second set of 8 slots; an item is an id (what the model uses as the key) plus
//! its UTF-8 bytes (what the crate gets):
//! 20 new_s slot max_map_size | 21 update_s slot id weight hash bytes... | 22 query_s slot id hash bytes... | 23 stats_s slot
//! 24 merge_s dst src | 25 frequent_s slot error_type mode threshold (rows sorted by id)
//! An operation addressed to a slot that holds no sketch (e.g. after a rejected image) is a no-op observed
//! as EMPTY = [-996] (Base/Oracles.v).
use datasketches::frequencies::{ErrorType, FrequentItemsSketch};

use crate::{fbits, Family, Ob, ERR, PANIC};

const EMPTY: i128 = -996;

type Sk = FrequentItemsSketch<i64>;
type Ss = FrequentItemsSketch<String>;

/// the image decoded into a layout-independent observation (pairs sorted by item)
fn canon(b: &[u8]) -> Ob {
    let mut ob: Ob = vec![b.len() as i128];
    ob.extend(b.iter().take(6).map(|x| *x as i128));
    if b.len() < 32 {
        ob.extend([0, 0, 0]);
        return ob;
    }
    let u64at = |i: usize| u64::from_le_bytes(b[i..i + 8].try_into().unwrap());
    let n = u32::from_le_bytes(b[8..12].try_into().unwrap()) as usize;
    ob.extend([n as i128, u64at(16) as i128, u64at(24) as i128]);
    let mut pairs: Vec<(i64, u64)> = (0..n).map(|i| (u64at(32 + 8 * n + 8 * i) as i64, u64at(32 + 8 * i))).collect();
    pairs.sort();
    for (x, c) in pairs {
        ob.push(x as i128);
        ob.push(c as i128);
    }
    ob
}

pub struct Fam {
    slots: Vec<Option<Sk>>,
    sslots: Vec<Option<Ss>>,
    ids: std::collections::HashMap<String, i64>,
}

fn text(a: &[i128]) -> String {
    String::from_utf8(a.iter().map(|b| *b as u8).collect()).expect("utf-8 item")
}

impl Fam {
    fn get(&self, i: i128) -> &Sk {
        self.slots[i as usize].as_ref().expect("empty slot")
    }

    fn get_mut(&mut self, i: i128) -> &mut Sk {
        self.slots[i as usize].as_mut().expect("empty slot")
    }
}

impl Family for Fam {
    fn new(_cfg: &[i128]) -> Self {
        Fam { slots: vec![None; 8], sslots: vec![None; 8], ids: std::collections::HashMap::new() }
    }

    fn step(&mut self, code: i64, a: &[i128]) -> Ob {
        // operations on a slot that holds no sketch
        let needs = match code {
            1 | 2 | 3 | 5 | 6 | 7 | 9 | 10 | 12 => vec![a[0]],
            4 => vec![a[0], a[1]],
            _ => vec![],
        };
        if needs.iter().any(|i| self.slots[*i as usize].is_none()) {
            return vec![EMPTY];
        }
        let sneeds = match code {
            21 | 22 | 23 | 25 => vec![a[0]],
            24 => vec![a[0], a[1]],
            _ => vec![],
        };
        if sneeds.iter().any(|i| self.sslots[*i as usize].is_none()) {
            return vec![EMPTY];
        }
        match code {
            0 => {
                self.slots[a[0] as usize] = Some(Sk::new(a[1] as usize));
                vec![]
            }
            1 => {
                self.get_mut(a[0]).update_with_count(a[1] as i64, a[2] as u64);
                vec![]
            }
            2 => {
                let s = self.get(a[0]);
                let x = a[1] as i64;
                vec![
                    s.estimate(&x) as i128,
                    s.lower_bound(&x) as i128,
                    s.upper_bound(&x) as i128,
                    s.maximum_error() as i128,
                ]
            }
            3 => {
                let s = self.get(a[0]);
                vec![
                    s.maximum_error() as i128,
                    s.total_weight() as i128,
                    s.num_active_items() as i128,
                    s.is_empty() as i128,
                    s.lg_cur_map_size() as i128,
                    s.current_map_capacity() as i128,
                    s.lg_max_map_size() as i128,
                    s.maximum_map_capacity() as i128,
                ]
            }
            4 => {
                let other = self.get(a[1]).clone();
                self.get_mut(a[0]).merge(&other);
                vec![]
            }
            5 => {
                let s = self.get(a[0]);
                let et = if a[1] == 0 { ErrorType::NoFalseNegatives } else { ErrorType::NoFalsePositives };
                let mut rows = if a[2] == 0 {
                    s.frequent_items(et)
                } else {
                    s.frequent_items_with_threshold(et, a[3] as u64)
                };
                rows.sort_by_key(|r| *r.item());
                let mut ob = vec![s.maximum_error() as i128];
                for r in rows {
                    ob.push(*r.item() as i128);
                    ob.push(r.estimate() as i128);
                    ob.push(r.upper_bound() as i128);
                    ob.push(r.lower_bound() as i128);
                }
                ob
            }
            6 => self.get(a[0]).serialize().iter().map(|b| *b as i128).collect(),
            7 => {
                let bytes = self.get(a[0]).serialize();
                match Sk::deserialize(&bytes) {
                    Ok(s) => {
                        self.slots[a[1] as usize] = Some(s);
                        vec![1]
                    }
                    Err(_) => vec![ERR],
                }
            }
            8 => {
                let k = a[1] as usize;
                let bytes: Vec<u8> = a[2 + k..].iter().map(|b| *b as u8).collect();
                match Sk::deserialize(&bytes) {
                    Ok(s) => {
                        self.slots[a[0] as usize] = Some(s);
                        vec![1]
                    }
                    Err(_) => vec![ERR],
                }
            }
            9 => {
                self.get_mut(a[0]).reset();
                vec![]
            }
            10 => vec![fbits(self.get(a[0]).epsilon())],
            12 => canon(&self.get(a[0]).serialize()),
            20 => {
                self.sslots[a[0] as usize] = Some(Ss::new(a[1] as usize));
                vec![]
            }
            21 => {
                let item = text(&a[4..]);
                self.ids.insert(item.clone(), a[1] as i64);
                self.sslots[a[0] as usize].as_mut().unwrap().update_with_count(item, a[2] as u64);
                vec![]
            }
            22 => {
                let item = text(&a[3..]);
                self.ids.insert(item.clone(), a[1] as i64);
                let s = self.sslots[a[0] as usize].as_ref().unwrap();
                vec![
                    s.estimate(&item) as i128,
                    s.lower_bound(&item) as i128,
                    s.upper_bound(&item) as i128,
                    s.maximum_error() as i128,
                ]
            }
            23 => {
                let s = self.sslots[a[0] as usize].as_ref().unwrap();
                vec![
                    s.maximum_error() as i128,
                    s.total_weight() as i128,
                    s.num_active_items() as i128,
                    s.is_empty() as i128,
                    s.lg_cur_map_size() as i128,
                    s.current_map_capacity() as i128,
                    s.lg_max_map_size() as i128,
                    s.maximum_map_capacity() as i128,
                ]
            }
            24 => {
                let other = self.sslots[a[1] as usize].clone().unwrap();
                self.sslots[a[0] as usize].as_mut().unwrap().merge(&other);
                vec![]
            }
            25 => {
                let s = self.sslots[a[0] as usize].as_ref().unwrap();
                let et = if a[1] == 0 { ErrorType::NoFalseNegatives } else { ErrorType::NoFalsePositives };
                let rows = if a[2] == 0 { s.frequent_items(et) } else { s.frequent_items_with_threshold(et, a[3] as u64) };
                let mut out: Vec<(i64, u64, u64, u64)> =
                    rows.iter().map(|r| (self.ids[r.item()], r.estimate(), r.upper_bound(), r.lower_bound())).collect();
                out.sort();
                let mut ob = vec![s.maximum_error() as i128];
                for (id, e, u, l) in out {
                    ob.extend([id as i128, e as i128, u as i128, l as i128]);
                }
                ob
            }
            11 => {
                let k = a[1] as usize;
                let bytes: Vec<u8> = a[2 + k..].iter().map(|b| *b as u8).collect();
                self.slots[a[0] as usize] = None;
                let base = crate::alloc_mark();
                let r = Sk::deserialize(&bytes);
                if crate::alloc_peak_since(base) > 64 * bytes.len() + (1 << 20) {
                    // out-of-proportion allocation: reported as ALLOC; the value is dropped
                    return vec![crate::ALLOC];
                }
                match r {
                    Ok(s) => {
                        self.slots[a[0] as usize] = Some(s);
                        vec![1]
                    }
                    Err(_) => vec![ERR],
                }
            }
            _ => vec![PANIC],
        }
    }
}
