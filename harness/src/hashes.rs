use datasketches::verif;

use crate::{Family, Ob, PANIC};

/// cfg = [] ; ops:
///  1 seed n_chunks len_1 .. len_n bytes...  -> murmur (h1, h2) with the bytes split into the chunks
///  2 seed n_chunks len_1 .. len_n bytes...  -> xxh64
///  3 input seed                             -> XxHash64::hash_u64
///  4 seed                                   -> compute_seed_hash
pub struct Hashes;

fn chunks(a: &[i128]) -> Vec<Vec<u8>> {
    let n = a[1] as usize;
    let lens: Vec<usize> = a[2..2 + n].iter().map(|x| *x as usize).collect();
    let bytes: Vec<u8> = a[2 + n..].iter().map(|x| *x as u8).collect();
    let mut out = Vec::new();
    let mut pos = 0;
    for l in lens {
        out.push(bytes[pos..pos + l].to_vec());
        pos += l;
    }
    assert_eq!(pos, bytes.len());
    out
}

impl Family for Hashes {
    fn new(_cfg: &[i128]) -> Self {
        Hashes
    }

    fn step(&mut self, code: i64, a: &[i128]) -> Ob {
        match code {
            1 => {
                let c = chunks(a);
                let parts: Vec<&[u8]> = c.iter().map(|v| v.as_slice()).collect();
                let (h1, h2) = verif::murmur3_x64_128(a[0] as u64, &parts);
                vec![h1 as i128, h2 as i128]
            }
            2 => {
                let c = chunks(a);
                let parts: Vec<&[u8]> = c.iter().map(|v| v.as_slice()).collect();
                vec![verif::xxhash64(a[0] as u64, &parts) as i128]
            }
            3 => vec![verif::xxhash64_u64(a[0] as u64, a[1] as u64) as i128],
            4 => vec![verif::compute_seed_hash(a[0] as u64) as i128],
            _ => vec![PANIC],
        }
    }
}
