//! hashes family (C16): digests under arbitrary write chunkings, and the quantities the
//! sketches derive from an item's digest, observed through the public API.
use datasketches::bloom::BloomFilterBuilder;
use datasketches::countmin::CountMinSketch;
use datasketches::cpc::CpcSketch;
use datasketches::hll::{HllSketch, HllType};
use datasketches::theta::ThetaSketch;
use datasketches::verif;

use crate::{Family, Ob, PANIC};

/// Every op carries the generator's reference answer in front: a = m, e_1..e_m, real args.
/// ops (real args):
///  1 seed n len_1..len_n bytes..  -> murmur (h1, h2), bytes written in n chunks
///  2 seed n len_1..len_n bytes..  -> xxh64
///  3 input seed                   -> XxHash64::hash_u64
///  4 seed                         -> compute_seed_hash
///  5 item                         -> HLL coupon of the item (list-mode image of a 1-item sketch)
///  6 seed item                    -> theta retained hash
///  7 seed nh nb item              -> Count-Min bucket per row
///  8 seed num_bits num_hashes item-> Bloom bit positions (sorted, distinct)
/// item = kind payload: 0 i64 | 1 ascii string bytes | 2 (u64, u64)
pub struct Hashes;

fn chunks(a: &[i128]) -> Vec<Vec<u8>> {
    let n = a[1] as usize;
    let lens: Vec<usize> = a[2..2 + n].iter().map(|x| *x as usize).collect();
    let bytes: Vec<u8> = a[2 + n..].iter().map(|x| *x as u8).collect();
    let mut out = Vec::new();
    let mut pos = 0;
    for l in lens {
        out.push(bytes[pos..pos + l].to_vec());
        pos += l;
    }
    assert_eq!(pos, bytes.len());
    out
}

enum Item {
    I(i64),
    S(String),
    P((u64, u64)),
}

fn item(a: &[i128]) -> Item {
    match a[0] {
        0 => Item::I(a[1] as i64),
        1 => Item::S(String::from_utf8(a[1..].iter().map(|x| *x as u8).collect()).unwrap()),
        _ => Item::P((a[1] as u64, a[2] as u64)),
    }
}

macro_rules! with_item {
    ($it:expr, $v:ident, $body:expr) => {
        match $it {
            Item::I($v) => $body,
            Item::S($v) => $body,
            Item::P($v) => $body,
        }
    };
}

impl Family for Hashes {
    fn new(_cfg: &[i128]) -> Self {
        Hashes
    }

    fn step(&mut self, code: i64, a0: &[i128]) -> Ob {
        let a = &a0[1 + a0[0] as usize..];
        match code {
            1 => {
                let c = chunks(a);
                let parts: Vec<&[u8]> = c.iter().map(|v| v.as_slice()).collect();
                let (h1, h2) = verif::murmur3_x64_128(a[0] as u64, &parts);
                vec![h1 as i128, h2 as i128]
            }
            2 => {
                let c = chunks(a);
                let parts: Vec<&[u8]> = c.iter().map(|v| v.as_slice()).collect();
                vec![verif::xxhash64(a[0] as u64, &parts) as i128]
            }
            3 => vec![verif::xxhash64_u64(a[0] as u64, a[1] as u64) as i128],
            4 => vec![verif::compute_seed_hash(a[0] as u64) as i128],
            5 => {
                let mut s = HllSketch::new(12, HllType::Hll8);
                with_item!(item(a), v, s.update(v));
                let b = s.serialize();
                vec![u32::from_le_bytes([b[8], b[9], b[10], b[11]]) as i128]
            }
            6 => {
                let mut s = ThetaSketch::builder().lg_k(5).seed(a[0] as u64).build();
                with_item!(item(&a[1..]), v, s.update(v));
                s.iter().map(|h| h as i128).collect()
            }
            7 => {
                let (nh, nb) = (a[1] as u8, a[2] as u32);
                let mut s = CountMinSketch::<u64>::with_seed(nh, nb, a[0] as u64);
                with_item!(item(&a[3..]), v, s.update(v));
                let b = s.serialize();
                let mut out = vec![];
                for r in 0..nh as usize {
                    for c in 0..nb as usize {
                        let off = 24 + 8 * (r * nb as usize + c);
                        if b[off] != 0 {
                            out.push(c as i128);
                        }
                    }
                }
                out
            }
            8 => {
                let mut f = BloomFilterBuilder::with_size(a[1] as u64, a[2] as u16).seed(a[0] as u64).build();
                with_item!(item(&a[3..]), v, f.insert(v));
                let b = f.serialize();
                let mut out = vec![];
                for (i, byte) in b[32..].iter().enumerate() {
                    for bit in 0..8 {
                        if byte & (1 << bit) != 0 {
                            out.push((i * 8 + bit) as i128);
                        }
                    }
                }
                out
            }
            9 => {
                // CPC: (row, col) of a single update = the only surprising value of a fresh sparse sketch
                let mut s = CpcSketch::with_seed(a[1] as u8, a[0] as u64);
                with_item!(item(&a[2..]), v, s.update(v));
                s.verif_state().table.iter().map(|rc| *rc as i128).collect()
            }
            _ => vec![PANIC],
        }
    }
}
