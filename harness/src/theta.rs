//! theta family: replays update / hook / trim / reset / compact / dump operations on the real
//! `ThetaSketch` (see /verif/coq/theories/Corr/Theta.v for the operation and observation formats).
use datasketches::common::{NumStdDev, ResizeFactor};
use datasketches::theta::{CompactThetaSketch, ThetaSketch};

use crate::{fbits, Family, Ob, ERR, PANIC};

pub struct Fam {
    sk: ThetaSketch,
    theta0: u64,
    seed: u64,
    /// the compact slot: the last successfully deserialized compact sketch
    slot: Option<CompactThetaSketch>,
}

/// dump of a compact sketch: [1; empty; ordered; theta; seed_hash; est bits; n; entries in stored order]
fn dump_compact(c: &CompactThetaSketch) -> Ob {
    let mut ob = vec![
        1,
        c.is_empty() as i128,
        c.is_ordered() as i128,
        c.theta64() as i128,
        c.seed_hash() as i128,
        fbits(c.estimate()),
        c.num_retained() as i128,
    ];
    ob.extend(c.iter().map(|e| e as i128));
    ob
}

/// every query of a compact sketch (a panic in any of them surfaces as the op's panic)
fn query_compact(c: &CompactThetaSketch) {
    let _ = c.theta();
    let _ = c.is_estimation_mode();
    for s in [NumStdDev::One, NumStdDev::Two, NumStdDev::Three] {
        let lb = c.lower_bound(s);
        let ub = c.upper_bound(s);
        let _ = (lb, ub);
    }
}

fn ser(c: &CompactThetaSketch, compressed: bool) -> Vec<u8> {
    if compressed { c.serialize_compressed() } else { c.serialize() }
}

fn build(cfg: &[i128]) -> ThetaSketch {
    let rf = match cfg[1] {
        0 => ResizeFactor::X1,
        1 => ResizeFactor::X2,
        2 => ResizeFactor::X4,
        _ => ResizeFactor::X8,
    };
    let p = f64::from_bits(cfg[2] as u64) as f32;
    ThetaSketch::builder()
        .lg_k(cfg[0] as u8)
        .resize_factor(rf)
        .sampling_probability(p)
        .seed(cfg[3] as u64)
        .build()
}

impl Fam {
    fn state(&self) -> Ob {
        vec![
            self.sk.num_retained() as i128,
            self.sk.theta64() as i128,
            self.sk.verif_lg_cur_size() as i128,
        ]
    }
}

impl Family for Fam {
    fn new(cfg: &[i128]) -> Self {
        let sk = build(cfg);
        let theta0 = sk.theta64();
        Fam { sk, theta0, seed: cfg[3] as u64, slot: None }
    }

    fn parse_len(&self, code: i64, a: &[i128]) -> Option<usize> {
        if code == 12 || code == 17 { Some(a.len()) } else { None }
    }

    fn step(&mut self, code: i64, a: &[i128]) -> Ob {
        match code {
            1 => {
                self.sk.update(a[0] as i64);
                self.state()
            }
            2 => {
                self.sk.verif_insert_hash(a[0] as u64);
                self.state()
            }
            3 => {
                let x: u128 = ((a[1] as u64 as u128) << 64) | (a[0] as u64 as u128);
                self.sk.update(x);
                self.state()
            }
            4 => {
                self.sk.trim();
                self.state()
            }
            5 => {
                self.sk.reset();
                self.state()
            }
            6 => {
                let c = self.sk.compact(a[0] != 0);
                let in_table_order = c.is_ordered() || c.iter().eq(self.sk.iter());
                let mut ob = vec![
                    c.is_empty() as i128,
                    c.is_ordered() as i128,
                    c.theta64() as i128,
                    fbits(c.estimate()),
                    c.seed_hash() as i128,
                    self.sk.is_empty() as i128,
                    fbits(self.sk.estimate()),
                    in_table_order as i128,
                    c.num_retained() as i128,
                ];
                let mut es: Vec<u64> = c.iter().collect();
                if !c.is_ordered() {
                    es.sort_unstable();
                }
                ob.extend(es.iter().map(|e| *e as i128));
                ob
            }
            7 => {
                let mut ob = vec![
                    self.sk.theta64() as i128,
                    self.sk.num_retained() as i128,
                    self.sk.verif_lg_cur_size() as i128,
                    self.sk.is_empty() as i128,
                    self.sk.is_estimation_mode() as i128,
                    fbits(self.sk.estimate()),
                    fbits(self.sk.theta()),
                ];
                let mut es: Vec<u64> = self.sk.iter().collect();
                es.sort_unstable();
                ob.extend(es.iter().map(|e| *e as i128));
                ob
            }
            8 => {
                let (lg_cur, _lg_nom, _theta, _n, raw, _empty) = self.sk.verif_table();
                let mut ob = vec![lg_cur as i128];
                ob.extend(raw.iter().map(|e| *e as i128));
                ob
            }
            9 => {
                let (_lg_cur, _lg_nom, theta, _n, raw, _empty) = self.sk.verif_table();
                if theta == self.theta0 {
                    let mut ob = vec![1];
                    ob.extend(raw.iter().map(|e| *e as i128));
                    ob
                } else {
                    vec![0]
                }
            }
            10 => {
                let ordered = a[0] != 0;
                if ordered || self.sk.theta64() == self.theta0 {
                    self.sk.compact(ordered).serialize().iter().map(|b| *b as i128).collect()
                } else {
                    vec![-1]
                }
            }
            11 => {
                let ordered = a[0] != 0;
                if ordered || self.sk.theta64() == self.theta0 {
                    self.sk.compact(ordered).serialize_compressed().iter().map(|b| *b as i128).collect()
                } else {
                    vec![-1]
                }
            }
            12 => {
                let bytes: Vec<u8> = a.iter().map(|b| *b as u8).collect();
                self.slot = None;
                match CompactThetaSketch::deserialize_with_seed(&bytes, self.seed) {
                    Ok(c) => {
                        query_compact(&c);
                        let ob = dump_compact(&c);
                        self.slot = Some(c);
                        ob
                    }
                    Err(_) => vec![ERR],
                }
            }
            13 => match &self.slot {
                None => vec![-996],
                Some(c) => ser(c, a[0] != 0).iter().map(|b| *b as i128).collect(),
            },
            14 => {
                let ordered = a[0] != 0;
                let compressed = a[1] != 0;
                self.slot = None;
                if ordered || self.sk.theta64() == self.theta0 {
                    let c = self.sk.compact(ordered);
                    let b = ser(&c, compressed);
                    match CompactThetaSketch::deserialize_with_seed(&b, self.seed) {
                        Ok(d) => {
                            query_compact(&d);
                            let dc = dump_compact(&c);
                            let mut ob = vec![dc.len() as i128];
                            ob.extend(dc);
                            ob.extend(dump_compact(&d));
                            ob.extend(ser(&d, compressed).iter().map(|x| *x as i128));
                            ob.push(-2);
                            ob.extend(b.iter().map(|x| *x as i128));
                            self.slot = Some(d);
                            ob
                        }
                        Err(_) => vec![ERR],
                    }
                } else {
                    vec![-1]
                }
            }
            17 => {
                let seed = a[0] as u64;
                let bytes: Vec<u8> = a[2..].iter().map(|b| *b as u8).collect();
                self.slot = None;
                match CompactThetaSketch::deserialize_with_seed(&bytes, seed) {
                    Ok(c) => {
                        query_compact(&c);
                        let ob = dump_compact(&c);
                        self.slot = Some(c);
                        ob
                    }
                    Err(_) => vec![ERR],
                }
            }
            18 => {
                let seed = a[0] as u64;
                let r = std::panic::catch_unwind(|| ThetaSketch::builder().seed(seed).build());
                vec![r.is_ok() as i128]
            }
            16 => {
                let _ = self.sk.theta();
                for s in [NumStdDev::One, NumStdDev::Two, NumStdDev::Three] {
                    let lb = self.sk.lower_bound(s);
                    let ub = self.sk.upper_bound(s);
                    let _ = (lb, ub);
                }
                query_compact(&self.sk.compact(false));
                vec![self.sk.is_estimation_mode() as i128]
            }
            15 => {
                let compressed = a[0] != 0;
                match self.slot.take() {
                    None => vec![-996],
                    Some(c) => {
                        let b = ser(&c, compressed);
                        match CompactThetaSketch::deserialize_with_seed(&b, self.seed) {
                            Ok(d) => {
                                query_compact(&d);
                                let dc = dump_compact(&c);
                                let mut ob = vec![dc.len() as i128];
                                ob.extend(dc);
                                ob.extend(dump_compact(&d));
                                ob.extend(ser(&d, compressed).iter().map(|x| *x as i128));
                                ob.push(-2);
                                ob.extend(b.iter().map(|x| *x as i128));
                                self.slot = Some(d);
                                ob
                            }
                            Err(_) => vec![ERR],
                        }
                    }
                }
            }
            _ => vec![PANIC],
        }
    }
}
