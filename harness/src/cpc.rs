//! cpc family: replays case files on `datasketches::cpc::CpcSketch` (see Corr/Cpc.v for the op table).
use std::collections::HashMap;

use datasketches::cpc::{CpcSketch, CpcUnion, VerifCpcState, VerifCpcUnionState};

use crate::{Family, Ob, PANIC};

pub struct Fam {
    lg_k: u8,
    seed: u64,
    sk: Option<CpcSketch>,
    /// C06: numbered sketch slots and union slots
    sks: HashMap<i128, CpcSketch>,
    uns: HashMap<i128, CpcUnion>,
}

/// float-free dump `[lg_k; C; off; fic; flavor; merge; |win|; win..; |tab|; sorted tab..]`
fn dumpnf(st: &VerifCpcState) -> Ob {
    let mut ob: Ob = vec![
        st.lg_k as i128,
        st.num_coupons as i128,
        st.window_offset as i128,
        st.first_interesting_column as i128,
        st.flavor as i128,
        st.merge_flag as i128,
    ];
    ob.push(st.window.len() as i128);
    ob.extend(st.window.iter().map(|b| *b as i128));
    ob.push(st.table.len() as i128);
    ob.extend(st.table.iter().map(|x| *x as i128));
    ob
}

fn summarynf(s: &CpcSketch) -> Ob {
    let (c, off, fic, flavor, _, _) = s.verif_summary();
    vec![c as i128, off as i128, fic as i128, flavor as i128]
}

fn canon(bits: u64) -> i128 {
    crate::fbits(f64::from_bits(bits))
}

fn summary(s: &CpcSketch) -> Ob {
    let (c, off, fic, flavor, kxp, hip) = s.verif_summary();
    vec![c as i128, off as i128, fic as i128, flavor as i128, canon(kxp), canon(hip)]
}

impl Fam {
    /// C14: deserialize untrusted bytes.  `[0]` = Err.  For a value returned as Ok:
    /// `[1, wrapper_agrees, updates_ok, union_ok] ++ float-free dump`, where
    ///  - wrapper_agrees: CpcWrapper::new on the same bytes is Ok and reports the sketch's lg_k, is_empty, estimate and
    ///    2-sigma bounds bit for bit;
    ///  - updates_ok: the fixed pair sequence `use_pairs(lg_k)` (hook), estimate, bounds, validate, serialize + deserialize
    ///    ran without panic (inner catch_unwind: the oracle decides with the model whether a panic was allowed, i.e. whether
    ///    the sequence leaves the sketch's domain: offset > 56 or surprising-value table capacity);
    ///  - union_ok: a union at the sketch's lg_k of the accepted sketch and its updated copy, to_sketch, validate.
    fn deser_and_use(&self, bytes: &[u8]) -> Ob {
        use std::panic::{catch_unwind, AssertUnwindSafe};
        match CpcSketch::deserialize_with_seed(bytes, self.seed) {
            Err(_) => vec![0, datasketches::cpc::CpcWrapper::new(bytes).is_err() as i128],
            Ok(t) => {
                let two = datasketches::common::NumStdDev::Two;
                let wrapper_agrees = match datasketches::cpc::CpcWrapper::new(bytes) {
                    Ok(w) => {
                        w.lg_k() == t.lg_k()
                            && w.is_empty() == t.is_empty()
                            && crate::fbits(w.estimate()) == crate::fbits(t.estimate())
                            && crate::fbits(w.lower_bound(two)) == crate::fbits(t.lower_bound(two))
                            && crate::fbits(w.upper_bound(two)) == crate::fbits(t.upper_bound(two))
                    }
                    Err(_) => false,
                };
                // matrix-building operations are charged to the parser's allocation budget: only for lg_k <= 16
                let small = t.lg_k() <= 16;
                let seed = self.seed;
                let k = 1u64 << t.lg_k();
                let mut u = t.clone();
                let updates_ok = catch_unwind(AssertUnwindSafe(|| {
                    for i in 0..40u64 {
                        let row = (i * 37 + 11) % k;
                        let col = if i % 4 == 3 { 63 - (i % 5) } else { (i * 5) % 9 };
                        let rc = ((row << 6) | col) as u32;
                        if rc != u32::MAX {
                            u.verif_row_col_update(rc);
                        }
                    }
                    let _ = u.estimate();
                    let _ = u.lower_bound(two);
                    if small {
                        assert!(u.validate());
                    }
                    let again = u.serialize();
                    let back = CpcSketch::deserialize_with_seed(&again, seed).expect("round trip of an updated accepted image");
                    assert_eq!(back.num_coupons(), u.num_coupons());
                }))
                .is_ok();
                let second = if updates_ok { u.clone() } else { t.clone() };
                let union_ok = catch_unwind(AssertUnwindSafe(|| {
                    let mut un = CpcUnion::with_seed(t.lg_k(), seed);
                    un.update(&t);
                    un.update(&second);
                    let r = un.to_sketch();
                    if small {
                        assert!(r.validate());
                    }
                }))
                .is_ok();
                let mut ob: Ob = vec![1, wrapper_agrees as i128, updates_ok as i128, union_ok as i128];
                ob.extend(dumpnf(&t.verif_state()));
                ob
            }
        }
    }
}

impl Family for Fam {
    fn new(cfg: &[i128]) -> Self {
        Fam { lg_k: cfg[0] as u8, seed: cfg[1] as u64, sk: None, sks: HashMap::new(), uns: HashMap::new() }
    }

    fn parse_len(&self, code: i64, a: &[i128]) -> Option<usize> {
        match code {
            40 => Some(a.len()),
            // the mutated image is at most 8 bytes longer than the sketch's own image; a truncated one is
            // bounded by its cut position
            41 => self.sk.as_ref().map(|s| {
                let n = s.serialize().len();
                if a[0] == 2 { (a[1] as usize) % (n + 1) } else { n }
            }),
            _ => None,
        }
    }

    fn step(&mut self, code: i64, a: &[i128]) -> Ob {
        match code {
            0 => {
                self.sk = None;
                self.sk = Some(CpcSketch::with_seed(self.lg_k, self.seed));
                vec![]
            }
            6 => vec![CpcSketch::verif_determine_flavor(a[0] as u8, a[1] as u32) as i128],
            7 => vec![CpcSketch::verif_determine_correct_offset(a[0] as u8, a[1] as u32) as i128],
            9 => vec![CpcSketch::verif_determine_pseudo_phase(a[0] as u8, a[1] as u32) as i128],
            32 => vec![CpcSketch::max_serialized_bytes(a[0] as u8) as i128],
            30 => {
                // a fresh sketch with `full` complete columns and `extra` rows of the next one, rows scrambled;
                // then serialize + deserialize
                let (lg_k, full, extra) = (a[0] as u8, a[1] as u32, a[2] as u32);
                let k = 1u32 << lg_k;
                let mut s = CpcSketch::with_seed(lg_k, self.seed);
                for col in 0..=full {
                    let rows = if col < full { k } else { extra };
                    for r in 0..rows {
                        let row = r.wrapping_mul(2654435761) & (k - 1);
                        s.verif_row_col_update((row << 6) | col);
                    }
                }
                let (c, off, _, flavor, _, _) = s.verif_summary();
                let valid = s.validate();
                let bytes = s.serialize();
                let t = CpcSketch::deserialize_with_seed(&bytes, self.seed).expect("round trip");
                let same = t.verif_bit_matrix() == s.verif_bit_matrix();
                // C17: the rest of the public API at this configuration extreme (any panic is caught by the caller)
                let e = t.estimate();
                let lo = t.lower_bound(datasketches::common::NumStdDev::Two);
                let hi = t.upper_bound(datasketches::common::NumStdDev::Two);
                let w = datasketches::cpc::CpcWrapper::new(&bytes).expect("wrapper");
                let we = w.estimate();
                let sane = e.is_finite() && lo <= e && e <= hi && we.is_finite() && w.lg_k() == lg_k;
                let mut union_ok = true;
                if lg_k <= 22 {
                    let mut u = CpcUnion::with_seed(lg_k, self.seed);
                    u.update(&t);
                    u.update(&s);
                    let r = u.to_sketch();
                    union_ok = r.num_coupons() == c && r.validate() && !r.serialize().is_empty();
                }
                vec![c as i128, flavor as i128, off as i128, valid as i128, (sane && union_ok && !bytes.is_empty()) as i128,
                     t.num_coupons() as i128, same as i128]
            }
            40 => {
                let bytes: Vec<u8> = a.iter().map(|b| *b as u8).collect();
                self.deser_and_use(&bytes)
            }
            41 => {
                let Some(s) = self.sk.as_ref() else { return vec![PANIC] };
                let mut b = s.serialize();
                let (kind, pos, val) = (a[0] as u32, a[1] as usize, a[2] as u64);
                let n = b.len();
                match kind {
                    0 => b[pos % n] ^= 1 << (val % 8),
                    1 => b[pos % n] = val as u8,
                    2 => b.truncate(pos % (n + 1)),
                    3 => {
                        let o = 4 * (pos % (n / 4).max(1));
                        if o + 4 <= n {
                            b[o..o + 4].copy_from_slice(&(val as u32).to_le_bytes());
                        }
                    }
                    4 => {
                        for i in 0..(val % 9) {
                            b.push((pos as u64).wrapping_mul(31).wrapping_add(i) as u8);
                        }
                    }
                    _ => {
                        b[pos % n] = val as u8;
                        b[(pos / 7) % n] = (val >> 8) as u8;
                    }
                }
                self.deser_and_use(&b)
            }
            10 => {
                self.sks.insert(a[0], CpcSketch::with_seed(a[1] as u8, self.seed));
                vec![]
            }
            11 | 12 | 13 | 14 | 15 | 16 | 17 | 24 => {
                let Some(s) = self.sks.get_mut(&a[0]) else { return vec![PANIC] };
                match code {
                    11 => {
                        s.verif_row_col_update(a[1] as u32);
                        summarynf(s)
                    }
                    12 => {
                        s.update(a[1] as i64);
                        summarynf(s)
                    }
                    13 => dumpnf(&s.verif_state()),
                    14 => vec![s.validate() as i128],
                    15 => s.verif_bit_matrix().iter().map(|w| *w as i128).collect(),
                    17 => s.serialize().iter().map(|b| *b as i128).collect(),
                    24 => {
                        // the slot's sketch (possibly a union result) is written and read back by the crate itself
                        let bytes = s.serialize();
                        match CpcSketch::deserialize_with_seed(&bytes, self.seed) {
                            Err(_) => vec![0],
                            Ok(t) => {
                                let same = t.num_coupons() == s.num_coupons()
                                    && (s.lg_k() > 16 || t.verif_bit_matrix() == s.verif_bit_matrix());
                                vec![same as i128]
                            }
                        }
                    }
                    _ => {
                        let bytes = s.serialize();
                        let t = CpcSketch::deserialize_with_seed(&bytes, self.seed).expect("round trip");
                        self.sks.insert(a[0], t);
                        vec![]
                    }
                }
            }
            20 => {
                self.uns.insert(a[0], CpcUnion::with_seed(a[1] as u8, self.seed));
                vec![]
            }
            21 => {
                let Some(s) = self.sks.get(&a[1]) else { return vec![PANIC] };
                let Some(u) = self.uns.get_mut(&a[0]) else { return vec![PANIC] };
                u.update(s);
                let kind = match u.verif_state() {
                    VerifCpcUnionState::Accumulator(_) => 0,
                    VerifCpcUnionState::BitMatrix(_) => 1,
                };
                vec![u.lg_k() as i128, u.num_coupons() as i128, kind]
            }
            22 => {
                let Some(u) = self.uns.get(&a[0]) else { return vec![PANIC] };
                let mut ob: Ob = vec![u.lg_k() as i128];
                match u.verif_state() {
                    VerifCpcUnionState::Accumulator(st) => {
                        ob.push(0);
                        ob.extend(dumpnf(&st));
                    }
                    VerifCpcUnionState::BitMatrix(m) => {
                        ob.push(1);
                        ob.extend(m.iter().map(|w| *w as i128));
                    }
                }
                ob
            }
            23 => {
                let Some(u) = self.uns.get(&a[0]) else { return vec![PANIC] };
                let s = u.to_sketch();
                let ob = dumpnf(&s.verif_state());
                self.sks.insert(a[1], s);
                ob
            }
            _ => {
                let Some(s) = self.sk.as_mut() else { return vec![PANIC] };
                match code {
                    1 => {
                        s.update(a[0] as i64);
                        summary(s)
                    }
                    2 => {
                        s.verif_row_col_update(a[0] as u32);
                        summary(s)
                    }
                    3 => {
                        let st = s.verif_state();
                        let mut ob: Ob = vec![
                            st.lg_k as i128,
                            st.num_coupons as i128,
                            st.window_offset as i128,
                            st.first_interesting_column as i128,
                            st.flavor as i128,
                            st.merge_flag as i128,
                            canon(st.kxp_bits),
                            canon(st.hip_bits),
                            st.has_table as i128,
                        ];
                        ob.push(st.window.len() as i128);
                        ob.extend(st.window.iter().map(|b| *b as i128));
                        ob.push(st.table.len() as i128);
                        ob.extend(st.table.iter().map(|x| *x as i128));
                        ob
                    }
                    4 => vec![s.validate() as i128],
                    5 => s.verif_bit_matrix().iter().map(|w| *w as i128).collect(),
                    18 => {
                        let bytes = s.serialize();
                        let t = CpcSketch::deserialize_with_seed(&bytes, self.seed).expect("round trip");
                        // CpcWrapper reads the same image without decompressing it: it must agree with the sketch
                        let w = datasketches::cpc::CpcWrapper::new(&bytes).expect("CpcWrapper::new on the sketch's own image");
                        use datasketches::common::NumStdDev;
                        let same = w.lg_k() == t.lg_k()
                            && w.is_empty() == t.is_empty()
                            && w.estimate().to_bits() == t.estimate().to_bits()
                            && [NumStdDev::One, NumStdDev::Two, NumStdDev::Three].iter().all(|k| {
                                w.lower_bound(*k).to_bits() == t.lower_bound(*k).to_bits()
                                    && w.upper_bound(*k).to_bits() == t.upper_bound(*k).to_bits()
                            });
                        assert!(same, "CpcWrapper disagrees with the deserialized sketch on the sketch's own image");
                        self.sk = Some(t);
                        vec![]
                    }
                    19 => s.serialize().iter().map(|b| *b as i128).collect(),
                    8 => {
                        if s.verif_state().merge_flag {
                            vec![-1]
                        } else {
                            vec![crate::fbits(s.estimate())]
                        }
                    }
                    _ => vec![PANIC],
                }
            }
        }
    }
}
