//! cpc family: to be written (see /verif/AGENT_GUIDE.md).
use crate::{Family, Ob, PANIC};

pub struct Fam;

impl Family for Fam {
    fn new(_cfg: &[i128]) -> Self {
        Fam
    }

    fn step(&mut self, _code: i64, _a: &[i128]) -> Ob {
        vec![PANIC]
    }
}
