//! cpc family: replays case files on `datasketches::cpc::CpcSketch` (see Corr/Cpc.v for the op table).
use datasketches::cpc::CpcSketch;

use crate::{Family, Ob, PANIC};

pub struct Fam {
    lg_k: u8,
    seed: u64,
    sk: Option<CpcSketch>,
}

fn canon(bits: u64) -> i128 {
    crate::fbits(f64::from_bits(bits))
}

fn summary(s: &CpcSketch) -> Ob {
    let (c, off, fic, flavor, kxp, hip) = s.verif_summary();
    vec![c as i128, off as i128, fic as i128, flavor as i128, canon(kxp), canon(hip)]
}

impl Family for Fam {
    fn new(cfg: &[i128]) -> Self {
        Fam { lg_k: cfg[0] as u8, seed: cfg[1] as u64, sk: None }
    }

    fn step(&mut self, code: i64, a: &[i128]) -> Ob {
        match code {
            0 => {
                self.sk = None;
                self.sk = Some(CpcSketch::with_seed(self.lg_k, self.seed));
                vec![]
            }
            6 => vec![CpcSketch::verif_determine_flavor(a[0] as u8, a[1] as u32) as i128],
            7 => vec![CpcSketch::verif_determine_correct_offset(a[0] as u8, a[1] as u32) as i128],
            _ => {
                let Some(s) = self.sk.as_mut() else { return vec![PANIC] };
                match code {
                    1 => {
                        s.update(a[0] as i64);
                        summary(s)
                    }
                    2 => {
                        s.verif_row_col_update(a[0] as u32);
                        summary(s)
                    }
                    3 => {
                        let st = s.verif_state();
                        let mut ob: Ob = vec![
                            st.lg_k as i128,
                            st.num_coupons as i128,
                            st.window_offset as i128,
                            st.first_interesting_column as i128,
                            st.flavor as i128,
                            st.merge_flag as i128,
                            canon(st.kxp_bits),
                            canon(st.hip_bits),
                            st.has_table as i128,
                        ];
                        ob.push(st.window.len() as i128);
                        ob.extend(st.window.iter().map(|b| *b as i128));
                        ob.push(st.table.len() as i128);
                        ob.extend(st.table.iter().map(|x| *x as i128));
                        ob
                    }
                    4 => vec![s.validate() as i128],
                    5 => s.verif_bit_matrix().iter().map(|w| *w as i128).collect(),
                    8 => {
                        if s.verif_state().merge_flag {
                            vec![-1]
                        } else {
                            vec![crate::fbits(s.estimate())]
                        }
                    }
                    _ => vec![PANIC],
                }
            }
        }
    }
}
