use datasketches::countmin::CountMinSketch;

use crate::{Family, Ob, ERR, PANIC};

/// an item that is not an `i64`: std's `Hash` impl of these types makes several `write` calls
/// or one long write (kind codes: tools/families/countmin.py)
pub enum Item {
    Str(String),
    Pair(u64, u64),
    U128(u128),
    Bytes(Vec<u8>),
    Quad(u64, u64, u64, u64),
}

/// `kind :: payload` at the end of the op arguments
pub fn parse_item(a: &[i128]) -> Item {
    match a[0] {
        0 => Item::Str(a[1..].iter().map(|b| *b as u8 as char).collect()),
        1 => Item::Pair(a[1] as u64, a[2] as u64),
        2 => Item::U128(((a[2] as u64 as u128) << 64) | (a[1] as u64 as u128)),
        3 => Item::Bytes(a[1..].iter().map(|b| *b as u8).collect()),
        _ => Item::Quad(a[1] as u64, a[2] as u64, a[3] as u64, a[4] as u64),
    }
}

macro_rules! with_item {
    ($it:expr, $x:ident => $e:expr) => {
        match $it {
            Item::Str(ref s) => {
                let $x = s.as_str();
                $e
            }
            Item::Pair(p, q) => {
                let $x = (p, q);
                $e
            }
            Item::U128(v) => {
                let $x = v;
                $e
            }
            Item::Bytes(ref b) => {
                let $x = &b[..];
                $e
            }
            Item::Quad(p, q, r, t) => {
                let $x = (p, q, r, t);
                $e
            }
        }
    };
}

macro_rules! cm_ops {
    ($t:ty, $slots:expr, $cfg:expr, $code:expr, $a:expr) => {{
        let slots: &mut Vec<Option<CountMinSketch<$t>>> = $slots;
        let a: &[i128] = $a;
        let slot = a[0] as usize;
        let nh = $cfg[1] as u8;
        let nb = $cfg[2] as u32;
        let seed = $cfg[3] as u64;
        if $code != 0 && $code != 9 && slots[slot].is_none() {
            return vec![-996];
        }
        if $code == 4 && slots[a[1] as usize].is_none() {
            return vec![-996];
        }
        match $code {
            0 => {
                slots[slot] = Some(CountMinSketch::<$t>::with_seed(nh, nb, seed));
                vec![]
            }
            1 => {
                slots[slot].as_mut().unwrap().update_with_weight(a[1] as i64, a[2] as $t);
                vec![]
            }
            2 => vec![slots[slot].as_ref().unwrap().estimate(a[1] as i64) as i128],
            3 => slots[slot].as_ref().unwrap().serialize().iter().map(|b| *b as i128).collect(),
            4 => {
                let other = slots[a[1] as usize].clone().unwrap();
                slots[slot].as_mut().unwrap().merge(&other);
                vec![]
            }
            7 => {
                let bytes = slots[slot].as_ref().unwrap().serialize();
                match CountMinSketch::<$t>::deserialize_with_seed(&bytes, seed) {
                    Ok(s) => {
                        slots[slot] = Some(s);
                        vec![1]
                    }
                    Err(_) => vec![ERR],
                }
            }
            8 => vec![slots[slot].as_ref().unwrap().total_weight() as i128],
            11 => {
                let s = slots[slot].as_ref().unwrap();
                vec![s.lower_bound(a[1] as i64) as i128, s.upper_bound(a[1] as i64) as i128]
            }
            12 => {
                let it = parse_item(&a[3 + nh as usize..]);
                let w = a[2] as $t;
                let s = slots[slot].as_mut().unwrap();
                with_item!(it, x => s.update_with_weight(x, w));
                vec![]
            }
            13 => {
                let it = parse_item(&a[2 + nh as usize..]);
                let s = slots[slot].as_ref().unwrap();
                vec![with_item!(it, x => s.estimate(x)) as i128]
            }
            14 => {
                let it = parse_item(&a[2 + nh as usize..]);
                let s = slots[slot].as_ref().unwrap();
                vec![with_item!(it, x => s.lower_bound(x)) as i128, with_item!(it, x => s.upper_bound(x)) as i128]
            }
            10 => {
                let bytes = slots[slot].as_ref().unwrap().serialize();
                match CountMinSketch::<$t>::deserialize_with_seed(&bytes, seed) {
                    Ok(s) => {
                        slots[a[1] as usize] = Some(s);
                        vec![1]
                    }
                    Err(_) => vec![ERR],
                }
            }
            9 => {
                let bytes: Vec<u8> = a[1..].iter().map(|b| *b as u8).collect();
                slots[slot] = None;
                let base = crate::alloc_mark();
                let r = CountMinSketch::<$t>::deserialize_with_seed(&bytes, seed);
                if crate::alloc_peak_since(base) > 64 * bytes.len() + (1 << 20) {
                    // out-of-proportion allocation: reported as ALLOC by the runner; drop the value
                    return vec![crate::ALLOC];
                }
                match r {
                    Ok(s) => {
                        // a sketch of a signed counter type that holds a negative counter is outside the
                        // model (non-negative counters): reported as 2 ("accepted, negative") and dropped
                        let img = s.serialize();
                        let negative = $cfg[0] >= 4 && img.len() > 24 && img[24..].chunks(8).any(|c| c.len() == 8 && c[7] & 0x80 != 0);
                        if negative {
                            vec![2]
                        } else {
                            slots[slot] = Some(s);
                            vec![1]
                        }
                    }
                    Err(_) => vec![ERR],
                }
            }
            _ => vec![PANIC],
        }
    }};
}

macro_rules! cm_unsigned_ops {
    ($t:ty, $slots:expr, $code:expr, $a:expr) => {{
        let slots: &mut Vec<Option<CountMinSketch<$t>>> = $slots;
        let a: &[i128] = $a;
        let slot = a[0] as usize;
        if slots[slot].is_none() {
            return vec![-996];
        }
        match $code {
            5 => {
                slots[slot].as_mut().unwrap().halve();
                vec![]
            }
            _ => {
                slots[slot].as_mut().unwrap().decay(f64::from_bits(a[1] as u64));
                vec![]
            }
        }
    }};
}

pub enum Cm {
    U8(Vec<i128>, Vec<Option<CountMinSketch<u8>>>),
    U16(Vec<i128>, Vec<Option<CountMinSketch<u16>>>),
    U32(Vec<i128>, Vec<Option<CountMinSketch<u32>>>),
    U64(Vec<i128>, Vec<Option<CountMinSketch<u64>>>),
    I8(Vec<i128>, Vec<Option<CountMinSketch<i8>>>),
    I16(Vec<i128>, Vec<Option<CountMinSketch<i16>>>),
    I32(Vec<i128>, Vec<Option<CountMinSketch<i32>>>),
    I64(Vec<i128>, Vec<Option<CountMinSketch<i64>>>),
}

impl Family for Cm {
    fn new(cfg: &[i128]) -> Self {
        let c = cfg.to_vec();
        match cfg[0] {
            0 => Cm::U8(c, vec![None; 8]),
            1 => Cm::U16(c, vec![None; 8]),
            2 => Cm::U32(c, vec![None; 8]),
            3 => Cm::U64(c, vec![None; 8]),
            4 => Cm::I8(c, vec![None; 8]),
            5 => Cm::I16(c, vec![None; 8]),
            6 => Cm::I32(c, vec![None; 8]),
            _ => Cm::I64(c, vec![None; 8]),
        }
    }

    fn parse_len(&self, code: i64, a: &[i128]) -> Option<usize> {
        if code == 9 { Some(a.len() - 1) } else { None }
    }

    fn step(&mut self, code: i64, a: &[i128]) -> Ob {
        match self {
            Cm::U8(c, s) => if code == 5 || code == 6 { cm_unsigned_ops!(u8, s, code, a) } else { cm_ops!(u8, s, c, code, a) },
            Cm::U16(c, s) => if code == 5 || code == 6 { cm_unsigned_ops!(u16, s, code, a) } else { cm_ops!(u16, s, c, code, a) },
            Cm::U32(c, s) => if code == 5 || code == 6 { cm_unsigned_ops!(u32, s, code, a) } else { cm_ops!(u32, s, c, code, a) },
            Cm::U64(c, s) => if code == 5 || code == 6 { cm_unsigned_ops!(u64, s, code, a) } else { cm_ops!(u64, s, c, code, a) },
            Cm::I8(c, s) => cm_ops!(i8, s, c, code, a),
            Cm::I16(c, s) => cm_ops!(i16, s, c, code, a),
            Cm::I32(c, s) => cm_ops!(i32, s, c, code, a),
            Cm::I64(c, s) => cm_ops!(i64, s, c, code, a),
        }
    }
}
