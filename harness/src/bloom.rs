//! bloom family: replays Bloom filter cases on the real crate (op codes: tools/families/bloom.py).
//! Items are `i64` (ops 1-3) or, for ops 20-22, values of other types whose `Hash` impl makes several
//! or long `write` calls (`&str`, `String`, tuples of `u64`, `&[u8]`, `u128`); the crate hashes them
//! itself (the h0/h1 arguments of the case file are consumed by the model only).
use std::hash::Hash;

use datasketches::bloom::{BloomFilter, BloomFilterBuilder};

use crate::{Family, Ob, ERR, PANIC};

/// observation of an operation addressed to a slot that holds no filter
const EMPTY: i128 = -996;

pub struct Fam {
    slots: Vec<Option<BloomFilter>>,
}

impl Fam {
    fn get(&self, i: i128) -> &BloomFilter {
        self.slots[i as usize].as_ref().unwrap()
    }

    fn get_mut(&mut self, i: i128) -> &mut BloomFilter {
        self.slots[i as usize].as_mut().unwrap()
    }
}

/// insert (20) / contains (21) / contains_and_insert (22) of an item of any hashable type
fn item_op<T: Hash>(f: &mut BloomFilter, code: i64, item: T) -> Ob {
    match code {
        20 => {
            f.insert(item);
            vec![]
        }
        21 => vec![f.contains(&item) as i128],
        _ => vec![f.contains_and_insert(&item) as i128],
    }
}

impl Family for Fam {
    fn new(cfg: &[i128]) -> Self {
        let n = cfg.first().copied().unwrap_or(8) as usize;
        Fam { slots: vec![None; n] }
    }

    fn step(&mut self, code: i64, a: &[i128]) -> Ob {
        let slot = a[0];
        // an operation addressed to a slot that holds no filter is a no-op observed as EMPTY
        let needs_slot = !matches!(code, 0 | 11 | 14 | 17);
        if needs_slot && self.slots[slot as usize].is_none() {
            return vec![EMPTY];
        }
        if matches!(code, 4 | 5 | 13) && self.slots[a[1] as usize].is_none() {
            return vec![EMPTY];
        }
        match code {
            0 => {
                let f = BloomFilterBuilder::with_size(a[1] as u64, a[2] as u16).seed(a[3] as u64).build();
                self.slots[slot as usize] = Some(f);
                vec![]
            }
            1 => {
                self.get_mut(slot).insert(a[1] as i64);
                vec![]
            }
            2 => vec![self.get(slot).contains(&(a[1] as i64)) as i128],
            3 => vec![self.get_mut(slot).contains_and_insert(&(a[1] as i64)) as i128],
            4 => {
                let other = self.get(a[1]).clone();
                self.get_mut(slot).union(&other);
                vec![]
            }
            5 => {
                let other = self.get(a[1]).clone();
                self.get_mut(slot).intersect(&other);
                vec![]
            }
            6 => {
                self.get_mut(slot).invert();
                vec![]
            }
            7 => {
                self.get_mut(slot).reset();
                vec![]
            }
            8 => vec![self.get(slot).bits_used() as i128],
            9 => self.get(slot).serialize().iter().map(|b| *b as i128).collect(),
            10 => {
                let bytes = self.get(slot).serialize();
                match BloomFilter::deserialize(&bytes) {
                    Ok(f) => {
                        self.slots[slot as usize] = Some(f);
                        vec![1]
                    }
                    Err(_) => vec![ERR],
                }
            }
            11 => {
                let bytes: Vec<u8> = a[1..].iter().map(|b| *b as u8).collect();
                match BloomFilter::deserialize(&bytes) {
                    Ok(f) => {
                        self.slots[slot as usize] = Some(f);
                        vec![1]
                    }
                    Err(_) => vec![ERR],
                }
            }
            12 => {
                let f = self.get(slot);
                vec![f.capacity() as i128, f.num_hashes() as i128, f.seed() as i128, f.is_empty() as i128]
            }
            13 => vec![self.get(slot).is_compatible(self.get(a[1])) as i128],
            14 => {
                let f = BloomFilterBuilder::with_accuracy(a[1] as u64, f64::from_bits(a[2] as u64))
                    .seed(a[3] as u64)
                    .build();
                let ob = vec![f.capacity() as i128, f.num_hashes() as i128];
                self.slots[slot as usize] = Some(f);
                ob
            }
            15 => {
                let f = self.get(slot);
                let n = a[2..].chunks(3).filter(|c| f.contains(&(c[0] as i64))).count();
                vec![n as i128]
            }
            16 => {
                // fork: a = src, dst; dst := deserialize(serialize(src)), src kept
                let bytes = self.get(slot).serialize();
                match BloomFilter::deserialize(&bytes) {
                    Ok(f) => {
                        self.slots[a[1] as usize] = Some(f);
                        vec![1]
                    }
                    Err(_) => vec![ERR],
                }
            }
            17 => {
                // parse untrusted bytes with allocation accounting; the slot is cleared first
                let bytes: Vec<u8> = a[1..].iter().map(|b| *b as u8).collect();
                self.slots[slot as usize] = None;
                let base = crate::alloc_mark();
                let r = BloomFilter::deserialize(&bytes);
                if crate::alloc_peak_since(base) > 64 * bytes.len() + (1 << 20) {
                    // out-of-proportion allocation: reported as ALLOC; the value is dropped
                    return vec![crate::ALLOC];
                }
                match r {
                    Ok(f) => {
                        self.slots[slot as usize] = Some(f);
                        vec![1]
                    }
                    Err(_) => vec![ERR],
                }
            }
            18 => {
                // probe: a clone inserts the item and is asked for it
                let mut c = self.get(slot).clone();
                c.insert(a[1] as i64);
                vec![c.contains(&(a[1] as i64)) as i128]
            }
            20..=22 => {
                // a = slot, kind, h0, h1, payload...
                let (kind, p) = (a[1], &a[4..]);
                let bytes = || -> Vec<u8> { p.iter().map(|b| *b as u8).collect() };
                let f = self.get_mut(slot);
                match kind {
                    1 => {
                        let s = String::from_utf8(bytes()).unwrap();
                        item_op(f, code, s.as_str())
                    }
                    6 => item_op(f, code, String::from_utf8(bytes()).unwrap()),
                    2 => item_op(f, code, (p[0] as u64, p[1] as u64)),
                    3 => item_op(f, code, (p[0] as u64, p[1] as u64, p[2] as u64, p[3] as u64)),
                    4 => {
                        let v = bytes();
                        item_op(f, code, v.as_slice())
                    }
                    5 => item_op(f, code, (p[0] as u64 as u128) | ((p[1] as u64 as u128) << 64)),
                    _ => vec![PANIC],
                }
            }
            19 => {
                // round-trip check: [copy == original, image length]
                let f = self.get(slot);
                let bytes = f.serialize();
                match BloomFilter::deserialize(&bytes) {
                    Ok(g) => vec![(g == *f) as i128, bytes.len() as i128],
                    Err(_) => vec![ERR],
                }
            }
            _ => vec![PANIC],
        }
    }
}
