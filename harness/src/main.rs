//! Correspondence harness: replays case files on the real crate and prints one
//! observation per operation (see /verif/DESIGN.md section 2.3).
//!
//! usage: verif-harness <family> <case-file> <obs-file>
use std::io::{BufRead, BufWriter, Write};
use std::panic::{catch_unwind, AssertUnwindSafe};
use std::sync::Mutex;

#[cfg(feature = "fam_countmin")]
mod countmin;
#[cfg(feature = "fam_hashes")]
mod hashes;
#[cfg(feature = "fam_bloom")]
mod bloom;
#[cfg(feature = "fam_freq")]
mod freq;
#[cfg(feature = "fam_theta")]
mod theta;
#[cfg(feature = "fam_hll")]
mod hll;
#[cfg(feature = "fam_cpc")]
mod cpc;
#[cfg(feature = "fam_tdigest")]
mod tdigest;
#[cfg(feature = "fam_bounds")]
mod bounds;

pub type Ob = Vec<i128>;
pub const PANIC: i128 = -999;
pub const ERR: i128 = -998;
/// observation of a parse op whose peak allocation was out of proportion to the input
pub const ALLOC: i128 = -997;

pub trait Family {
    fn new(cfg: &[i128]) -> Self;
    fn step(&mut self, code: i64, a: &[i128]) -> Ob;
    /// number of input bytes when `code` parses untrusted bytes (its allocation is then
    /// checked against `64 * len + 1 MiB`), None otherwise
    fn parse_len(&self, _code: i64, _a: &[i128]) -> Option<usize> {
        None
    }
}

// ---- counting allocator: bytes currently allocated and the peak since the last reset ----
use std::alloc::{GlobalAlloc, Layout, System};
use std::sync::atomic::{AtomicUsize, Ordering};
struct Counting;
static CUR: AtomicUsize = AtomicUsize::new(0);
static PEAK: AtomicUsize = AtomicUsize::new(0);
unsafe impl GlobalAlloc for Counting {
    unsafe fn alloc(&self, l: Layout) -> *mut u8 {
        let c = CUR.fetch_add(l.size(), Ordering::Relaxed) + l.size();
        PEAK.fetch_max(c, Ordering::Relaxed);
        unsafe { System.alloc(l) }
    }
    unsafe fn dealloc(&self, p: *mut u8, l: Layout) {
        CUR.fetch_sub(l.size(), Ordering::Relaxed);
        unsafe { System.dealloc(p, l) }
    }
    unsafe fn alloc_zeroed(&self, l: Layout) -> *mut u8 {
        let c = CUR.fetch_add(l.size(), Ordering::Relaxed) + l.size();
        PEAK.fetch_max(c, Ordering::Relaxed);
        unsafe { System.alloc_zeroed(l) }
    }
    unsafe fn realloc(&self, p: *mut u8, l: Layout, n: usize) -> *mut u8 {
        if n >= l.size() {
            let c = CUR.fetch_add(n - l.size(), Ordering::Relaxed) + (n - l.size());
            PEAK.fetch_max(c, Ordering::Relaxed);
        } else {
            CUR.fetch_sub(l.size() - n, Ordering::Relaxed);
        }
        unsafe { System.realloc(p, l, n) }
    }
}
#[global_allocator]
static GLOBAL: Counting = Counting;
/// start a measurement: returns the baseline
pub fn alloc_mark() -> usize {
    let c = CUR.load(Ordering::Relaxed);
    PEAK.store(c, Ordering::Relaxed);
    c
}
/// peak bytes allocated above the baseline since `alloc_mark`
pub fn alloc_peak_since(base: usize) -> usize {
    PEAK.load(Ordering::Relaxed).saturating_sub(base)
}

static LAST_PANIC: Mutex<String> = Mutex::new(String::new());

fn run_family<F: Family>(input: &str, output: &str) {
    let f = std::fs::File::open(input).expect("open case file");
    let mut out = BufWriter::new(std::fs::File::create(output).expect("create obs file"));
    let mut fam: Option<F> = None;
    let mut dead = false;
    for line in std::io::BufReader::new(f).lines() {
        let line = line.unwrap();
        let mut it = line.split_ascii_whitespace();
        let Some(head) = it.next() else { continue };
        if head == "case" {
            let id = it.next().unwrap().to_string();
            let cfg: Vec<i128> = it.map(|t| t.parse().unwrap()).collect();
            writeln!(out, "case {id}").unwrap();
            dead = false;
            match catch_unwind(AssertUnwindSafe(|| F::new(&cfg))) {
                Ok(x) => fam = Some(x),
                Err(_) => {
                    fam = None;
                    dead = true;
                    writeln!(out, "# panic-in-new {}", LAST_PANIC.lock().unwrap()).unwrap();
                }
            }
        } else if head == "end" {
            writeln!(out, "end").unwrap();
            fam = None;
        } else {
            if dead {
                continue;
            }
            let code: i64 = head.parse().unwrap();
            let a: Vec<i128> = it.map(|t| t.parse().unwrap()).collect();
            let fm = fam.as_mut().unwrap();
            let plen = fm.parse_len(code, &a);
            let base = alloc_mark();
            let res = catch_unwind(AssertUnwindSafe(|| fm.step(code, &a)));
            let peak = alloc_peak_since(base);
            let res = match (res, plen) {
                (Ok(_), Some(n)) if peak > 64 * n + (1 << 20) => {
                    writeln!(out, "# alloc peak={peak} input_len={n}").unwrap();
                    Ok(vec![ALLOC])
                }
                (r, _) => r,
            };
            match res {
                Ok(ob) => {
                    let mut s = String::with_capacity(2 + ob.len() * 4);
                    s.push('o');
                    for v in ob {
                        s.push(' ');
                        s.push_str(&v.to_string());
                    }
                    writeln!(out, "{s}").unwrap();
                }
                Err(_) => {
                    writeln!(out, "o {PANIC}").unwrap();
                    writeln!(out, "# panic {}", LAST_PANIC.lock().unwrap()).unwrap();
                    dead = true;
                }
            }
        }
    }
    out.flush().unwrap();
}

fn main() {
    std::panic::set_hook(Box::new(|info| {
        let loc = info
            .location()
            .map(|l| format!("{}:{}", l.file(), l.line()))
            .unwrap_or_default();
        let msg = if let Some(s) = info.payload().downcast_ref::<&str>() {
            s.to_string()
        } else if let Some(s) = info.payload().downcast_ref::<String>() {
            s.clone()
        } else {
            String::new()
        };
        let msg: String = msg.chars().take(120).map(|c| if c == '\n' { ' ' } else { c }).collect();
        *LAST_PANIC.lock().unwrap() = format!("{loc} {msg}");
    }));
    let args: Vec<String> = std::env::args().collect();
    if args.len() != 4 {
        eprintln!("usage: verif-harness <family> <case-file> <obs-file>");
        std::process::exit(2);
    }
    match args[1].as_str() {
        #[cfg(feature = "fam_countmin")]
        "countmin" => run_family::<countmin::Cm>(&args[2], &args[3]),
        #[cfg(feature = "fam_hashes")]
        "hashes" => run_family::<hashes::Hashes>(&args[2], &args[3]),
        #[cfg(feature = "fam_bloom")]
        "bloom" => run_family::<bloom::Fam>(&args[2], &args[3]),
        #[cfg(feature = "fam_freq")]
        "freq" => run_family::<freq::Fam>(&args[2], &args[3]),
        #[cfg(feature = "fam_theta")]
        "theta" => run_family::<theta::Fam>(&args[2], &args[3]),
        #[cfg(feature = "fam_hll")]
        "hll" => run_family::<hll::Fam>(&args[2], &args[3]),
        #[cfg(feature = "fam_cpc")]
        "cpc" => run_family::<cpc::Fam>(&args[2], &args[3]),
        #[cfg(feature = "fam_tdigest")]
        "tdigest" => run_family::<tdigest::Fam>(&args[2], &args[3]),
        #[cfg(feature = "fam_bounds")]
        "bounds" => run_family::<bounds::Fam>(&args[2], &args[3]),
        other => {
            eprintln!("unknown family {other}");
            std::process::exit(2);
        }
    }
}

/// canonical f64 bits (all NaNs collapse to one pattern)
pub fn fbits(x: f64) -> i128 {
    if x.is_nan() { 0x7ff8000000000000u64 as i128 } else { x.to_bits() as i128 }
}
