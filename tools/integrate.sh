#!/bin/bash
# runs the quick check of every claimed property (4 at a time) on the current working tree; prints a summary;
# exits 0 only if all exit 0.  Used by the orchestrator before committing agents' work.
cd /verif
PROPS=$(python3 -c "import json; print(' '.join(c['property_id'] for c in json.load(open('MANIFEST.json'))['checks']))")
mkdir -p /tmp/integrate
rm -f /tmp/integrate/*.rc
run() { p=$1; /usr/bin/time -f "%e" -o /tmp/integrate/$p.time timeout 2400 python3 tools/check.py $p --tier quick > /tmp/integrate/$p.out 2>&1; echo $? > /tmp/integrate/$p.rc; }
export -f run
echo $PROPS | tr ' ' '\n' | xargs -P 4 -I{} bash -c 'run {}'
bad=0
for p in $PROPS; do rc=$(cat /tmp/integrate/$p.rc); echo "$p rc=$rc time=$(cat /tmp/integrate/$p.time 2>/dev/null | tail -1)s $(grep -c '^KNOWN-FINDING' /tmp/integrate/$p.out) known $(tail -1 /tmp/integrate/$p.out | cut -c1-100)"; [ "$rc" != "0" ] && bad=1; done
exit $bad
