"""Case generator for the HLL family (C02; later the HLL legs of C03/C11/C12/C17/C18)."""
from common import Case
import pyref

FAMILY = "hll"
CORR = "Hll"
FAMNUM = 6
ORACLES = {"prop_ok": 0, "union_ok": 1, "twin_ok": 2, "layout_ok": 3, "foreign_ok": 4, "no_panic": 5, "accepted_ok": 6}
GEN_MODULES = [("GenHll",
                ["hll/mod.rs", "hll/serialization.rs", "hll/container.rs", "hll/list.rs", "hll/hash_set.rs",
                 "hll/aux_map.rs", "hll/array4.rs", "hll/array6.rs", "hll/coupon_mapping.rs", "hll/estimator.rs", "hll/sketch.rs"],
                ["KEY_BITS_26", "KEY_MASK_26", "RESIZE_NUMERATOR", "RESIZE_DENOMINATOR", "COUPON_RSE_FACTOR",
                 "COUPON_EMPTY", "ENTRY_EMPTY", "LG_INIT_LIST_SIZE", "LG_INIT_SET_SIZE", "AUX_TOKEN", "VAL_MASK_6",
                 "X_ARR", "Y_ARR", "HIP_LB", "HIP_UB", "LIT_lg_aux_arr_ints", "LIT_update_kxq", "LIT_coupon",
                 "LIT_update_with_coupon", "LIT_num_bytes_for_k", "FLIT_get_rel_err",
                 "SERIAL_VERSION", "LIST_PREINTS", "HASH_SET_PREINTS", "HLL_PREINTS", "EMPTY_FLAG_MASK",
                 "COMPACT_FLAG_MASK", "OUT_OF_ORDER_FLAG_MASK", "CUR_MODE_LIST", "CUR_MODE_SET", "CUR_MODE_HLL",
                 "TGT_HLL4", "TGT_HLL6", "TGT_HLL8"],
                {"hll/aux_map.rs": ["lg_aux_arr_ints"], "hll/estimator.rs": ["update_kxq"], "hll/mod.rs": ["coupon"],
                 "hll/sketch.rs": ["update_with_coupon"], "hll/array6.rs": ["num_bytes_for_k"]},
                {"hll/coupon_mapping.rs": ["X_ARR", "Y_ARR"], "hll/estimator.rs": ["HIP_LB", "HIP_UB"]},
                {"hll/estimator.rs": ["get_rel_err"]})]
OPNAMES = {1: "update", 2: "coupon", 3: "dump", 4: "estimate", 5: "bounds", 6: "raw", 7: "serialize",
           8: "roundtrip", 9: "deserialize",
           10: "u.new", 11: "u.coupon", 12: "u.update", 13: "u.mark_ooo", 14: "union.update", 15: "union.update_value",
           16: "union.reset", 17: "u.dump", 18: "union.to_sketch", 19: "union.to_sketch.estimate", 20: "union.info",
           21: "union.estimate", 22: "union.to_sketch.roundtrip",
           30: "merge_into_union", 31: "reserialize", 32: "estimate+bounds"}


M26 = (1 << 26) - 1


def coupon_of_item(x):
    """the crate's coupon(): MurmurHash3 x64 128 (seed 9001) of the 8 LE bytes of the i64"""
    lo, hi = pyref.murmur3_x64_128(pyref.le8(x), 9001)
    lz = 64 - hi.bit_length()
    return ((min(lz, 62) + 1) << 26) | (lo & M26)


def cp(slot, value):
    return (value << 26) | (slot & M26)


def rand_value(rng, hi=63):
    """geometric like a real hash, with a fat tail up to 63"""
    r = rng.random()
    if r < 0.75:
        v = 1
        while v < hi and rng.random() < 0.5:
            v += 1
        return v
    if r < 0.9:
        return rng.randint(1, min(hi, 20))
    return rng.randint(1, hi)


class Builder:
    def __init__(self, lgk):
        self.lgk = lgk
        self.ops = []
        self.n = [0, 0]

    def upd(self, g, item):
        self.ops.append((1, [g, item, coupon_of_item(item)])); self.n[g] += 1

    def cpn(self, g, c):
        self.ops.append((2, [g, c])); self.n[g] += 1

    def dump(self, g, types=(0, 1, 2)):
        for t in types:
            self.ops.append((3, [g, t]))

    def query(self, g):
        for t in (0, 1, 2):
            self.ops.append((4, [g, t]))
        for t in (0, 1, 2):
            self.ops.append((5, [g, t]))

    def raw(self, g, types=(0, 1, 2)):
        for t in types:
            self.ops.append((6, [g, t]))

    def check(self, g, rng, full=True):
        """dump (all types when affordable) + estimates/bounds of all three types"""
        if full or self.lgk <= 10:
            self.dump(g)
        else:
            self.dump(g, (rng.randrange(3),))
        self.query(g)
        if rng.random() < 0.5:
            self.raw(g, (0,) if self.lgk > 10 else (0, 1, 2))


def thresholds(lgk):
    """numbers of distinct coupons at which the mode or the set size changes"""
    th = [7, 8, 9]
    if lgk >= 8:
        s = 5
        while s <= lgk - 3:
            th += [3 * (1 << s) // 4, 3 * (1 << s) // 4 + 1, 3 * (1 << s) // 4 + 2]
            s += 1
    return th


def stream_hashed(rng, b, g, lgk, tier):
    k = 1 << lgk
    th = thresholds(lgk)
    target = rng.choice(th + [rng.randint(1, 12), min(4 * k, 6000), rng.randint(1, max(2, min(3 * k, 5000)))])
    if tier == "thorough" and rng.random() < 0.3:
        target = rng.randint(1, min(8 * k, 60000))
    base = rng.choice([0, 1, -5, rng.getrandbits(62), -rng.getrandbits(62)])
    marks = set(x for x in th if x <= target)
    for i in range(target):
        b.upd(g, base + i)
        if rng.random() < 0.05:
            b.upd(g, base + rng.randint(0, i))      # duplicate
        if (i + 1) in marks or (i + 2) in marks:
            b.check(g, rng, full=(lgk <= 10))
    b.check(g, rng)


def stream_random_coupons(rng, b, g, lgk, tier):
    k = 1 << lgk
    n = rng.choice([rng.randint(1, 30), rng.randint(1, 3 * k), min(5 * k, 5000)])
    wide = rng.random() < 0.5          # slots using all 26 bits (the array masks them) or only lg_k bits
    hi = rng.choice([63, 63, 20, 14, 16])
    every = max(1, n // rng.choice([1, 2, 4]))
    for i in range(n):
        slot = rng.getrandbits(26) if wide else rng.randrange(k)
        b.cpn(g, cp(slot, rand_value(rng, hi)))
        if rng.random() < 0.1 and b.n[g] > 1:
            b.ops.append(b.ops[rng.randrange(len(b.ops))]) if b.ops[-1][0] == 2 and False else None
        if (i + 1) % every == 0 and lgk <= 11:
            b.check(g, rng, full=(lgk <= 8))
    b.check(g, rng)


def stream_set_collisions(rng, b, g, lgk, tier):
    """coupons whose probe start collides at every set size: equal low 18 bits of the slot,
    different high bits (stride) or equal slot with different values (identical probe path)"""
    low = rng.getrandbits(18)
    n = rng.choice([10, 30, 100, 3 * (1 << max(2, lgk - 3)) // 4 + 3])
    seen = []
    for i in range(n):
        r = rng.random()
        if r < 0.45:
            c = cp((rng.getrandbits(8) << 18) | low, rand_value(rng))
        elif r < 0.8:
            c = cp(low | (rng.getrandbits(3) << 23), rng.randint(1, 63))
        elif r < 0.9 and seen:
            c = rng.choice(seen)
        else:
            c = cp(rng.getrandbits(26), rand_value(rng))
        seen.append(c)
        b.cpn(g, c)
        if rng.random() < 0.08:
            b.check(g, rng, full=(lgk <= 10))
            b.raw(g, (0,))
    b.raw(g, (rng.randrange(3),))
    b.check(g, rng)


def stream_cur_min(rng, b, g, lgk, tier):
    """raise every register round after round so that Hll4's cur_min shifts 1, 2, 3, ... while
    exceptions (value - cur_min >= 15) are live in the aux map; some rounds jump several levels"""
    k = 1 << lgk
    levels = rng.choice([2, 3, 5, 17, 40]) if lgk <= 7 else rng.choice([1, 2, 3])
    exc = {}
    for s in rng.sample(range(k), min(k, rng.choice([1, 2, 3, k // 4 + 1, k // 2]))):
        exc[s] = rng.randint(15, 63)
    order = list(range(k))
    level = 0
    while level < levels:
        level += rng.choice([1, 1, 1, 2, 3])
        level = min(level, 63)
        rng.shuffle(order)
        for j, s in enumerate(order):
            v = level
            if s in exc and rng.random() < 0.7:
                v = min(63, max(level, exc[s] + rng.randint(-2, 3)))
                exc[s] = v
            b.cpn(g, cp(s | (rng.getrandbits(26 - lgk) << lgk), v))
            if j >= k - 2 and lgk <= 10:
                b.dump(g, (0,))
        b.check(g, rng, full=(lgk <= 10))
        if rng.random() < 0.5:
            b.raw(g, (0,))
    # a last few very large values
    for _ in range(rng.randint(0, 6)):
        b.cpn(g, cp(rng.randrange(k), rng.randint(40, 63)))
    b.check(g, rng)


def stream_aux_collisions(rng, b, g, lgk, tier):
    """many exceptions whose slots collide in the aux table (start = slot & (size-1), stride =
    (slot >> lg_size) | 1), enough of them to make the aux map grow"""
    k = 1 << lgk
    # get into array mode quickly with low values
    for s in rng.sample(range(k), min(k, max(9, (3 * k) // 32 + 2))):
        b.cpn(g, cp(s, rng.randint(1, 3)))
    low = rng.randrange(4)
    slots = [s for s in range(k) if (s & 3) == low]
    rng.shuffle(slots)
    for s in slots[:rng.choice([3, 4, 8, 20, 60])]:
        b.cpn(g, cp(s, rng.randint(15, 63)))
        if rng.random() < 0.3:
            b.cpn(g, cp(s, rng.randint(15, 63)))       # replace in the aux map (or no-op)
        if rng.random() < 0.15:
            b.dump(g, (0,)); b.raw(g, (0,))
    b.check(g, rng, full=(lgk <= 10))
    b.raw(g, (0,))


def stream_aux_boundary(rng, b, g, lgk, tier):
    """the Hll4 exception boundary: a register exactly at cur_min + 15 (smallest exception), one at
    cur_min + 16 and one at cur_min + 14; then cur_min shifts (the +15 one returns to its nibble, the
    +16 one stays an exception with the smallest possible value); then larger values in those slots"""
    k = 1 << lgk
    slots = list(range(k))
    rng.shuffle(slots)
    z, a, bb, c = slots[0], slots[1], slots[2], slots[3]
    hi = lambda: rng.getrandbits(26 - lgk) << lgk
    base = rng.choice([0, 0, 1, 5])
    for rounds in range(rng.choice([1, 2, 3])):
        level = base + 1
        for s in slots[1:]:
            b.cpn(g, cp(s | hi(), level))
        if base > 0 or rounds > 0:
            pass
        b.cpn(g, cp(a | hi(), base + 15))
        b.cpn(g, cp(bb | hi(), base + 16))
        b.cpn(g, cp(c | hi(), base + 14))
        b.check(g, rng, full=(lgk <= 10))
        b.raw(g, (0,))
        b.cpn(g, cp(z | hi(), level))                 # the last register at cur_min: cur_min shifts
        b.check(g, rng, full=(lgk <= 10))
        b.cpn(g, cp(bb | hi(), base + 16))            # duplicate of a live exception: no-op
        b.cpn(g, cp(bb | hi(), min(63, base + 21)))   # larger value in the exception slot
        b.cpn(g, cp(a | hi(), min(63, base + 17)))    # the returned nibble becomes an exception again
        b.cpn(g, cp(c | hi(), min(63, base + 16 + 1)))
        b.check(g, rng, full=(lgk <= 10))
        base = level
        z = slots[0]
        # next round: every register is >= level; lower one slot's relative position by raising all others
        if base + 22 > 63:
            break
    b.check(g, rng)


STREAMS = [stream_hashed, stream_random_coupons, stream_set_collisions, stream_cur_min, stream_aux_collisions,
           stream_aux_boundary]


def gen_case(rng, cid, tier, focus=None):
    if tier == "quick":
        lgk = rng.choice([4, 4, 5, 6, 7, 8, 8, 9, 10, 11, 12, 13, 14])
    else:
        lgk = rng.choice(list(range(4, 17)) + [4, 5, 7, 8, 9, 17, 18, 19, 20, 21])
    kind = rng.choice(STREAMS + [stream_hashed, stream_cur_min])
    if lgk > 16:
        kind = rng.choice([stream_hashed, stream_set_collisions, stream_random_coupons])
    if kind in (stream_cur_min, stream_aux_boundary) and lgk > (9 if tier == "quick" else 12):
        lgk = rng.choice([4, 5, 6, 7, 8, 9])
    b = Builder(lgk)
    kind(rng, b, 0, lgk, tier)
    # group 1: a permutation (with extra duplicates) of group 0's stream; same set => same state
    feed = [(c, a) for (c, a) in b.ops if c in (1, 2)]
    if len(feed) <= 4000 or tier == "thorough":
        rng.shuffle(feed)
        for c, a in feed:
            b.ops.append((c, [1] + a[1:])); b.n[1] += 1
            if rng.random() < 0.03:
                b.ops.append((c, [1] + a[1:])); b.n[1] += 1
        b.dump(1, (0, 1, 2) if lgk <= 11 else (rng.randrange(3),))
        b.query(1)
    return Case(cid, [lgk], b.ops, tag="hll-%s-lgk%d" % (kind.__name__[7:], lgk))


# ------------------------------------------------------------------ union cases (C03)
def set_threshold(lgk):
    """number of distinct coupons at which a sketch of lg_k turns into an array"""
    return 8 if lgk < 8 else 3 * (1 << (lgk - 3)) // 4 + 1


def gen_union_case(rng, cid, tier):
    hi = 14 if tier == "quick" else 16
    lg_max = rng.choice([4, 5, 7, 8, 9, 10, 10, 11, 12] + ([13, 14] if rng.random() < 0.3 else []) + ([hi] if tier != "quick" else []))
    ops = []
    n_in = rng.choice([1, 2, 2, 3, 3, 4, 5, 6])
    base = rng.getrandbits(40)
    pool = rng.choice([200, 2000, 20000])          # items are drawn from a shared pool so that inputs overlap
    kinds = []
    for i in range(n_in):
        r = rng.random()
        if r < 0.55:
            lgk = max(4, min(hi, lg_max + rng.choice([-3, -2, -1, 0, 0, 0, 1, 2, 3])))
        else:
            lgk = rng.randint(4, 12 if tier == "quick" else hi)
        t = rng.randrange(3)
        kind = rng.choice(["empty", "list", "list", "set", "set", "array", "array", "array", "array_ooo", "array_ooo",
                           "uniform", "uniform_ooo"])
        if kind == "set" and lgk < 8:
            kind = "array"
        if kind.startswith("uniform"):
            # every register holds the same non-zero value v: Hll4 has cur_min = v and num_at_cur_min = k,
            # Hll6/Hll8 have no zero register (is_empty() must still be false)
            lgk = rng.choice([4, 4, 5, 6, 7]) if rng.random() < 0.8 else min(lgk, 9)
            if rng.random() < 0.6:
                t = 0
            ops.append((10, [i, lgk, t]))
            v = rng.choice([1, 1, 2, 3])
            order = list(range(1 << lgk))
            rng.shuffle(order)
            for s_ in order:
                ops.append((11, [i, cp(s_ | (rng.getrandbits(26 - lgk) << lgk), v)]))
            if kind == "uniform_ooo":
                ops.append((13, [i]))
            ops.append((17, [i]))
            kinds.append((kind, lgk, t))
            continue
        ops.append((10, [i, lgk, t]))
        thr = set_threshold(lgk)
        if kind == "empty":
            n = 0
        elif kind == "list":
            n = rng.randint(1, 7)
        elif kind == "set":
            n = rng.randint(8, thr - 1)
        else:
            n = thr + rng.choice([0, 1, 5, rng.randint(0, 3 * (1 << lgk))]) if lgk <= 11 else thr + rng.randint(0, 600)
        hashed = rng.random() < 0.6
        fed = 0
        guard = 0
        seen = set()
        while len(seen) < n and guard < 20 * n + 100:
            guard += 1
            if hashed:
                item = base + rng.randrange(max(pool, 4 * n))
                c = coupon_of_item(item)
                ops.append((12, [i, item, c]))
            else:
                c = cp(rng.getrandbits(26) if rng.random() < 0.7 else rng.randrange(1 << lgk), rand_value(rng))
                ops.append((11, [i, c]))
            seen.add(c)
        if kind == "array_ooo":
            ops.append((13, [i]))
        if lgk <= 10 or rng.random() < 0.3:
            ops.append((17, [i]))
        kinds.append((kind, lgk, t))

    def look(full):
        big = (lg_max > 11)
        types = (0, 1, 2) if (full and not big) else ((2, rng.randrange(2)) if not big else (rng.randrange(3),))
        for t in types:
            ops.append((18, [t]))
        for t in (0, 1, 2):
            ops.append((19, [t]))
        ops.append((21, []))
        ops.append((20, []))
        # the union's result through serialize / deserialize / serialize (C11): all types when small
        for t in ((0, 1, 2) if (full and not big) else (rng.randrange(3),)):
            ops.append((22, [t]))

    def feed(order, dups):
        for i in order:
            ops.append((14, [i]))
            if rng.random() < 0.5:
                look(full=False)
            if dups and rng.random() < 0.3:
                ops.append((14, [rng.choice(order)]))
            if rng.random() < 0.15:
                item = base + rng.randrange(pool)
                ops.append((15, [item, coupon_of_item(item)]))
        look(full=True)

    look(full=False)                                   # the empty union
    order = list(range(n_in))
    rng.shuffle(order)
    feed(order, dups=False)
    rounds = rng.choice([1, 2, 2, 3])
    for _ in range(rounds - 1):
        ops.append((16, []))
        if rng.random() < 0.3:
            look(full=False)
        rng.shuffle(order)
        feed(order, dups=True)
    tag = "hllunion-lgmax%d-%s" % (lg_max, "+".join("%s%d" % ({"array_ooo": "o", "uniform": "u", "uniform_ooo": "v"}.get(k, k[:1]), l) for k, l, t in kinds))
    return Case(cid, [lg_max, 1], ops, tag=tag)


# ------------------------------------------------------------------ codec cases (C11/C12/C13/C14/C18 parts)
import struct


def feed_ops(rng, lgk, tier, kinds=None):
    """the feed operations (codes 1, 2) of one of the C02 stream kinds"""
    b = Builder(lgk)
    kind = rng.choice(kinds or [stream_hashed, stream_hashed, stream_random_coupons, stream_set_collisions, stream_cur_min,
                                stream_aux_collisions, stream_aux_boundary])
    if kind in (stream_cur_min, stream_aux_boundary) and lgk > 9:
        kind = stream_hashed
    kind(rng, b, 0, lgk, tier)
    return [(c, a) for (c, a) in b.ops if c in (1, 2)], kind.__name__[7:]


def gen_codec_case(rng, cid, tier, focus):
    """two groups fed the same stream in the same order; group 0 is forked through
    serialize/deserialize at random points (focus codec); images observed (layout)"""
    lgk = rng.choice([4, 5, 6, 7, 8, 8, 9, 10, 10, 11] + ([12] if rng.random() < 0.4 else []) +
                     ([13, 14, 15, 16] if tier != "quick" else []))
    feed, kname = feed_ops(rng, lgk, tier)
    if len(feed) > 6000:
        feed = feed[:6000]
    ops = []
    marks = set(thresholds(lgk))
    n = 0
    big = lgk > 10

    def look():
        types = (0, 1, 2) if not big else (rng.randrange(3),)
        if focus == "codec":
            for t in rng.sample((0, 1, 2), rng.choice([1, 2, 3])):
                ops.append((8, [0, t]))
        for g in (0, 1):
            for t in types:
                ops.append((3, [g, t]))
            for t in (0, 1, 2):
                ops.append((4, [g, t]))
            if rng.random() < 0.5:
                for t in (0, 1, 2):
                    ops.append((5, [g, t]))
            for t in types:
                ops.append((7, [g, t]))
            for t in types:
                ops.append((31, [g, t]))
            if not big or rng.random() < 0.3:
                for t in types:
                    ops.append((30, [g, t]))
            ops.append((32, [g, rng.randrange(3)]))

    look()
    seen = set()
    for (c, a) in feed:
        ops.append((c, [0] + a[1:]))
        ops.append((c, [1] + a[1:]))
        seen.add(a[-1])
        n = len(seen)
        r = rng.random()
        if (n in marks or n + 1 in marks) and r < 0.5 or r < (0.01 if big else 0.04):
            look()
    look()
    return Case(cid, [lgk], ops, tag="hll%s-%s-lgk%d" % (focus, kname, lgk))


def gen_size_case(rng, cid, tier):
    """image sizes after every power-of-two prefix of a growing stream (C18)"""
    # (thorough used lg_k up to 18 with 2^17 updates: the list-based register model then needs more than the 25-minute
    #  shard limit - observed 2026-10-02 - so thorough stops at lg_k 14 and 2^15 updates; big lg_k images are C11/C12's legs)
    lgk = rng.choice([4, 6, 8, 10, 11, 12] + ([13, 14] if tier != "quick" else []))
    top = (1 << 13) if tier == "quick" else (1 << 15)
    ops = []
    base = rng.getrandbits(50)
    mode = rng.choice(["distinct", "repeat", "coupon"])
    nxt = 1
    for i in range(1, top + 1):
        if mode == "coupon":
            c = cp(rng.getrandbits(26), rand_value(rng))
            ops.append((2, [0, c]))
        else:
            item = base + (i if mode == "distinct" else rng.randrange(1 + i // 3))
            ops.append((1, [0, item, coupon_of_item(item)]))
        if i == nxt:
            nxt *= 2
            for t in (0, 1, 2):
                ops.append((7, [0, t]))
    return Case(cid, [lgk], ops, tag="hllsize-%s-lgk%d" % (mode, lgk))


# ---- the spec encoder (written from DESIGN.md Appendix A; the Coq twin is Spec/HllLayout.v) ----
def f64bits(x):
    return struct.unpack("<Q", struct.pack("<d", x))[0]


def le(n, x):
    return [(x >> (8 * i)) & 255 for i in range(n)]


def u32l(vals):
    out = []
    for v in vals:
        out += le(4, v)
    return out


def java_set_table(lg_arr, coupons):
    """the coupon hash table of the Java/C++ implementations (start = c & mask, odd stride from the slot bits)"""
    size = 1 << lg_arr
    tab = [0] * size
    for c in coupons:
        p = c & (size - 1)
        stride = ((c & M26) >> lg_arr) | 1
        while tab[p] != 0 and tab[p] != c:
            p = (p + stride) & (size - 1)
        tab[p] = c
    return tab


def java_aux_table(lg_arr, lgk, pairs):
    size = 1 << lg_arr
    tab = [0] * size
    for (slot, v) in pairs:
        p = slot & (size - 1)
        stride = (slot >> lg_arr) | 1
        while tab[p] != 0:
            p = (p + stride) & (size - 1)
        tab[p] = (v << 26) | slot
    return tab


LG_AUX = [0, 2, 2, 2, 2, 2, 2, 3, 3, 3, 4, 4, 5, 5, 6, 7, 8, 9, 10, 11, 12, 13, 14, 15, 16, 17, 18]


def enc_list(compact, lgk, typ, cs):
    n = len(cs)
    flags = (4 if n == 0 else 0) | (8 if compact else 0)
    pre = [2, 1, 7, lgk, 3, flags, n, 0 | (typ << 2)]
    return pre + (u32l(cs) if compact else u32l(cs + [0] * (8 - n)))


def enc_set(compact, lgk, typ, lg_arr, cs, rng):
    pre = [3, 1, 7, lgk, lg_arr, 8 if compact else 0, 0, 1 | (typ << 2)]
    if compact:
        body = list(cs)
        rng.shuffle(body)
    else:
        body = java_set_table(lg_arr, cs)
    return pre + le(4, len(cs)) + u32l(body)


def enc_hll(compact, ooo, lgk, typ, regs, hip, q0, q1, lg_arr_byte=None, aux_as_table=False):
    k = 1 << lgk
    cur_min = 0
    aux = []
    if typ == 0:
        cur_min = min(regs)
        aux = [(s, v) for s, v in enumerate(regs) if v - cur_min >= 15]
        nib = [min(v - cur_min, 15) for v in regs]
        block = [nib[2 * i] | (nib[2 * i + 1] << 4) for i in range(k // 2)]
        num = sum(1 for v in regs if v == cur_min)
    elif typ == 1:
        total = 0
        for s, v in enumerate(regs):
            total |= v << (6 * s)
        block = le(3 * k // 4 + 1, total)
        num = sum(1 for v in regs if v == 0)
    else:
        block = list(regs)
        num = sum(1 for v in regs if v == 0)
    lg_aux = LG_AUX[lgk]
    while 4 * len(aux) > 3 * (1 << lg_aux):
        lg_aux += 1
    lg_arr = lg_arr_byte if lg_arr_byte is not None else (lg_aux if (typ == 0 and aux) else 0)
    flags = (8 if compact else 0) | (16 if ooo else 0)
    pre = [10, 1, 7, lgk, lg_arr, flags, cur_min, 2 | (typ << 2)]
    pre += le(8, f64bits(hip)) + le(8, f64bits(q0)) + le(8, f64bits(q1)) + le(4, num) + le(4, len(aux))
    if typ == 0 and aux:
        if aux_as_table:
            tail = u32l(java_aux_table(lg_arr, lgk, aux))
        else:
            tail = u32l([(v << 26) | s for (s, v) in aux])
    else:
        tail = []
    return pre + block + tail


def kxq_of(regs):
    q0 = sum(2.0 ** -v for v in regs if v < 32)
    q1 = sum(2.0 ** -v for v in regs if v >= 32)
    return q0, q1


def rand_regs(rng, lgk, typ):
    k = 1 << lgk
    style = rng.choice(["sparse", "dense", "high", "curmin", "boundary", "uniform"])
    if style == "uniform":
        return [rng.choice([1, 1, 2, 3, 63])] * k
    if style == "boundary":
        # the smallest possible exception (cur_min + 15) next to cur_min + 14 and cur_min + 16
        base = rng.randint(0, 47)
        regs = [base + rng.choice([0, 1, 2, 13, 14]) for _ in range(k)]
        regs[rng.randrange(k)] = base
        for s_, d in zip(rng.sample(range(k), 3), (15, 16, 14)):
            regs[s_] = base + d
        if regs.count(base) == 0:
            regs[0] = base
        return regs
    if style == "sparse":
        regs = [0] * k
        for s in rng.sample(range(k), max(1, k // 8)):
            regs[s] = rand_value(rng)
    elif style == "dense":
        regs = [rand_value(rng, 20) for _ in range(k)]
    elif style == "high":
        regs = [rng.randint(0, 63) for _ in range(k)]
    else:
        base = rng.randint(1, 40)
        regs = [min(63, base + rand_value(rng, 22) - 1) for _ in range(k)]
        regs[rng.randrange(k)] = base
    return regs


def foreign_image(rng, tier):
    """(bytes, variant tag) of a random abstract state in a random variant of the cross-language format"""
    typ = rng.randrange(3)
    r = rng.random()
    if r < 0.2:
        lgk = rng.randint(4, 21)
        n = rng.choice([0, 0, 1, 3, 7, rng.randint(0, 7)])
        cs = list({cp(rng.getrandbits(26), rand_value(rng)) for _ in range(n)})
        compact = rng.random() < 0.5
        return enc_list(compact, lgk, typ, cs), "list-%s" % ("compact" if compact else "updatable")
    if r < 0.45:
        lgk = rng.choice([8, 9, 10, 12, 14, 16] + ([18, 21] if tier != "quick" else []))
        lg_arr = rng.randint(5, min(lgk - 3, 9 if tier == "quick" else 12))
        n = rng.randint(1, 3 * (1 << lg_arr) // 4)
        if rng.random() < 0.3:
            n = 3 * (1 << lg_arr) // 4
        cs = set()
        low = rng.getrandbits(lg_arr)
        while len(cs) < n:
            slot = rng.getrandbits(26)
            if rng.random() < 0.3:
                slot = (slot & ~((1 << lg_arr) - 1)) | low        # colliding probe starts
            cs.add(cp(slot, rand_value(rng)))
        compact = rng.random() < 0.5
        return enc_set(compact, lgk, typ, lg_arr, list(cs), rng), "set-%s" % ("compact" if compact else "updatable")
    lgk = rng.choice([4, 5, 6, 7, 8, 9, 10, 11] + ([12] if rng.random() < 0.3 else []))
    regs = rand_regs(rng, lgk, typ)
    ooo = rng.random() < 0.5
    compact = rng.random() < 0.6
    q0, q1 = kxq_of(regs)
    hip = 0.0 if ooo else float(rng.randint(1, 1 << 20)) + rng.random()
    has_aux = typ == 0 and any(v - min(regs) >= 15 for v in regs)
    if typ == 0 and has_aux and not compact:
        # updatable Hll4: the exceptions as a hash table of 1 << lgAuxArr ints
        return enc_hll(False, ooo, lgk, typ, regs, hip, q0, q1, aux_as_table=True), "upd4aux"
    lg_arr_byte = rng.choice([None, 0]) if typ == 0 else rng.choice([None, 0])
    return (enc_hll(compact, ooo, lgk, typ, regs, hip, q0, q1, lg_arr_byte=lg_arr_byte),
            "hll%d-%s%s" % ([4, 6, 8][typ], "compact" if compact else "updatable", "-ooo" if ooo else ""))


def image_is_ooo(img):
    """array-mode image with the OUT_OF_ORDER flag: its estimate is the composite estimator (not modelled)"""
    return len(img) >= 8 and (img[7] & 3) == 2 and (img[5] & 16) != 0


def exercise(rng, ops, g, t, maybe_ooo, min_updates=0):
    """what is done with a value returned as Ok: query (estimate and bounds -- compared with the model unless the
    sketch may be out of order, where only the crate-only op 32 is used), re-serialize, merge into a union, update,
    round trip.  maybe_ooo: this image or an earlier one loaded into the same slot (a rejected image leaves the
    previous sketch in place) carries the OUT_OF_ORDER flag"""
    def query():
        if not maybe_ooo:
            ops.append((4, [g, t])); ops.append((5, [g, t]))
        ops.append((32, [g, t]))
    query()
    ops.append((7, [g, t])); ops.append((31, [g, t])); ops.append((30, [g, t]))
    for _ in range(max(min_updates, rng.choice([0, 3, 40]))):
        ops.append((2, [g, cp(rng.getrandbits(26), rand_value(rng))]))
    ops.append((3, [g, t])); query(); ops.append((30, [g, t]))
    ops.append((8, [g, t])); ops.append((3, [g, t])); query(); ops.append((31, [g, t]))


def gen_foreign_case(rng, cid, tier):
    ops = []
    tags = set()
    ooo = {}
    for _ in range(rng.choice([1, 2, 3])):
        if rng.random() < 0.12:
            img, v = set_load_image(rng, "max"), "set-updatable-maxload"
        else:
            img, v = foreign_image(rng, tier)
        tags.add(v)
        g, t = rng.randrange(2), rng.randrange(3)
        ooo[(g, t)] = ooo.get((g, t), False) or image_is_ooo(img)
        ops.append((9, [g, t] + img))
        ops.append((3, [g, t]))
        if "upd4aux" not in v:
            exercise(rng, ops, g, t, ooo[(g, t)], min_updates=(12 if "maxload" in v else 0))
    tag = "hllforeign-upd4aux" if "upd4aux" in tags else "hllforeign-" + "+".join(sorted(tags))
    return Case(cid, [rng.randint(4, 12)], ops, tag=tag)


def mutate(rng, img):
    b = list(img)
    r = rng.random()
    if r < 0.25 and b:                                   # bit / byte flips, mostly in the preamble
        for _ in range(rng.choice([1, 1, 2, 4])):
            i = rng.randrange(min(len(b), 44)) if rng.random() < 0.7 else rng.randrange(len(b))
            b[i] = b[i] ^ (1 << rng.randrange(8)) if rng.random() < 0.6 else rng.randrange(256)
    elif r < 0.5 and b:                                  # boundary values in the lg / count / flag fields
        for _ in range(rng.choice([1, 1, 2])):
            i = rng.choice([0, 1, 2, 3, 4, 5, 6, 7, 8, 9, 10, 11, 32, 33, 34, 35, 36, 37, 38, 39])
            if i < len(b):
                b[i] = rng.choice([0, 1, 2, 3, 4, 5, 7, 8, 15, 16, 20, 21, 22, 26, 31, 32, 63, 64, 127, 128, 200, 255])
    elif r < 0.7:                                        # truncation
        b = b[:rng.randrange(len(b) + 1)]
    elif r < 0.8:                                        # extension
        b = b + [rng.randrange(256) for _ in range(rng.choice([1, 4, 100]))]
    elif r < 0.9 and len(b) > 44:                        # payload damage: registers, aux entries, coupons
        for _ in range(rng.choice([1, 3, 10])):
            i = rng.randrange(8, len(b))
            b[i] = rng.choice([0, 255, 0xF0, 0x0F, rng.randrange(256)])
    else:                                                # random bytes with a plausible header
        n = rng.choice([0, 1, 7, 8, 12, 40, 100])
        b = [rng.randrange(256) for _ in range(n)]
        if n >= 8 and rng.random() < 0.7:
            b[1], b[2], b[3] = 1, 7, rng.randint(4, 21)
            b[0] = rng.choice([2, 3, 10])
    return b


BAD_F64 = [float("nan"), float("inf"), float("-inf"), -1.0, -0.0, 0.0, 5e-324, 1e-300, 1e300, 1.7976931348623157e308]


def crafted_estimator_image(rng):
    """a valid array image (any type, flags 0x18 / 0x08 / 0x10 / 0) whose hip_accum / kxq0 / kxq1 fields hold NaN, an
    infinity, a negative number, zero, a subnormal or a huge value: accepted or rejected, estimate() and the bounds
    of an accepted one must not panic (the NaN kxq0 with OUT_OF_ORDER once failed a debug assertion)"""
    typ = rng.randrange(3)
    lgk = rng.choice([4, 4, 5, 7, 10])
    regs = rand_regs(rng, lgk, typ)
    ooo = rng.random() < 0.7
    compact = rng.random() < 0.7
    if typ == 0 and any(v - min(regs) >= 15 for v in regs):
        compact = True          # the updatable Hll4 exception table is the known finding C13-hll-updatable-hll4-aux
    q0, q1 = kxq_of(regs)
    hip = 0.0 if ooo else 123.5
    which = rng.choice(["q0", "q0", "q1", "hip", "q0q1", "all"])
    bad = rng.choice(BAD_F64)
    if which in ("q0", "q0q1", "all"):
        q0 = bad
    if which in ("q1", "q0q1", "all"):
        q1 = rng.choice(BAD_F64) if which == "all" else bad
    if which in ("hip", "all"):
        hip = rng.choice(BAD_F64)
    img = enc_hll(compact, ooo, lgk, typ, regs, hip, q0, q1, lg_arr_byte=rng.choice([None, 0]))
    if rng.random() < 0.3:          # a NaN with a payload / the sign bit
        off = {"q0": 16, "q1": 24, "hip": 8}.get(which, 16)
        img[off:off + 8] = le(8, rng.choice([0x7ff0000000000001, 0xfff8000000000000, 0x7fffffffffffffff, 0xfff0000000000000]))
    return img


def crafted_coupon_image(rng):
    """list / set images whose stored coupons disagree with the announced count, repeat, or carry value 0"""
    typ = rng.randrange(3)
    lgk = rng.choice([4, 8, 10, 12, 21])
    kind = rng.choice(["list-full", "list-more", "list-fewer", "list-dup", "list-zero-value", "list-compact-hole",
                       "set-count", "set-dup", "set-zero-value"])
    if kind.startswith("set") and lgk < 8:
        lgk = 10
    fresh = lambda n: list({cp(rng.getrandbits(26), rand_value(rng)) for _ in range(4 * n)})[:n]
    if kind == "list-full":          # count 3, all 8 slots occupied: every later update used to be dropped
        cs = fresh(8)
        return [2, 1, 7, lgk, 3, 0, rng.choice([3, 0, 7]), typ << 2] + u32l(cs)
    if kind == "list-more":
        n = rng.randint(0, 6)
        cs = fresh(rng.randint(n + 1, 8)) + [0] * 8
        return [2, 1, 7, lgk, 3, 0, n, typ << 2] + u32l(cs[:8])
    if kind == "list-fewer":
        n = rng.randint(1, 7)
        cs = fresh(rng.randint(0, n - 1)) + [0] * 8
        return [2, 1, 7, lgk, 3, 0, n, typ << 2] + u32l(cs[:8])
    if kind == "list-dup":
        cs = fresh(rng.randint(1, 6))
        cs = cs + [cs[0]]
        compact = rng.random() < 0.5
        return [2, 1, 7, lgk, 3, 8 if compact else 0, len(cs), typ << 2] + u32l(cs if compact else (cs + [0] * 8)[:8])
    if kind == "list-zero-value":
        cs = fresh(rng.randint(0, 5)) + [rng.getrandbits(26) | 1]
        compact = rng.random() < 0.5
        return [2, 1, 7, lgk, 3, 8 if compact else 0, len(cs), typ << 2] + u32l(cs if compact else (cs + [0] * 8)[:8])
    if kind == "list-compact-hole":
        cs = fresh(3)
        cs[1] = 0
        return [2, 1, 7, lgk, 3, 8, 3, typ << 2] + u32l(cs)
    lg_arr = rng.randint(5, min(lgk - 3, 7))
    n = rng.randint(8, 3 * (1 << lg_arr) // 4)
    cs = fresh(n)
    compact = rng.random() < 0.5
    count = len(cs)
    if kind == "set-count":
        count = max(0, count + rng.choice([-1, 1, -8, 3]))
    elif kind == "set-dup":
        cs[-1] = cs[0]
    else:
        cs[rng.randrange(len(cs))] = rng.getrandbits(26) | 1
    body = list(cs) if compact else java_set_table(lg_arr, cs)
    if compact and kind == "set-count":
        pass
    return [3, 1, 7, lgk, lg_arr, 8 if compact else 0, 0, 1 | (typ << 2)] + le(4, count) + u32l(body)


def set_load_image(rng, load):
    """an UPDATABLE set image (the whole table of 1 << lg_arr ints, Java's probe layout) holding `load` distinct valid
    coupons: load = 3/4 size is the largest valid table; 3/4 size + 1, size - 1 and size (no empty slot: the next novel
    coupon would find the table full -- unreachable!("HashSet full")) must be refused"""
    lg_arr = rng.choice([5, 6, 7])
    size = 1 << lg_arr
    lgk = rng.choice([lg_arr + 3, lg_arr + 3, 10, 12, 21])
    n = {"max": 3 * size // 4, "over": 3 * size // 4 + 1, "almost": size - 1, "full": size}[load]
    cs = set()
    while len(cs) < n:
        cs.add(cp(rng.getrandbits(26), rand_value(rng)))
    cs = list(cs)
    typ = rng.randrange(3)
    return [3, 1, 7, lgk, lg_arr, 0, 0, 1 | (typ << 2)] + le(4, n) + u32l(java_set_table(lg_arr, cs))


def gen_malformed_case(rng, cid, tier):
    ops = []
    tags = set()
    ooo = {}
    for _ in range(rng.choice([2, 3, 5])):
        r = rng.random()
        if r < 0.2:
            img = crafted_estimator_image(rng); tags.add("est")
        elif r < 0.35:
            img = crafted_coupon_image(rng); tags.add("cpn")
        elif r < 0.45:
            img = set_load_image(rng, rng.choice(["max", "over", "almost", "full", "full"])); tags.add("setload")
        else:
            img, v = foreign_image(rng, tier)
            if len(img) > 3000 and rng.random() < 0.7:
                continue
            img = mutate(rng, img)
        g, t = rng.randrange(2), rng.randrange(3)
        ooo[(g, t)] = ooo.get((g, t), False) or image_is_ooo(img)
        ops.append((9, [g, t] + img))
        ops.append((3, [g, t]))
        exercise(rng, ops, g, t, ooo[(g, t)], min_updates=12)
    return Case(cid, [rng.randint(4, 12)], ops, tag="hllmalformed" + "".join("-" + x for x in sorted(tags)))


def gen_extremes_case(rng, cid, tier):
    """valid API sequences at the documented extremes lg_k = 4 and lg_k = 21 (C17): every stream kind at 4
    (values up to 63, cur_min shifts to the top, aux growth), long sparse phases at 21, unions with lg_max 4 / 21"""
    r = rng.random()
    if r < 0.45:
        lgk = 4
        b = Builder(lgk)
        kind = rng.choice(STREAMS + [stream_cur_min, stream_aux_boundary])
        kind(rng, b, 0, lgk, tier)
        for t in (0, 1, 2):
            b.ops.append((7, [0, t])); b.ops.append((31, [0, t])); b.ops.append((30, [0, t])); b.ops.append((32, [0, t]))
            b.ops.append((8, [0, t]))
        b.check(0, rng)
        return Case(cid, [lgk], b.ops, tag="hllextreme-%s-lgk4" % kind.__name__[7:])
    if r < 0.75:
        lgk = 21
        b = Builder(lgk)
        n = rng.choice([5, 9, 30, 200, 3000] + ([20000] if tier != "quick" else []))
        base = rng.getrandbits(55)
        for i in range(n):
            if rng.random() < 0.7:
                b.upd(0, base + i)
            else:
                b.cpn(0, cp(rng.getrandbits(26), rng.randint(1, 63)))
            if i in (6, 7, 8, 23, 24, 25, 47, 48, 49, 95, 96, 97) or rng.random() < 0.002:
                b.check(0, rng)
        b.check(0, rng)
        for t in (0, 1, 2):
            b.ops.append((7, [0, t])); b.ops.append((31, [0, t])); b.ops.append((32, [0, t])); b.ops.append((8, [0, t]))
        b.ops.append((30, [0, rng.randrange(3)]))
        b.check(0, rng)
        return Case(cid, [lgk], b.ops, tag="hllextreme-sparse-lgk21")
    # unions at lg_max 4 / 21 with inputs at lg_k 4, 21 and in between (array inputs only below lg_k 10)
    lg_max = rng.choice([4, 21])
    ops = []
    n_in = rng.choice([2, 3, 4])
    for i in range(n_in):
        lgk = rng.choice([4, 4, 21, rng.randint(5, 9)])
        t = rng.randrange(3)
        ops.append((10, [i, lgk, t]))
        if lgk == 21:
            n = rng.choice([0, 3, 7, 8, 60, 900])
        else:
            n = rng.choice([0, 5, set_threshold(lgk) + rng.randint(0, 3 << lgk)])
        for _ in range(n):
            ops.append((11, [i, cp(rng.getrandbits(26), rng.randint(1, 63) if rng.random() < 0.2 else rand_value(rng))]))
        if rng.random() < 0.3:
            ops.append((13, [i]))
        ops.append((17, [i]))
    order = list(range(n_in))
    for rnd in range(2):
        rng.shuffle(order)
        for i in order:
            ops.append((14, [i]))
            for t in (0, 1, 2):
                ops.append((18, [t])); ops.append((19, [t]))
            ops.append((20, [])); ops.append((21, []))
            ops.append((22, [rng.randrange(3)]))
        item = rng.getrandbits(40)
        ops.append((15, [item, coupon_of_item(item)]))
        ops.append((16, []))
    return Case(cid, [lg_max, 1], ops, tag="hllextreme-union-lgmax%d" % lg_max)


def gen(rng, tier, n=None, focus=None):
    if focus == "union":
        n = n or (120 if tier == "quick" else 1500)
        return [gen_union_case(rng, i, tier) for i in range(n)]
    if focus in ("codec", "layout"):
        n = n or (40 if tier == "quick" else 500)
        return [gen_codec_case(rng, i, tier, focus) for i in range(n)]
    if focus == "size":
        n = n or (8 if tier == "quick" else 40)
        return [gen_size_case(rng, i, tier) for i in range(n)]
    if focus == "foreign":
        n = n or (150 if tier == "quick" else 2000)
        return [gen_foreign_case(rng, i, tier) for i in range(n)]
    if focus == "extremes":
        # (thorough: 200 cases needed ~850 s of model time per profile on 16 cores, more than half of the 25-minute shard limit;
        #  100 keeps a slower or loaded machine away from it)
        n = n or (16 if tier == "quick" else 100)
        return [gen_extremes_case(rng, i, tier) for i in range(n)]
    if focus == "malformed":
        n = n or (200 if tier == "quick" else 4000)
        return [gen_malformed_case(rng, i, tier) for i in range(n)]
    n = n or (90 if tier == "quick" else 900)
    return [gen_case(rng, i, tier, focus) for i in range(n)]


def nontrivial(case, obs):
    """C02: at least two distinct coupons fed and at least one state dump;
    union cases: at least one non-empty sketch merged and one to_sketch dump;
    codec cases: an image was written or parsed"""
    if len(case.cfg) >= 2 and case.cfg[1] == 1:
        fed = {a[0] for (c, a) in case.ops if c in (11, 12)}
        return any(c == 14 and a[0] in fed for (c, a) in case.ops) and any(c == 18 for (c, a) in case.ops)
    if any(c in (7, 8, 9) for (c, a) in case.ops):
        return True
    cs = {a[-1] for (c, a) in case.ops if c in (1, 2)}
    return len(cs) >= 2 and any(c == 3 for (c, a) in case.ops)
