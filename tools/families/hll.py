"""Case generator for the HLL family (C02; later the HLL legs of C03/C11/C12/C17/C18)."""
from common import Case
import pyref

FAMILY = "hll"
CORR = "Hll"
FAMNUM = 6
ORACLES = {"prop_ok": 0}
GEN_MODULES = [("GenHll",
                ["hll/mod.rs", "hll/serialization.rs", "hll/container.rs", "hll/list.rs", "hll/hash_set.rs",
                 "hll/aux_map.rs", "hll/array4.rs", "hll/array6.rs", "hll/coupon_mapping.rs", "hll/estimator.rs"],
                ["KEY_BITS_26", "KEY_MASK_26", "RESIZE_NUMERATOR", "RESIZE_DENOMINATOR", "COUPON_RSE_FACTOR",
                 "COUPON_EMPTY", "ENTRY_EMPTY", "LG_INIT_LIST_SIZE", "LG_INIT_SET_SIZE", "AUX_TOKEN", "VAL_MASK_6",
                 "X_ARR", "Y_ARR", "HIP_LB", "HIP_UB", "LIT_lg_aux_arr_ints", "LIT_update_kxq", "LIT_coupon",
                 "LIT_num_bytes_for_k", "FLIT_get_rel_err",
                 "SERIAL_VERSION", "LIST_PREINTS", "HASH_SET_PREINTS", "HLL_PREINTS", "EMPTY_FLAG_MASK",
                 "COMPACT_FLAG_MASK", "OUT_OF_ORDER_FLAG_MASK", "CUR_MODE_LIST", "CUR_MODE_SET", "CUR_MODE_HLL",
                 "TGT_HLL4", "TGT_HLL6", "TGT_HLL8"],
                {"hll/aux_map.rs": ["lg_aux_arr_ints"], "hll/estimator.rs": ["update_kxq"], "hll/mod.rs": ["coupon"],
                 "hll/sketch.rs": [], "hll/array6.rs": ["num_bytes_for_k"]},
                {"hll/coupon_mapping.rs": ["X_ARR", "Y_ARR"], "hll/estimator.rs": ["HIP_LB", "HIP_UB"]},
                {"hll/estimator.rs": ["get_rel_err"]})]
OPNAMES = {1: "update", 2: "coupon", 3: "dump", 4: "estimate", 5: "bounds", 6: "raw", 7: "serialize"}


def gen(rng, tier, n=None, focus=None):
    return []


def nontrivial(case, obs):
    return True
