"""Case generator for the Count-Min family (C08, and the Count-Min legs of C11/C12/C14/C17/C18)."""
import struct
from common import Case
import pyref

FAMILY = "countmin"
CORR = "CountMin"          # Coq module DS.Corr.CountMin
FAMNUM = 1                 # number in ocaml/Extract.v
ORACLES = {"prop_ok": 0}   # oracle name -> number in Corr/CountMin.v [oracles]
GEN_MODULES = [("GenCountMin", ["countmin/serialization.rs", "countmin/sketch.rs"],
                ["PREAMBLE_LONGS_SHORT", "SERIAL_VERSION", "FLAGS_IS_EMPTY", "LONG_SIZE_BYTES", "MAX_TABLE_ENTRIES"])]
TYPES = [(0, 255), (1, 65535), (2, 2**32 - 1), (3, 2**64 - 1), (4, 127), (5, 32767), (6, 2**31 - 1), (7, 2**63 - 1)]
OPNAMES = {0: "new", 1: "update", 2: "estimate", 3: "serialize", 4: "merge", 5: "halve", 6: "decay",
           7: "roundtrip", 8: "total", 9: "deserialize"}


def row_seeds(seed, nh):
    return [pyref.murmur3_x64_128(pyref.le8(i), seed)[0] for i in range(nh)]


def buckets(item, seeds, nb):
    return [pyref.murmur3_x64_128(pyref.le8(item), s)[0] % nb for s in seeds]


def f64bits(x):
    return struct.unpack("<Q", struct.pack("<d", x))[0]


def gen_case(rng, cid, tier, focus=None):
    ty, mx = rng.choice(TYPES)
    nh = rng.choice([1, 1, 2, 3, 4, 5, 8])
    nb = rng.choice([3, 3, 4, 5, 7, 16, 33, 64, 127, 512]) if rng.random() < 0.8 else rng.randint(3, 512)
    seed = rng.choice([9001, 9001, 0, 1, 2**64 - 1, rng.getrandbits(64)])
    if pyref.seed_hash(seed) == 0:
        seed = 9001
    sh = pyref.seed_hash(seed)
    seeds = row_seeds(seed, nh)
    ndom = rng.choice([1, 2, 5, 12, 40])
    dom = [rng.choice([0, 1, -1, 2**63 - 1, -2**63, rng.getrandbits(64) - 2**63, rng.randint(-50, 50)]) for _ in range(ndom)]
    dom = list(dict.fromkeys(dom))
    bk = {x: buckets(x, seeds, nb) for x in dom}
    unsigned = ty < 4
    nslots = rng.choice([1, 1, 2, 3])
    nops = rng.choice([5, 20, 60]) if tier == "quick" else rng.choice([20, 100, 300])
    # budget so that every total (after merges) fits the type, and < 2^62 when decay is used
    cap = min(mx, 2**62)
    budget = cap // (2 ** nslots)   # merges can at most double repeatedly; keep it simple and safe
    totals = [0] * nslots
    ops = [(0, [s]) for s in range(nslots)]
    for _ in range(nops):
        s = rng.randrange(nslots)
        r = rng.random()
        if r < 0.55:
            x = rng.choice(dom)
            room = budget - totals[s]
            if room <= 0:
                continue
            w = min(room, rng.choice([0, 1, 1, 2, 3, rng.randint(1, 10), rng.randint(1, max(1, room))]))
            if rng.random() < 0.05:
                w = 0
            totals[s] += w
            ops.append((1, [s, x, w] + bk[x]))
        elif r < 0.70:
            x = rng.choice(dom)
            ops.append((2, [s, x] + bk[x]))
        elif r < 0.76:
            ops.append((3, [s]))
        elif r < 0.84 and nslots > 1:
            o = rng.randrange(nslots)
            if o != s and totals[s] + totals[o] <= cap:
                totals[s] += totals[o]
                ops.append((4, [s, o]))
        elif r < 0.88 and unsigned:
            totals[s] //= 2
            ops.append((5, [s]))
        elif r < 0.92 and unsigned:
            d = rng.choice([1.0, 0.5, 0.9, 0.1, 0.999, rng.random() or 0.5])
            ops.append((6, [s, f64bits(d)]))
        elif r < 0.96:
            ops.append((7, [s]))
        else:
            ops.append((8, [s]))
    unseen = [x for x in (12345, -777, 2**62) if x not in bk]
    for s in range(nslots):
        for x in dom:
            ops.append((2, [s, x] + bk[x]))
        for x in unseen:
            ops.append((2, [s, x] + buckets(x, seeds, nb)))
        ops.append((8, [s]))
        ops.append((3, [s]))
        ops.append((7, [s]))
        ops.append((3, [s]))
    return Case(cid, [ty, nh, nb, seed, sh], ops, tag="cm-ty%d" % ty)


def gen(rng, tier, n=None, focus=None):
    n = n or (120 if tier == "quick" else 1200)
    return [gen_case(rng, i, tier, focus) for i in range(n)]


def nontrivial(case, obs):
    """a case is non-trivial when it updates at least 2 distinct items and queries at least one"""
    items = {a[1] for (c, a) in case.ops if c == 1 and a[2] > 0}
    return len(items) >= 2 and any(c == 2 for (c, a) in case.ops)
