"""Case generator for the Count-Min family (C08, and the Count-Min legs of C11/C12/C14/C17/C18)."""
import struct
from common import Case
import pyref

FAMILY = "countmin"
CORR = "CountMin"          # Coq module DS.Corr.CountMin
FAMNUM = 1                 # number in ocaml/Extract.v
ORACLES = {"prop_ok": 0, "prop_roundtrip": 1, "prop_layout": 2, "no_panic": 3, "prop_foreign": 4}   # oracle name -> number in Corr/CountMin.v [oracles]
GEN_MODULES = [("GenCountMin", ["countmin/serialization.rs", "countmin/sketch.rs"],
                ["PREAMBLE_LONGS_SHORT", "SERIAL_VERSION", "FLAGS_IS_EMPTY", "LONG_SIZE_BYTES", "MAX_TABLE_ENTRIES"])]
TYPES = [(0, 255), (1, 65535), (2, 2**32 - 1), (3, 2**64 - 1), (4, 127), (5, 32767), (6, 2**31 - 1), (7, 2**63 - 1)]
OPNAMES = {0: "new", 1: "update", 2: "estimate", 3: "serialize", 4: "merge", 5: "halve", 6: "decay",
           7: "roundtrip", 8: "total", 9: "deserialize", 10: "fork", 11: "bounds",
           12: "update_item", 13: "estimate_item", 14: "bounds_item"}


def row_seeds(seed, nh):
    return [pyref.murmur3_x64_128(pyref.le8(i), seed)[0] for i in range(nh)]


def buckets(item, seeds, nb):
    return [pyref.murmur3_x64_128(pyref.le8(item), s)[0] % nb for s in seeds]


# ---- items that are not i64: std's Hash impl makes several writes (or one long write) into the MurmurHash3 hasher.
# kind 0 &str (bytes, then a 0xff write), 1 (u64,u64), 2 u128 (one 16-byte write), 3 &[u8] (8-byte length prefix, then
# the bytes), 4 (u64,u64,u64,u64).  An item is known to the model and the oracles by an id outside the i64 range.
STR_LENS = [0, 1, 7, 8, 14, 15, 16, 17, 23, 24, 31, 32, 33, 47, 48, 100]


def special_item(rng, k):
    """returns (id, kind, payload, byte stream fed to the hasher)"""
    ident = -(2**63) - 1 - k
    kind = rng.choice([0, 0, 0, 1, 2, 3, 3, 4])
    if kind == 0:
        pl = [rng.randrange(32, 127) for _ in range(rng.choice(STR_LENS))]
        return ident, kind, pl, bytes(pl) + b"\xff"
    if kind == 1:
        pl = [rng.getrandbits(64), rng.choice([0, rng.getrandbits(64)])]
        return ident, kind, pl, b"".join(pyref.le8(v) for v in pl)
    if kind == 2:
        pl = [rng.getrandbits(64), rng.choice([0, rng.getrandbits(64)])]       # lo, hi
        return ident, kind, pl, pyref.le8(pl[0]) + pyref.le8(pl[1])
    if kind == 3:
        pl = [rng.randrange(256) for _ in range(rng.choice([0, 1, 7, 8, 9, 15, 16, 23, 24, 40]))]
        return ident, kind, pl, pyref.le8(len(pl)) + bytes(pl)
    pl = [rng.getrandbits(64) for _ in range(4)]
    return ident, kind, pl, b"".join(pyref.le8(v) for v in pl)


def stream_buckets(data, seeds, nb):
    return [pyref.murmur3_x64_128(data, s)[0] % nb for s in seeds]


class Items:
    """the items of one case: i64 values and special items; builds update / estimate / bounds ops for either"""

    def __init__(self, rng, seeds, nb, i64s, nspecial):
        self.bk, self.sp = {}, {}
        for x in i64s:
            self.bk[x] = buckets(x, seeds, nb)
        for k in range(nspecial):
            ident, kind, pl, data = special_item(rng, k)
            self.bk[ident] = stream_buckets(data, seeds, nb); self.sp[ident] = [kind] + pl
        self.dom = list(self.bk)

    def update(self, s, x, w):
        return (12, [s, x, w] + self.bk[x] + self.sp[x]) if x in self.sp else (1, [s, x, w] + self.bk[x])

    def estimate(self, s, x):
        return (13, [s, x] + self.bk[x] + self.sp[x]) if x in self.sp else (2, [s, x] + self.bk[x])

    def bounds(self, s, x):
        return (14, [s, x] + self.bk[x] + self.sp[x]) if x in self.sp else (11, [s, x] + self.bk[x])


def f64bits(x):
    return struct.unpack("<Q", struct.pack("<d", x))[0]


def gen_case(rng, cid, tier, focus=None):
    ty, mx = rng.choice(TYPES)
    nh = rng.choice([1, 1, 2, 3, 4, 5, 8])
    nb = rng.choice([3, 3, 4, 5, 7, 16, 33, 64, 127, 512]) if rng.random() < 0.8 else rng.randint(3, 512)
    seed = rng.choice([9001, 9001, 0, 1, 2**64 - 1, rng.getrandbits(64)])
    if pyref.seed_hash(seed) == 0:
        seed = 9001
    sh = pyref.seed_hash(seed)
    seeds = row_seeds(seed, nh)
    ndom = rng.choice([1, 2, 5, 12, 40])
    dom = [rng.choice([0, 1, -1, 2**63 - 1, -2**63, rng.getrandbits(64) - 2**63, rng.randint(-50, 50)]) for _ in range(ndom)]
    dom = list(dict.fromkeys(dom))
    items = Items(rng, seeds, nb, dom, rng.choice([0, 1, 3, 6]))
    dom = items.dom; bk = items.bk
    unsigned = ty < 4
    nslots = rng.choice([1, 1, 2, 3])
    nops = rng.choice([5, 20, 60]) if tier == "quick" else rng.choice([20, 100, 300])
    # budget so that every total (after merges) fits the type, and < 2^62 when decay is used
    cap = min(mx, 2**62)
    budget = cap // (2 ** nslots)   # merges can at most double repeatedly; keep it simple and safe
    totals = [0] * nslots
    ops = [(0, [s]) for s in range(nslots)]
    for _ in range(nops):
        s = rng.randrange(nslots)
        r = rng.random()
        if r < 0.55:
            x = rng.choice(dom)
            room = budget - totals[s]
            if room <= 0:
                continue
            w = min(room, rng.choice([0, 1, 1, 2, 3, rng.randint(1, 10), rng.randint(1, max(1, room))]))
            if rng.random() < 0.05:
                w = 0
            totals[s] += w
            ops.append(items.update(s, x, w))
        elif r < 0.66:
            x = rng.choice(dom)
            ops.append(items.estimate(s, x))
        elif r < 0.70:
            x = rng.choice(dom)
            ops.append(items.bounds(s, x))
        elif r < 0.76:
            ops.append((3, [s]))
        elif r < 0.84 and nslots > 1:
            o = rng.randrange(nslots)
            if o != s and totals[s] + totals[o] <= cap:
                totals[s] += totals[o]
                ops.append((4, [s, o]))
        elif r < 0.88 and unsigned:
            totals[s] //= 2
            ops.append((5, [s]))
        elif r < 0.92 and unsigned:
            d = rng.choice([1.0, 0.5, 0.9, 0.1, 0.999, rng.random() or 0.5])
            ops.append((6, [s, f64bits(d)]))
        elif r < 0.96:
            ops.append((7, [s]))
        else:
            ops.append((8, [s]))
    unseen = [x for x in (12345, -777, 2**62) if x not in bk]
    for s in range(nslots):
        for x in dom:
            ops.append(items.estimate(s, x))
        for x in unseen:
            ops.append((2, [s, x] + buckets(x, seeds, nb)))
        ops.append((8, [s]))
        ops.append((3, [s]))
        ops.append((7, [s]))
        ops.append((3, [s]))
    return Case(cid, [ty, nh, nb, seed, sh], ops, tag="cm-ty%d" % ty)


def header(nh, nb, sh, flags=0, pre=2, ver=1, fam=18):
    return [pre, ver, fam, flags, 0, 0, 0, 0] + list(nb.to_bytes(4, "little")) + [nh] + list(sh.to_bytes(2, "little")) + [0]


def gen_codec_case(rng, cid, tier):
    """C11 focus: build a state, fork it through serialize/deserialize, then apply identical ops to both twins"""
    ty, mx = rng.choice(TYPES)
    nh = rng.choice([1, 2, 3, 5]); nb = rng.choice([3, 4, 7, 16, 64])
    seed = rng.choice([9001, 0, 1, rng.getrandbits(64)])
    if pyref.seed_hash(seed) == 0:
        seed = 9001
    sh = pyref.seed_hash(seed); seeds = row_seeds(seed, nh)
    dom = [rng.randint(-20, 20) for _ in range(rng.choice([1, 3, 8]))]
    bk = {x: buckets(x, seeds, nb) for x in set(dom)}
    budget = min(mx, 2**62) // 8
    ops = [(0, [0]), (0, [2])]
    tot = 0
    for _ in range(rng.choice([0, 1, 5, 30])):
        x = rng.choice(dom); w = rng.randint(0, max(1, min(budget // 40, 1000)))
        if tot + w > budget:
            break
        tot += w; ops.append((1, [0, x, w] + bk[x]))
    x = rng.choice(dom); ops.append((1, [2, x, 1] + bk[x]))
    ops.append((10, [0, 1]))
    tw = (0, 1)
    def both(code, rest):
        for s in tw:
            ops.append((code, [s] + rest))
    both(3, []); both(8, [])
    for x in sorted(set(dom)) + [777]:
        b = bk.get(x) or buckets(x, seeds, nb)
        both(2, [x] + b)
    for _ in range(rng.choice([1, 4, 10])):
        r = rng.random()
        if r < 0.6:
            x = rng.choice(dom); w = rng.randint(0, 3)
            if tot + w <= budget:
                tot += w; both(1, [x, w] + bk[x])
        elif r < 0.75 and tot + 1 <= budget:
            tot += 1; both(4, [2])
        elif r < 0.85 and ty < 4:
            tot //= 2; both(5, [])
        elif ty < 4:
            both(6, [f64bits(rng.choice([0.5, 0.75, 1.0]))])
        both(3, [])
        x = rng.choice(dom); both(2, [x] + bk[x])
    both(7, []); both(3, []); both(8, [])
    return Case(cid, [ty, nh, nb, seed, sh], ops, tag="cm-codec-ty%d" % ty)


M64 = 2**64


def type_boundaries(ty, mx):
    """boundary values of the counter TYPE as the 8-byte cell encodes them (two's complement, sign-extended):
    T::MIN, T::MIN+1, -1, 0, 1, T::MAX-1, T::MAX (for the unsigned types T::MIN = 0 and "-1" is the all-ones pattern)"""
    mn = -(mx + 1) if ty >= 4 else 0
    return [v % M64 for v in (mn, mn + 1, -1, 0, 1, mx - 1, mx)]


def is_neg(ty, v):
    return ty >= 4 and v >= 2**63


def py_parse(img, ty, mx, nh, nb, sh):
    """the reader's decision on an image, recomputed here: (total, cells) when accepted for THIS configuration
    (num_hashes, num_buckets as in the case's cfg), else None"""
    if len(img) < 16 or img[0] != 2 or img[1] != 1 or img[2] != 18:
        return None
    if int.from_bytes(bytes(img[8:12]), "little") != nb or img[12] != nh or int.from_bytes(bytes(img[13:15]), "little") != sh:
        return None
    if img[3] & 1:
        return 0, [0] * (nh * nb)
    n = nh * nb + 1
    if len(img) < 16 + 8 * n:
        return None
    vals = [int.from_bytes(bytes(img[16 + 8 * i:24 + 8 * i]), "little") for i in range(n)]
    for v in vals:
        if not (v <= mx or (is_neg(ty, v) and v >= M64 - (mx + 1))):
            return None                                  # out of the type's range
    t = vals[0]
    if is_neg(ty, t):
        return None                                      # negative total weight
    for v in vals[1:]:
        if (M64 - v > t) if is_neg(ty, v) else (v > t):
            return None                                  # |counter| > total weight
    if any(is_neg(ty, v) for v in vals[1:]):
        return None                                      # accepted, negative counters: dropped by the harness (outside the model)
    return t, vals[1:]


def valid_table(rng, nh, nb, mx, hi=1000):
    """(total, cells) with every cell <= total <= mx (what updates and merges can produce)"""
    cells = [rng.randint(0, min(mx, hi)) for _ in range(nh * nb)]
    total = min(mx, rng.choice([max(cells), sum(cells), max(cells) + rng.randint(0, 5)]))
    return total, cells


def gen_malformed_use_case(rng, cid, tier):
    """C14 (part C14_countmin): what deserialize returns as Ok must be usable.  Mutations aimed at the payload
    (a counter above the total weight, total 0 with non-zero counters, counters at T::MAX, total at T::MAX) next to
    the structural ones; every accepted value is then updated, queried, forked, merged with its fork and
    re-serialized, with weights chosen so that the totals fit the counter type (so nothing may panic)"""
    ty, mx = rng.choice(TYPES)
    nh = rng.choice([1, 2, 3]); nb = rng.choice([3, 4, 5])
    seed = 9001; sh = pyref.seed_hash(seed); seeds = row_seeds(seed, nh)
    dom = [rng.randint(-9, 9) for _ in range(4)]
    bk = {x: buckets(x, seeds, nb) for x in dom}
    ops = []
    for _ in range(8 if tier == "quick" else 24):
        total, cells = valid_table(rng, nh, nb, mx, hi=rng.choice([3, 100, mx]))
        b = header(nh, nb, sh) + [y for c in [total] + cells for y in c.to_bytes(8, "little")]
        r = rng.random()
        k = rng.randrange(nh * nb)
        def put(i, v):          # cell i (0 = total weight)
            b[16 + 8 * i:24 + 8 * i] = list((v & (2**64 - 1)).to_bytes(8, "little"))
        if r < 0.12:
            put(1 + k, rng.choice([total + 1, mx, min(mx, 2 * total + 1), mx + 1, 2**63 - 1]))
        elif r < 0.2:
            put(rng.choice([0, 1 + k]), rng.choice(type_boundaries(ty, mx)))
        elif r < 0.3:
            put(0, rng.choice([0, max(0, max(cells) - 1), 1]))
        elif r < 0.4:
            put(0, mx); put(1 + k, mx)
        elif r < 0.5:
            put(0, rng.choice([mx + 1, 2**63, 2**64 - 1]))
        elif r < 0.6:
            i = rng.randrange(16, len(b)); b[i] ^= 1 << rng.randrange(8)
        elif r < 0.7:
            b = b[:rng.randrange(len(b) + 1)]
        elif r < 0.75:
            b[3] = rng.choice([1, 3, 255]); b = b[:rng.choice([16, len(b)])]
        # else: unmodified valid image
        ops.append((9, [0] + b))
        st = py_parse(b, ty, mx, nh, nb, sh)
        ops += [(8, [0]), (3, [0])]
        if st is None:
            continue
        t = st[0]
        x = rng.choice(dom)
        ops += [(2, [0, x] + bk[x]), (11, [0, x] + bk[x])]
        w = min(mx - t, rng.choice([0, 1, mx - t, (mx - t) // 2, rng.randint(0, mx - t)]))
        t += w
        ops += [(1, [0, x, w] + bk[x]), (11, [0, x] + bk[x]), (10, [0, 1]), (3, [1])]
        if 2 * t <= mx:
            ops += [(4, [0, 1]), (8, [0]), (11, [0, x] + bk[x])]; t *= 2
        if ty < 4:
            ops += [rng.choice([(5, [0]), (6, [0, f64bits(rng.choice([1.0, 0.5]))])]), (3, [0])]
        ops.append((7, [0]))
    return Case(cid, [ty, nh, nb, seed, sh], ops, tag="cm-malformed-use")


def gen_boundary_case(rng, cid, ty, mx):
    """C14: otherwise valid non-empty images with ONE numeric field at a boundary of its type: every boundary value of
    the counter type (T::MIN, T::MIN+1, -1, 0, 1, T::MAX-1, T::MAX) in a counter cell and in total_weight, for small
    and for maximal totals; num_buckets / num_hashes / seed hash / preamble / version / family / flags at theirs"""
    nh = rng.choice([1, 2]); nb = rng.choice([3, 4])
    seed = 9001; sh = pyref.seed_hash(seed)
    ops = []

    def emit(b):
        ops.extend([(9, [0] + b), (8, [0]), (3, [0]), (10, [0, 1]), (3, [1])])

    def image(total, cells, **kw):
        return header(nh, nb, sh, **kw) + [y for c in [total] + cells for y in (c % M64).to_bytes(8, "little")]

    for base_total in (rng.choice([1, 2, 5]), mx, mx - 1):
        base_total = max(1, base_total)
        cells = [rng.randint(0, min(base_total, 3)) for _ in range(nh * nb)]
        for v in type_boundaries(ty, mx):
            c2 = list(cells); c2[rng.randrange(nh * nb)] = v
            emit(image(base_total, c2))                      # a counter at the boundary
        for v in type_boundaries(ty, mx):
            emit(image(v, cells))                            # the total weight at the boundary
    total, cells = valid_table(rng, nh, nb, mx)
    good = image(total, cells)
    for off, width, vals in ((8, 4, [0, 1, 2, 3, 2**31 - 1, 2**31, 2**32 - 1]), (12, 1, [0, 1, 127, 128, 255]),
                             (13, 2, [0, 1, sh - 1, sh + 1, 65535]), (0, 1, [0, 1, 2, 3, 255]), (1, 1, [0, 1, 2, 255]),
                             (2, 1, [0, 17, 18, 19, 255]), (3, 1, [0, 1, 2, 254, 255])):
        for v in vals:
            b = list(good); b[off:off + width] = list((v % 2**(8 * width)).to_bytes(width, "little"))
            if off == 8 and v * nh * 8 > 2**20:
                b = b[:16]                                   # a huge announced table on a short input (no payload)
            emit(b)
    return Case(cid, [ty, nh, nb, seed, sh], ops, tag="cm-malformed-boundary-ty%d" % ty)


def gen_malformed_case(rng, cid, tier):
    """C14 focus: structure-aware mutations of valid images + random bytes through deserialize, then use the value"""
    ty, mx = rng.choice(TYPES)
    nh = rng.choice([1, 2, 3]); nb = rng.choice([3, 4, 5, 8])
    seed = 9001; sh = pyref.seed_hash(seed); seeds = row_seeds(seed, nh)
    total, tab = valid_table(rng, nh, nb, mx)
    cells = [total] + tab
    img = header(nh, nb, sh) + [b for c in cells for b in c.to_bytes(8, "little")]
    ops = []
    for _ in range(12 if tier == "quick" else 40):
        b = list(img)
        r = rng.random()
        if r < 0.25:
            i = rng.randrange(min(len(b), 16)); b[i] = rng.choice([0, 1, 2, 3, 18, 255, rng.randrange(256)])
        elif r < 0.45:
            b = b[:rng.randrange(len(b) + 1)]
        elif r < 0.6:
            i = rng.randrange(len(b)); b[i] ^= 1 << rng.randrange(8)
        elif r < 0.7:
            b[8:12] = list(rng.choice([0, 1, 2, 3, 6, 2**32 - 1, 2**31]).to_bytes(4, "little"))
        elif r < 0.78:
            b[12] = rng.choice([0, 1, 127, 255])
        elif r < 0.86:
            b[3] = rng.choice([1, 3, 255]); b = b[:rng.choice([16, len(b)])]
        elif r < 0.93:
            b = b + [rng.randrange(256) for _ in range(rng.randrange(20))]
        else:
            b = [rng.randrange(256) for _ in range(rng.randrange(40))]
        ops.append((9, [0] + b))
        x = rng.randint(-5, 5)
        # a value returned as Ok must be usable: query, update, merge with itself-clone, re-serialize
        ops += [(8, [0]), (3, [0]), (10, [0, 1]), (3, [1])]
    return Case(cid, [ty, nh, nb, seed, sh], ops, tag="cm-malformed")


def gen_bigalloc_case(rng, cid, tier):
    """C14: a header announcing a huge table (accepted configuration, < 2^30 cells) on a tiny input.
    Known finding: the crate allocates the whole table before looking at the payload."""
    ty, mx = rng.choice(TYPES)
    seed = 9001; sh = pyref.seed_hash(seed)
    tsize = [1, 2, 4, 8, 1, 2, 4, 8][ty]
    ops = []
    for _ in range(3):
        nh = rng.choice([1, 4, 64, 255])
        nb = rng.choice([2**24, 2**26, (2**30 - 1) // nh])
        nb = max(3, min(nb, (2**30 - 1) // nh))
        while nh * nb * tsize < 4 * (64 * 64 + 2**20):
            nb *= 2
        if nh * nb >= 2**30:
            continue
        flags = rng.choice([0, 1])
        img = header(nh, nb, sh, flags=flags) + [rng.randrange(256) for _ in range(rng.choice([0, 8, 40]))]
        ops += [(9, [0] + img), (8, [0])]
    return Case(cid, [ty, 1, 3, seed, sh], ops, tag="cm-malformed-bigalloc")


def foreign_image(rng, nh, nb, sh, total, cells, plain=False):
    """the image a foreign (C++) writer emits for the abstract state; the unused fields (bytes 4..7, byte 15)
    and the undefined flag bits hold arbitrary values unless [plain]"""
    u32 = 0 if plain else rng.choice([0, 0, 1, 2**32 - 1, rng.getrandbits(32)])
    u8 = 0 if plain else rng.choice([0, 0, 255, rng.randrange(256)])
    hi = 0 if plain else rng.choice([0, 0, 2, 0x80, 0xfe, 2 * rng.randrange(128)])
    flags = (1 if total == 0 else 0) + hi
    img = [2, 1, 18, flags] + list(u32.to_bytes(4, "little")) + list(nb.to_bytes(4, "little")) + [nh] + list(sh.to_bytes(2, "little")) + [u8]
    if total != 0:
        img += list(total.to_bytes(8, "little")) + [b for c in cells for b in c.to_bytes(8, "little")]
    return img


def gen_foreign_case(rng, cid, tier):
    """C13 focus: images built from random abstract states by the generator's own encoder (every variant of the
    unused fields / undefined flag bits, empty and non-empty), fed to deserialize; the result is dumped
    (total, estimates, bounds, re-serialization) and then updated, merged with a native sketch and forked"""
    ty, mx = rng.choice(TYPES)
    nh = rng.choice([1, 1, 2, 3, 5, 8]); nb = rng.choice([3, 3, 4, 7, 16, 64])
    seed = rng.choice([9001, 9001, 0, 1, rng.getrandbits(64)])
    if pyref.seed_hash(seed) == 0:
        seed = 9001
    sh = pyref.seed_hash(seed); seeds = row_seeds(seed, nh)
    dom = list(dict.fromkeys(rng.randint(-30, 30) for _ in range(rng.choice([2, 5, 12]))))
    bk = {x: buckets(x, seeds, nb) for x in dom}
    cap = min(mx, 2**62)
    ops = []
    k = rng.random()
    if k < 0.2:
        total, cells = 0, [0] * (nh * nb)                          # the empty form
    elif k < 0.6:
        # the table a real stream would leave (every row sums to the total)
        total, cells = 0, [0] * (nh * nb)
        for _ in range(rng.choice([1, 3, 20])):
            x = rng.choice(dom); w = rng.randint(1, max(1, min(cap // 64, 10**6)))
            total += w
            for r, b in enumerate(bk[x]):
                cells[r * nb + b] += w
    else:
        # any table within the type's range (a foreign writer's state need not come from this hash function)
        total = rng.choice([1, mx, cap // 2, rng.randint(1, cap)])
        cells = [rng.choice([0, 1, total, rng.randint(0, total)]) for _ in range(nh * nb)]
    ops.append((9, [0] + foreign_image(rng, nh, nb, sh, total, cells, plain=rng.random() < 0.2)))
    ops += [(8, [0]), (3, [0])]
    for x in dom[:6] + [777]:
        b = bk.get(x) or buckets(x, seeds, nb)
        ops.append((2, [0, x] + b)); ops.append((11, [0, x] + b))
    # keep going with the decoded sketch: updates, a merge with a native sketch, a fork, decay
    room = cap - total
    ops.append((0, [1]))
    nat = 0
    for _ in range(rng.choice([0, 2, 6])):
        x = rng.choice(dom); w = rng.randint(0, max(0, min(room // 8, 50)))
        nat += w; ops.append((1, [1, x, w] + bk[x]))
    room -= nat
    for _ in range(rng.choice([0, 1, 4])):
        x = rng.choice(dom); w = rng.randint(0, max(0, min(room // 8, 50)))
        room -= w; ops.append((1, [0, x, w] + bk[x]))
    if rng.random() < 0.7:
        ops.append((4, [0, 1]))
    else:
        ops.append((4, [1, 0])); ops += [(8, [1]), (3, [1])]
    ops += [(8, [0]), (3, [0]), (10, [0, 2]), (3, [2]), (8, [2])]
    if ty < 4 and rng.random() < 0.5:
        ops.append(rng.choice([(5, [0]), (6, [0, f64bits(rng.choice([0.5, 0.9, 1.0]))])])); ops.append((3, [0]))
    for x in dom[:4]:
        ops.append((2, [0, x] + bk[x])); ops.append((11, [2, x] + bk[x]))
    # a second image over the same slot (re-initialises it)
    if rng.random() < 0.4:
        t2 = rng.randint(0, min(cap, 1000)); c2 = [rng.randint(0, t2) for _ in range(nh * nb)] if t2 else [0] * (nh * nb)
        ops.append((9, [0] + foreign_image(rng, nh, nb, sh, t2, c2))); ops += [(8, [0]), (3, [0])]
    return Case(cid, [ty, nh, nb, seed, sh], ops, tag="cm-foreign-ty%d" % ty)


MIN_POS_F64 = 1          # bit pattern of the smallest positive subnormal


def gen_extreme_case(rng, cid, tier):
    """C17 focus: valid API sequences at the configuration extremes (1 x 3 tables, 255 rows, every counter type
    filled to exactly T::MAX, merges summing to exactly T::MAX, decay by 1.0 and by the smallest positive
    double, weight 0 updates); nothing here violates a documented precondition, so nothing may panic"""
    ty, mx = rng.choice(TYPES)
    k = rng.random()
    if k < 0.55:
        nh, nb = 1, 3
    elif k < 0.7:
        nh, nb = 255, 3
    elif k < 0.8:
        nh, nb = 1, rng.choice([64, 257])
    else:
        nh, nb = rng.choice([2, 4, 127]), rng.choice([3, 4, 5])
    seed = rng.choice([9001, 0, 1, 2**64 - 1, rng.getrandbits(64)])
    if pyref.seed_hash(seed) == 0:
        seed = 9001
    sh = pyref.seed_hash(seed); seeds = row_seeds(seed, nh)
    dom = [0, 1, -1, 2**63 - 1, -2**63, rng.randint(-9, 9)][:rng.choice([1, 3, 6])]
    dom = list(dict.fromkeys(dom))
    items = Items(rng, seeds, nb, dom, rng.choice([0, 0, 2]))
    dom = items.dom; bk = items.bk
    unsigned = ty < 4
    ops = [(0, [0]), (0, [1])]
    tot = [0, 0]

    def queries(s):
        x = rng.choice(dom)
        ops.extend([items.estimate(s, x), items.bounds(s, x), (8, [s])])

    def upd(s, w):
        x = rng.choice(dom); tot[s] += w; ops.append(items.update(s, x, w))

    queries(0)                                   # bounds of an empty sketch
    plan = rng.choice(["fill", "fill", "split", "steps"] + (["decay_edge", "decay_edge"] if unsigned else []))
    if plan == "decay_edge":
        # `c as f64` rounds above 2^53: decay(1.0) must not grow a counter (C17-countmin-decay-grows); afterwards the
        # total still has exactly the room it had
        w0 = rng.choice([mx - 1, mx - 1, mx, min(mx, 2**53 + 3), min(mx, 2**63 + 1025)])
        upd(0, w0); queries(0)
        ops.append((6, [0, f64bits(rng.choice([1.0, 1.0, 1.0 - 2**-53]))]))
        tot[0] = min(tot[0], int(float(tot[0]) * (1.0 if ops[-1][1][1] == f64bits(1.0) else 1.0 - 2**-53)))
        ops.append((8, [0])); upd(0, mx - tot[0] if rng.random() < 0.7 else min(1, mx - tot[0])); queries(0)
    elif plan == "fill":
        upd(0, rng.choice([mx, mx, mx - 1, mx // 2 + 1]))          # one update up to T::MAX
    elif plan == "split":
        a = rng.randint(0, mx); upd(0, a); upd(1, mx - a)           # the merge below sums to exactly T::MAX
    else:
        left = mx
        for _ in range(rng.choice([2, 5, 20])):
            w = rng.choice([0, 1, left // 2, left, rng.randint(0, left)]); w = min(w, left); left -= w; upd(0, w)
    queries(0)
    if tot[0] + tot[1] <= mx:
        ops.append((4, [0, 1])); tot[0] += tot[1]
    queries(0)
    ops += [(3, [0]), (7, [0]), (10, [0, 2]), (3, [2])]
    for _ in range(rng.choice([2, 6, 15] if tier == "quick" else [6, 20, 60])):
        r = rng.random()
        if r < 0.3:
            room = mx - tot[0]
            upd(0, rng.choice([0, min(1, room), room, rng.randint(0, room)]))
        elif r < 0.45 and unsigned:
            ops.append((5, [0])); tot[0] //= 2
        elif r < 0.6 and unsigned:
            d = rng.choice([f64bits(1.0), MIN_POS_F64, f64bits(0.5), f64bits(1.0 - 2**-53), f64bits(rng.random() or 1.0)])
            ops.append((6, [0, d]))
            # (c as f64 * d).trunc() as T, recomputed here for the total (Python's int -> float is correctly rounded)
            # and clamped to the old value (a decayed counter never grows)
            tot[0] = min(tot[0], mx, int(float(tot[0]) * struct.unpack("<d", struct.pack("<Q", d))[0]))
        elif r < 0.7:
            ops.append((7, [0]))
        elif r < 0.8:
            ops.append((0, [1])); tot[1] = 0; upd(1, rng.choice([0, 1, 3]))
            if tot[0] + tot[1] <= mx:
                ops.append((4, [0, 1])); tot[0] += tot[1]
        else:
            queries(0)
    queries(0); ops += [(3, [0]), (10, [0, 3]), (3, [3])]
    for x in dom:
        ops.append(items.bounds(3, x))
    return Case(cid, [ty, nh, nb, seed, sh], ops, tag="cm-extreme-ty%d" % ty)


def gen(rng, tier, n=None, focus=None):
    n = n or (120 if tier == "quick" else 1200)
    if focus == "codec":
        return [gen_codec_case(rng, i, tier) for i in range(n)]
    if focus == "foreign":
        return [gen_foreign_case(rng, i, tier) for i in range(n)]
    if focus == "extremes":
        return [gen_extreme_case(rng, i, tier) for i in range(n)]
    if focus == "malformed_use":
        return [gen_malformed_use_case(rng, i, tier) for i in range(n)]
    if focus == "malformed":
        return ([gen_malformed_case(rng, i, tier) for i in range(n)] + [gen_bigalloc_case(rng, n + i, tier) for i in range(6)]
                + [gen_boundary_case(rng, n + 6 + i, ty, mx) for i, (ty, mx) in enumerate(TYPES)])
    return [gen_case(rng, i, tier, focus) for i in range(n)]


def nontrivial(case, obs):
    """non-trivial: updates >= 2 distinct items and queries at least one; or forks a non-empty sketch and
    compares the twins; or feeds at least 3 images to deserialize of which one is accepted and one rejected"""
    items = {a[1] for (c, a) in case.ops if c in (1, 12) and a[2] > 0}
    if len(items) >= 2 and any(c in (2, 13) for (c, a) in case.ops):
        return True
    if any(c == 10 for (c, a) in case.ops) and items:
        return True
    if case.tag.startswith("cm-foreign"):
        return [1] in [o for (c, a), o in zip(case.ops, obs or []) if c == 9] and any(c == 3 for (c, a) in case.ops)
    if case.tag.startswith("cm-extreme"):
        return any(c in (11, 14) for (c, a) in case.ops) and any(c in (1, 12) and a[2] > 0 for (c, a) in case.ops)
    res = [o for (c, a), o in zip(case.ops, obs or []) if c == 9]
    return len(res) >= 3 and [1] in res and [-998] in res


def kf_empty_flag_alloc(case):
    """known finding C14-countmin-empty-alloc: every out-of-proportion allocation (-997) in the case comes from a
    deserialize op whose image has the EMPTY flag set (the table of an empty sketch is inherent in the format)"""
    hits = [(c, a) for (c, a), o in zip(case.ops, case.obs or []) if o[:1] == [-997]]
    return bool(hits) and all(c == 9 and len(a) >= 5 and (a[1 + 3] & 1) for c, a in hits)
