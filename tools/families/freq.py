"""Case generator for the Frequent Items family (C07; FI legs of the codec properties).

ops (see harness/src/freq.rs):
  0 new slot max_map_size | 1 update slot item weight hash | 2 query slot item hash | 3 stats slot
  4 merge dst src | 5 frequent slot error_type mode threshold | 6 serialize slot | 7 roundtrip src dst
  8 deserialize slot k hashes.. bytes.. | 9 reset slot | 10 epsilon slot
The hash of an item (MurmurHash3 x64 128 of its 8 LE bytes, seed 9001, first word) is computed here
with tools/pyref.py and handed to the model; the crate hashes the item itself.
"""
import struct
from common import Case
import pyref

FAMILY = "freq"
CORR = "Freq"              # Coq module DS.Corr.Freq
FAMNUM = 4
ORACLES = {"prop_ok": 0}
GEN_MODULES = [("GenFreq",
                ["frequencies/sketch.rs", "frequencies/reverse_purge_item_hash_map.rs", "frequencies/serialization.rs"],
                ["LG_MIN_MAP_SIZE", "SAMPLE_SIZE", "EPSILON_FACTOR", "LOAD_FACTOR_NUMERATOR", "LOAD_FACTOR_DENOMINATOR",
                 "LOAD_FACTOR", "DRIFT_LIMIT", "MAX_SAMPLE_SIZE", "SERIAL_VERSION", "PREAMBLE_LONGS_EMPTY",
                 "PREAMBLE_LONGS_NONEMPTY", "EMPTY_FLAG_MASK"])]
OPNAMES = {0: "new", 1: "update", 2: "query", 3: "stats", 4: "merge", 5: "frequent_items", 6: "serialize",
           7: "roundtrip", 8: "deserialize", 9: "reset", 10: "epsilon"}

SEED = 9001
SCRATCH = 7                 # slot that only receives round trips / deserialized images
_hcache = {}


def h(item):
    v = _hcache.get(item)
    if v is None:
        v = pyref.murmur3_x64_128(pyref.le8(item), SEED)[0]
        _hcache[item] = v
    return v


def fresh_items(rng, n, style):
    """n distinct i64 items"""
    out, seen = [], set()
    base = rng.randint(-1000, 1000)
    while len(out) < n:
        if style == "small":
            x = base + len(seen)
        elif style == "mixed":
            x = rng.choice([rng.randint(-60, 60), rng.getrandbits(64) - 2**63, 2**63 - 1 - rng.randrange(4),
                            -2**63 + rng.randrange(4), rng.getrandbits(20)])
        else:
            x = rng.getrandbits(64) - 2**63
        if x not in seen:
            seen.add(x); out.append(x)
    return out


def zipf_index(rng, n):
    return min(n - 1, int(rng.paretovariate(1.05)) - 1)


def stream(rng, kind, dom, n, wmax):
    """list of (item, weight)"""
    out = []
    if kind == "distinct":            # every item once, all with the same weight: a purge removes every counter
        w = rng.choice([1, 1, 5, wmax])
        return [(x, w) for x in dom[:n]]
    if kind == "equal":               # round robin: all counters are equal whenever a purge happens
        w = rng.choice([1, 2, wmax])
        return [(dom[i % len(dom)], w) for i in range(n)]
    for _ in range(n):
        if kind == "uniform":
            x = rng.choice(dom)
        else:                         # zipf
            x = dom[zipf_index(rng, len(dom))]
        w = rng.choice([1, 1, 1, 2, 3, rng.randint(1, 10), rng.randint(1, wmax)])
        if rng.random() < 0.02:
            w = 0
        out.append((x, w))
    return out


def final_ops(rng, slots, dom, unseen):
    ops = []
    for s in slots:
        ops.append((3, [s]))
        for x in dom:
            ops.append((2, [s, x, h(x)]))
        for x in unseen:
            ops.append((2, [s, x, h(x)]))
        ops.append((5, [s, 0, 0, 0]))
        ops.append((5, [s, 1, 0, 0]))
        ops.append((6, [s]))
    return ops


def probe_ops(rng, s, dom, thr_hint):
    """a few observations in the middle of a history"""
    r = rng.random()
    if r < 0.45:
        x = rng.choice(dom)
        return [(2, [s, x, h(x)])]
    if r < 0.60:
        return [(3, [s])]
    if r < 0.75:
        return [(5, [s, rng.randrange(2), 0, 0])]
    if r < 0.88:
        return [(5, [s, rng.randrange(2), 1, rng.choice([0, 1, 2, thr_hint, rng.randint(0, max(1, 2 * thr_hint))])])]
    if r < 0.94:
        return [(6, [s])]
    if r < 0.98:
        return [(7, [s, SCRATCH]), (6, [SCRATCH]), (3, [SCRATCH])]
    return [(10, [s])]


def image(lg_max, lg_cur, weight, offset, pairs, empty_form=None):
    if empty_form == "rust6":
        return [1, 1, 10, lg_max, lg_cur, 5]
    if empty_form == "java8":
        return [1, 1, 10, lg_max, lg_cur, 5, 0, 0]
    b = bytes([4, 1, 10, lg_max, lg_cur, 0, 0, 0]) + struct.pack("<IIQQ", len(pairs), 0, weight, offset)
    for _, c in pairs:
        b += struct.pack("<Q", c)
    for x, _ in pairs:
        b += struct.pack("<q", x)
    return list(b)


def gen_single(rng, cid, size, kind, tier):
    """one sketch, one stream, observations in between and a full sweep at the end"""
    cap = max(size, 8) * 3 // 4
    if kind in ("distinct", "equal"):
        ndom = cap + rng.choice([1, 2, cap // 2 + 1, cap + 3]) if kind == "distinct" else cap + rng.choice([0, 1, 1, 3])
        n = ndom if kind == "distinct" else ndom * rng.choice([1, 2, 3]) + rng.randrange(ndom)
    else:
        ndom = rng.choice([max(2, cap // 2), cap + 1, 2 * cap, 3 * cap + 7])
        n = rng.choice([cap, 2 * cap + 5, 4 * cap]) if size <= 256 else rng.choice([2 * cap + 5, 3 * cap])
    style = rng.choice(["small", "mixed", "random"]) if ndom < 200 else rng.choice(["small", "random"])
    dom = fresh_items(rng, ndom, style)
    wmax = rng.choice([3, 10, 1000, 2**33])
    st = stream(rng, kind, dom, n, wmax)
    ops = [(0, [0, size])]
    every = max(3, n // 12)
    for i, (x, w) in enumerate(st):
        ops.append((1, [0, x, w, h(x)]))
        if i % every == every - 1:
            ops += probe_ops(rng, 0, dom, wmax)
    if rng.random() < 0.3:
        ops.append((9, [0]))
        for (x, w) in st[:rng.randrange(1, min(len(st), 2 * cap + 3) + 1)]:
            ops.append((1, [0, x, w, h(x)]))
    unseen = [x for x in (123456789, -987654321, 2**62 + 1) if x not in set(dom)]
    ops += final_ops(rng, [0], dom, unseen)
    return Case(cid, [], ops, tag="fi-single-%s-%d" % (kind, size))


def gen_merge(rng, cid, sizes, tier, big=False):
    """a merge tree (DAG) of len(sizes) sketches, updates continuing after merges"""
    k = len(sizes)
    caps = [max(s, 8) * 3 // 4 for s in sizes]
    total_dom = rng.choice([max(4, max(caps) // 2), max(caps) + 1, 2 * max(caps) + 3])
    dom = fresh_items(rng, total_dom, rng.choice(["small", "mixed", "random"]) if total_dom < 200 else "random")
    overlap = rng.random() < 0.6
    ops = [(0, [i, sizes[i]]) for i in range(k)]
    wmax = rng.choice([3, 10, 1000])
    for i in range(k):
        kind = rng.choice(["uniform", "zipf", "distinct", "equal", "none"])
        if kind == "none":
            continue
        sub = dom if overlap else dom[i::k] or dom
        if kind in ("distinct", "equal"):
            # make this partner's last purge remove every counter (the D6 situation) when the domain allows it
            sub = list(sub)
            rng.shuffle(sub)
            extra = fresh_items(rng, caps[i] + 1, "random")
            src = (sub + extra)[:caps[i] + 1] if kind == "distinct" else (sub + extra)[:caps[i] + rng.choice([0, 1])]
            n = len(src) if kind == "distinct" else len(src) * rng.choice([1, 2]) + rng.choice([0, 0, 1])
            st = stream(rng, kind, src, n, wmax)
            dom = list(dict.fromkeys(dom + src))
        else:
            n = rng.choice([caps[i] // 2 + 1, caps[i] + 2, 3 * caps[i]]) if not big else rng.choice([caps[i] + 2, 2 * caps[i]])
            st = stream(rng, kind, sub, n, wmax)
        for (x, w) in st:
            ops.append((1, [i, x, w, h(x)]))
        if rng.random() < 0.5:
            ops.append((3, [i]))
    nmerge = rng.randint(k - 1, 2 * k)
    for _ in range(nmerge):
        d, s = rng.randrange(k), rng.randrange(k)
        if d == s and rng.random() < 0.8:
            continue
        ops.append((4, [d, s]))
        ops.append((3, [d]))
        if rng.random() < 0.5:
            ops += probe_ops(rng, d, dom, wmax)
        if rng.random() < 0.4:
            for (x, w) in stream(rng, rng.choice(["uniform", "zipf"]), dom, rng.choice([1, 5, caps[d] // 2 + 1]), wmax):
                ops.append((1, [d, x, w, h(x)]))
    unseen = [x for x in (123456789, -987654321) if x not in set(dom)]
    qdom = dom if len(dom) * k <= 6000 else rng.sample(dom, 6000 // k)
    ops += final_ops(rng, list(range(k)), qdom, unseen)
    eq = "eq" if len(set(sizes)) == 1 else "mixed"
    return Case(cid, [], ops, tag="fi-merge-%s-%d" % (eq, k))


def gen_d6(rng, cid, size):
    """the minimal purge-emptied-partner merge (finding c07-fi-merge-purge-emptied, fixed)"""
    cap = max(size, 8) * 3 // 4
    items = fresh_items(rng, cap + 2, "small")
    w = rng.choice([1, 5])
    ops = [(0, [0, size]), (0, [1, size]), (1, [1, items[-1], 1, h(items[-1])])]
    for x in items[:cap + 1]:
        ops.append((1, [0, x, w, h(x)]))
    ops += [(3, [0]), (6, [0]), (7, [0, SCRATCH]), (4, [1, 0]), (3, [1])]
    ops += final_ops(rng, [0, 1], items, [424242])
    return Case(cid, [], ops, tag="fi-d6-%d" % size)


def gen_images(rng, cid):
    """deserialize hand-built images (valid, both empty forms, truncated, wrong header) and keep using the result"""
    ops = []
    lg_max = rng.choice([3, 4, 5, 6])
    lg_cur = rng.choice([3, min(4, lg_max), lg_max])
    n = rng.choice([0, 1, 3, (1 << lg_cur) * 3 // 4, (1 << lg_max) * 3 // 4 + 2])
    items = fresh_items(rng, max(n, 1) + 3, "mixed")
    pairs = [(x, rng.choice([1, 2, 7, 0 if rng.random() < 0.1 else 3])) for x in items[:n]]
    img = image(lg_max, lg_cur, sum(c for _, c in pairs) + rng.choice([0, 5]), rng.choice([0, 0, 4]), pairs)
    variants = [img, image(lg_max, lg_cur, 0, 0, [], "rust6"), image(lg_max, lg_cur, 0, 0, [], "java8")]
    bad = list(img)
    r = rng.random()
    if r < 0.3 and len(bad) > 9:
        bad = bad[:rng.randrange(6, len(bad))]
    elif r < 0.5:
        bad[rng.choice([0, 1, 2, 5])] ^= rng.choice([1, 2, 4, 64])
    elif r < 0.7:
        bad[3], bad[4] = bad[4] - 1 if bad[4] > 0 else 0, bad[3] + 1
    variants.append(bad)
    rng.shuffle(variants)
    ops.append((0, [0, 8]))
    for v in variants:
        hs = [h(x) for x, _ in pairs]
        ops.append((8, [0, len(hs)] + hs + v))
        ops += [(3, [0]), (6, [0])]
    # keep the loaded sketch busy
    ops2 = [(8, [0, len(pairs)] + [h(x) for x, _ in pairs] + img), (3, [0]), (6, [0])]
    for x in items:
        ops2.append((1, [0, x, rng.randint(1, 4), h(x)]))
    ops2 += final_ops(rng, [0], items, [])
    ops2 += [(0, [2, 16]), (4, [2, 0]), (3, [2]), (6, [2])]
    return Case(cid, [], ops + ops2, tag="fi-images")


def gen_badnew(rng, cid):
    size = rng.choice([0, 3, 12, 100, 1, 2, 4])
    ops = [(0, [0, size]), (3, [0]), (1, [0, 5, 2, h(5)]), (2, [0, 5, h(5)]), (6, [0])]
    return Case(cid, [], ops, tag="fi-new-%d" % size)


SIZES_SMALL = [8, 8, 16, 16, 32, 64]
SIZES_MED = [128, 256]
SIZES_BIG = [512, 1024, 2048]
KINDS = ["uniform", "zipf", "distinct", "equal"]


def gen(rng, tier, n=None, focus=None):
    n = n or (70 if tier == "quick" else 500)
    cases = []
    # fixed skeleton: every size with every stream kind appears at least once in the thorough tier;
    # in the quick tier every size appears and the big sizes get the purge-heavy kinds
    plan = []
    for size in SIZES_BIG:
        kinds = KINDS if tier == "thorough" else [rng.choice(["uniform", "zipf"]), rng.choice(["distinct", "equal"])]
        plan += [("single", size, k) for k in kinds]
    plan += [("merge", [1024, 1024], None), ("merge", [rng.choice([512, 2048]), 256, 512], None)]
    for size in SIZES_MED:
        plan += [("single", size, k) for k in (KINDS if tier == "thorough" else rng.sample(KINDS, 2))]
    plan += [("d6", s, None) for s in (8, rng.choice([16, 32, 64]))]
    plan += [("images", None, None), ("badnew", None, None)]
    nskel = len(plan)
    while len(plan) < n:
        r = rng.random()
        if r < 0.40:
            plan.append(("single", rng.choice(SIZES_SMALL), rng.choice(KINDS)))
        elif r < 0.85:
            k = rng.randint(2, 5)
            if rng.random() < 0.5:
                sizes = [rng.choice(SIZES_SMALL + [128])] * k
            else:
                sizes = [rng.choice(SIZES_SMALL + [128, 256]) for _ in range(k)]
            plan.append(("merge", sizes, None))
        elif r < 0.90:
            plan.append(("d6", rng.choice([8, 16, 32, 128]), None))
        elif r < 0.97:
            plan.append(("images", None, None))
        else:
            plan.append(("badnew", None, None))
    plan = plan[:n]
    # small cases first (a failing small case gives a small replay), the fixed big skeleton last
    nfixed = min(len(plan), nskel)
    plan = plan[nfixed:] + plan[:nfixed]
    for i, (what, a, b) in enumerate(plan):
        if what == "single":
            cases.append(gen_single(rng, i, a, b, tier))
        elif what == "merge":
            cases.append(gen_merge(rng, i, a, tier, big=max(a) >= 512))
        elif what == "d6":
            cases.append(gen_d6(rng, i, a))
        elif what == "images":
            cases.append(gen_images(rng, i))
        else:
            cases.append(gen_badnew(rng, i))
    return cases


def nontrivial(case, obs):
    """at least 2 distinct items updated with positive weight and at least one bound query"""
    items = {a[1] for (c, a) in case.ops if c == 1 and a[2] > 0}
    return len(items) >= 2 and any(c == 2 for (c, a) in case.ops)
