"""Case generator for the Frequent Items family (C07; FI legs of the codec properties).

ops (see harness/src/freq.rs):
  0 new slot max_map_size | 1 update slot item weight hash | 2 query slot item hash | 3 stats slot
  4 merge dst src | 5 frequent slot error_type mode threshold | 6 serialize slot | 7 roundtrip src dst
  8 deserialize slot k hashes.. bytes.. | 9 reset slot | 10 epsilon slot
  11 parse slot k hashes.. bytes.. (slot cleared first, allocation accounted) | 12 canon slot (image decoded, pairs sorted)
  20..25 = 0..5 on FrequentItemsSketch<String>: an item is `id` (the model's key) followed, at the end of the arguments, by its
  UTF-8 bytes (what the crate gets); its hash is murmur(bytes + 0xff): std hashes a str with two writes
focus (legs of the cross-cutting properties): "codec" C11, "layout" C12, "foreign" C13, "malformed" C14,
  "extremes" C17, "size" C18; "drift" / "drift-image": the DRIFT_LIMIT debug assertion (known findings); None = C07.
The hash of an item (MurmurHash3 x64 128 of its 8 LE bytes, seed 9001, first word) is computed here
with tools/pyref.py and handed to the model; the crate hashes the item itself.
"""
import os
import struct
from common import Case
import pyref

FAMILY = "freq"
CORR = "Freq"              # Coq module DS.Corr.Freq
FAMNUM = 4
ORACLES = {"prop_ok": 0, "prop_roundtrip": 1, "prop_layout": 2, "no_panic": 3, "prop_foreign": 4, "prop_generic": 5}
GEN_MODULES = [("GenFreq",
                ["frequencies/sketch.rs", "frequencies/reverse_purge_item_hash_map.rs", "frequencies/serialization.rs"],
                ["LG_MIN_MAP_SIZE", "SAMPLE_SIZE", "EPSILON_FACTOR", "LOAD_FACTOR_NUMERATOR", "LOAD_FACTOR_DENOMINATOR",
                 "LOAD_FACTOR", "DRIFT_LIMIT", "MAX_SAMPLE_SIZE", "SERIAL_VERSION", "PREAMBLE_LONGS_EMPTY",
                 "PREAMBLE_LONGS_NONEMPTY", "EMPTY_FLAG_MASK"])]
OPNAMES = {0: "new", 1: "update", 2: "query", 3: "stats", 4: "merge", 5: "frequent_items", 6: "serialize",
           7: "roundtrip", 8: "deserialize", 9: "reset", 10: "epsilon", 11: "parse", 12: "canon",
           31: "serialize_str", 32: "parse_str", 33: "roundtrip_str", 34: "use_str",
           40: "new_u64", 41: "update_u64", 42: "query_u64", 43: "stats_u64", 44: "merge_u64", 45: "frequent_items_u64", 46: "serialize_u64",
           47: "roundtrip_u64", 48: "deserialize_u64", 49: "reset_u64", 50: "epsilon_u64", 51: "parse_u64", 52: "canon_u64",
           20: "new_str", 21: "update_str", 22: "query_str", 23: "stats_str", 24: "merge_str", 25: "frequent_items_str"}

SEED = 9001
SCRATCH = 7                 # slot that only receives round trips / deserialized images
_hcache = {}


def h(item):
    v = _hcache.get(item)
    if v is None:
        v = pyref.murmur3_x64_128(pyref.le8(item), SEED)[0]
        _hcache[item] = v
    return v


def fresh_items(rng, n, style):
    """n distinct i64 items"""
    out, seen = [], set()
    base = rng.randint(-1000, 1000)
    while len(out) < n:
        if style == "small":
            x = base + len(seen)
        elif style == "mixed":
            x = rng.choice([rng.randint(-60, 60), rng.getrandbits(64) - 2**63, 2**63 - 1 - rng.randrange(4),
                            -2**63 + rng.randrange(4), rng.getrandbits(20)])
        else:
            x = rng.getrandbits(64) - 2**63
        if x not in seen:
            seen.add(x); out.append(x)
    return out


def zipf_index(rng, n):
    return min(n - 1, int(rng.paretovariate(1.05)) - 1)


def stream(rng, kind, dom, n, wmax):
    """list of (item, weight)"""
    out = []
    if kind == "distinct":            # every item once, all with the same weight: a purge removes every counter
        w = rng.choice([1, 1, 5, wmax])
        return [(x, w) for x in dom[:n]]
    if kind == "equal":               # round robin: all counters are equal whenever a purge happens
        w = rng.choice([1, 2, wmax])
        return [(dom[i % len(dom)], w) for i in range(n)]
    for _ in range(n):
        if kind == "uniform":
            x = rng.choice(dom)
        else:                         # zipf
            x = dom[zipf_index(rng, len(dom))]
        w = rng.choice([1, 1, 1, 2, 3, rng.randint(1, 10), rng.randint(1, wmax)])
        if rng.random() < 0.02:
            w = 0
        out.append((x, w))
    return out


def final_ops(rng, slots, dom, unseen):
    ops = []
    for s in slots:
        ops.append((3, [s]))
        for x in dom:
            ops.append((2, [s, x, h(x)]))
        for x in unseen:
            ops.append((2, [s, x, h(x)]))
        ops.append((5, [s, 0, 0, 0]))
        ops.append((5, [s, 1, 0, 0]))
        ops.append((6, [s]))
    return ops


def probe_ops(rng, s, dom, thr_hint):
    """a few observations in the middle of a history"""
    r = rng.random()
    if r < 0.45:
        x = rng.choice(dom)
        return [(2, [s, x, h(x)])]
    if r < 0.60:
        return [(3, [s])]
    if r < 0.75:
        return [(5, [s, rng.randrange(2), 0, 0])]
    if r < 0.88:
        return [(5, [s, rng.randrange(2), 1, rng.choice([0, 1, 2, thr_hint, rng.randint(0, max(1, 2 * thr_hint))])])]
    if r < 0.94:
        return [(6, [s])]
    if r < 0.98:
        return [(7, [s, SCRATCH]), (6, [SCRATCH]), (3, [SCRATCH])]
    return [(10, [s])]


def image(lg_max, lg_cur, weight, offset, pairs, empty_form=None):
    if empty_form == "rust6":       # what serialize() wrote before fix 9f33b93: rejected by every reader
        return [1, 1, 10, lg_max, lg_cur, 5]
    if empty_form == "java8":
        return [1, 1, 10, lg_max, lg_cur, 5, 0, 0]
    b = bytes([4, 1, 10, lg_max, lg_cur, 0, 0, 0]) + struct.pack("<IIQQ", len(pairs), 0, weight, offset)
    for _, c in pairs:
        b += struct.pack("<Q", c)
    for x, _ in pairs:
        b += struct.pack("<q", x)
    return list(b)


def gen_single(rng, cid, size, kind, tier):
    """one sketch, one stream, observations in between and a full sweep at the end"""
    cap = max(size, 8) * 3 // 4
    if kind in ("distinct", "equal"):
        ndom = cap + rng.choice([1, 2, cap // 2 + 1, cap + 3]) if kind == "distinct" else cap + rng.choice([0, 1, 1, 3])
        n = ndom if kind == "distinct" else ndom * rng.choice([1, 2, 3]) + rng.randrange(ndom)
    else:
        ndom = rng.choice([max(2, cap // 2), cap + 1, 2 * cap, 3 * cap + 7])
        n = rng.choice([cap, 2 * cap + 5, 4 * cap]) if size <= 256 else rng.choice([2 * cap + 5, 3 * cap])
    style = rng.choice(["small", "mixed", "random"]) if ndom < 200 else rng.choice(["small", "random"])
    dom = fresh_items(rng, ndom, style)
    wmax = rng.choice([3, 10, 1000, 2**33])
    st = stream(rng, kind, dom, n, wmax)
    ops = [(0, [0, size])]
    every = max(3, n // 12)
    for i, (x, w) in enumerate(st):
        ops.append((1, [0, x, w, h(x)]))
        if i % every == every - 1:
            ops += probe_ops(rng, 0, dom, wmax)
    if rng.random() < 0.3:
        ops.append((9, [0]))
        for (x, w) in st[:rng.randrange(1, min(len(st), 2 * cap + 3) + 1)]:
            ops.append((1, [0, x, w, h(x)]))
    unseen = [x for x in (123456789, -987654321, 2**62 + 1) if x not in set(dom)]
    ops += final_ops(rng, [0], dom, unseen)
    return Case(cid, [], ops, tag="fi-single-%s-%d" % (kind, size))


def gen_merge(rng, cid, sizes, tier, big=False):
    """a merge tree (DAG) of len(sizes) sketches, updates continuing after merges"""
    k = len(sizes)
    caps = [max(s, 8) * 3 // 4 for s in sizes]
    total_dom = rng.choice([max(4, max(caps) // 2), max(caps) + 1, 2 * max(caps) + 3])
    dom = fresh_items(rng, total_dom, rng.choice(["small", "mixed", "random"]) if total_dom < 200 else "random")
    overlap = rng.random() < 0.6
    ops = [(0, [i, sizes[i]]) for i in range(k)]
    wmax = rng.choice([3, 10, 1000])
    for i in range(k):
        kind = rng.choice(["uniform", "zipf", "distinct", "equal", "none"])
        if kind == "none":
            continue
        sub = dom if overlap else dom[i::k] or dom
        if kind in ("distinct", "equal"):
            # make this partner's last purge remove every counter (the D6 situation) when the domain allows it
            sub = list(sub)
            rng.shuffle(sub)
            extra = fresh_items(rng, caps[i] + 1, "random")
            src = (sub + extra)[:caps[i] + 1] if kind == "distinct" else (sub + extra)[:caps[i] + rng.choice([0, 1])]
            n = len(src) if kind == "distinct" else len(src) * rng.choice([1, 2]) + rng.choice([0, 0, 1])
            st = stream(rng, kind, src, n, wmax)
            dom = list(dict.fromkeys(dom + src))
        else:
            n = rng.choice([caps[i] // 2 + 1, caps[i] + 2, 3 * caps[i]]) if not big else rng.choice([caps[i] + 2, 2 * caps[i]])
            st = stream(rng, kind, sub, n, wmax)
        for (x, w) in st:
            ops.append((1, [i, x, w, h(x)]))
        if rng.random() < 0.5:
            ops.append((3, [i]))
    nmerge = rng.randint(k - 1, 2 * k)
    for _ in range(nmerge):
        d, s = rng.randrange(k), rng.randrange(k)
        if d == s and rng.random() < 0.8:
            continue
        ops.append((4, [d, s]))
        ops.append((3, [d]))
        if rng.random() < 0.5:
            ops += probe_ops(rng, d, dom, wmax)
        if rng.random() < 0.4:
            for (x, w) in stream(rng, rng.choice(["uniform", "zipf"]), dom, rng.choice([1, 5, caps[d] // 2 + 1]), wmax):
                ops.append((1, [d, x, w, h(x)]))
    unseen = [x for x in (123456789, -987654321) if x not in set(dom)]
    qdom = dom if len(dom) * k <= 6000 else rng.sample(dom, 6000 // k)
    ops += final_ops(rng, list(range(k)), qdom, unseen)
    eq = "eq" if len(set(sizes)) == 1 else "mixed"
    return Case(cid, [], ops, tag="fi-merge-%s-%d" % (eq, k))


def gen_d6(rng, cid, size):
    """the minimal purge-emptied-partner merge (finding c07-fi-merge-purge-emptied, fixed)"""
    cap = max(size, 8) * 3 // 4
    items = fresh_items(rng, cap + 2, "small")
    w = rng.choice([1, 5])
    ops = [(0, [0, size]), (0, [1, size]), (1, [1, items[-1], 1, h(items[-1])])]
    for x in items[:cap + 1]:
        ops.append((1, [0, x, w, h(x)]))
    ops += [(3, [0]), (6, [0]), (7, [0, SCRATCH]), (4, [1, 0]), (3, [1])]
    ops += final_ops(rng, [0, 1], items, [424242])
    return Case(cid, [], ops, tag="fi-d6-%d" % size)


def gen_heavy(rng, cid, size):
    """cap+1 distinct items, all of one weight except ONE heavier item, the heavy item at every (up to 7) insertion
    position, one sketch per position: the purge's sample (the first L active slots in table order) then consists of
    equal counters while a larger counter may sit in the unsampled part of the table"""
    cap = max(size, 8) * 3 // 4
    if rng.random() < 0.5:
        # skewed variant: a fifth to two fifths of the cap+1 items are heavy, a fresh item set per sketch: the single purge
        # must subtract (an estimate of) the median counter, which is light, or maximum_error exceeds epsilon * N
        nsk = 7
        ops = [(0, [i, size]) for i in range(nsk)]
        dom = []
        w = rng.choice([1, 1, 2])
        heavy = w * rng.choice([100, 1000])
        for i in range(nsk):
            its = fresh_items(rng, cap + 1, rng.choice(["small", "random"]))
            every = rng.choice([3, 4, 5])
            off = rng.randrange(every)
            for j, x in enumerate(its):
                ops.append((1, [i, x, heavy if j % every == off else w, h(x)]))
            ops.append((3, [i]))
            dom += its[:3] + its[-2:]
        ops += final_ops(rng, list(range(nsk)), dom, [31337])
        return Case(cid, [], ops, tag="fi-skew-%d" % size)
    items = fresh_items(rng, cap + 1, rng.choice(["small", "random"]))
    w = rng.choice([1, 1, 3])
    heavy = w + rng.choice([1, 24, 1000])
    positions = list(range(cap + 1))
    rng.shuffle(positions)
    positions = sorted(positions[:7])
    ops = [(0, [i, size]) for i in range(len(positions))]
    for i, p in enumerate(positions):
        for j, x in enumerate(items):
            ops.append((1, [i, x, heavy if j == p else w, h(x)]))
        ops.append((3, [i]))
    ops += final_ops(rng, list(range(len(positions))), items, [31337])
    return Case(cid, [], ops, tag="fi-heavy-%d" % size)


def gen_images(rng, cid):
    """deserialize hand-built images (valid, both empty forms, truncated, wrong header) and keep using the result"""
    ops = []
    lg_max = rng.choice([3, 4, 5, 6])
    lg_cur = rng.choice([3, min(4, lg_max), lg_max])
    n = rng.choice([0, 1, 3, (1 << lg_cur) * 3 // 4, (1 << lg_max) * 3 // 4 + 2])
    items = fresh_items(rng, max(n, 1) + 3, "mixed")
    pairs = [(x, rng.choice([1, 2, 7, 0 if rng.random() < 0.1 else 3])) for x in items[:n]]
    img = image(lg_max, lg_cur, sum(c for _, c in pairs) + rng.choice([0, 5]), rng.choice([0, 0, 4]), pairs)
    variants = [img, image(lg_max, lg_cur, 0, 0, [], "rust6"), image(lg_max, lg_cur, 0, 0, [], "java8")]
    bad = list(img)
    r = rng.random()
    if r < 0.3 and len(bad) > 9:
        bad = bad[:rng.randrange(6, len(bad))]
    elif r < 0.5:
        bad[rng.choice([0, 1, 2, 5])] ^= rng.choice([1, 2, 4, 64])
    elif r < 0.7:
        bad[3], bad[4] = bad[4] - 1 if bad[4] > 0 else 0, bad[3] + 1
    variants.append(bad)
    rng.shuffle(variants)
    ops.append((0, [0, 8]))
    for v in variants:
        hs = [h(x) for x, _ in pairs]
        ops.append((8, [0, len(hs)] + hs + v))
        ops += [(3, [0]), (6, [0])]
    # keep the loaded sketch busy
    ops2 = [(8, [0, len(pairs)] + [h(x) for x, _ in pairs] + img), (3, [0]), (6, [0])]
    for x in items:
        ops2.append((1, [0, x, rng.randint(1, 4), h(x)]))
    ops2 += final_ops(rng, [0], items, [])
    ops2 += [(0, [2, 16]), (4, [2, 0]), (3, [2]), (6, [2])]
    return Case(cid, [], ops + ops2, tag="fi-images")


# ---- String items: the same sketch over FrequentItemsSketch<String> (ops 20..25); the model keys an item by its id and
# ---- gets the hash of what std feeds the hasher for a str: the UTF-8 bytes, then one 0xff byte (two writes)
_shcache = {}


def hs(b):
    v = _shcache.get(b)
    if v is None:
        v = pyref.murmur3_x64_128(b + b"\xff", SEED)[0]
        _shcache[b] = v
    return v


STR_LENS = [0, 1, 7, 8, 9, 15, 16, 17, 23, 24, 31, 32, 33, 47, 48, 64]


def fresh_strings(rng, n):
    """n distinct strings (as UTF-8 bytes) whose lengths sit on and around the hasher's 16-byte block boundaries"""
    out, seen = [], set()
    while len(out) < n:
        ln = rng.choice(STR_LENS) if rng.random() < 0.8 else rng.randrange(0, 70)
        chars = [rng.choice("abcdefghijklmnopqrstuvwxyz0123456789 _-/") for _ in range(ln)]
        if ln >= 2 and rng.random() < 0.2:
            chars[rng.randrange(ln - 1)] = rng.choice(["é", "ß", "中"])       # multi-byte characters
        b = "".join(chars).encode("utf-8")
        if b not in seen:
            seen.add(b); out.append(b)
    return out


def gen_strings(rng, cid, tier):
    """String items: updates, queries of every item, stats, frequent_items, a merge; purges included"""
    size = rng.choice([8, 8, 16, 32])
    cap = cap_of(size)
    nd = rng.choice([cap, cap + 2, 2 * cap])
    dom = fresh_strings(rng, nd)
    ids = {b: i + 1 for i, b in enumerate(dom)}
    ops = [(20, [0, size]), (20, [1, rng.choice([size, 8])])]
    n = rng.choice([cap + 1, 3 * cap, 5 * cap])
    for i in range(n):
        b = dom[zipf_index(rng, nd)] if rng.random() < 0.5 else rng.choice(dom)
        s = 0 if rng.random() < 0.8 else 1
        w = rng.choice([1, 1, 2, 5])
        ops.append((21, [s, ids[b], w, hs(b)] + list(b)))
        if i % 9 == 8:
            q = rng.choice(dom)
            ops.append((22, [s, ids[q], hs(q)] + list(q)))
    ops += [(23, [0]), (23, [1]), (24, [0, 1]), (23, [0])]
    unseen = b"never seen before, longer than two blocks of the hasher"
    for s in (0, 1):
        for b in dom:
            ops.append((22, [s, ids[b], hs(b)] + list(b)))
        ops.append((22, [s, 10**6, hs(unseen)] + list(unseen)))
        ops += [(25, [s, 0, 0, 0]), (25, [s, 1, 0, 0]), (25, [s, 1, 1, 2]), (23, [s])]
    return Case(cid, [], ops, tag="fi-strings-%d" % size)


def gen_eps2048(rng, cid, chosen):
    """the witness of c07_epsilon_2048_refuted replayed on the crate: map size 2048, 1537 distinct items, 514 of weight 100
    and 1023 of weight 1; the 1537th insert purges.  chosen=False: the items 0..1536 of the Coq witness (the crate's
    table order decides the sample).  chosen=True: items chosen for their hashes so that the 514 heavy items come first in
    table order -- the sample (first 1024 counters) is then the one of the witness: 514 x 100 and 510 x 1, median 100,
    maximum_error 100 > 3.5/2048 * 52423 = 89.6 (and 512 * 100 <= 52423, the bound that does hold from 2048 on)."""
    if chosen:
        heavy, light, x = [], [], 0
        while len(heavy) < 514 or len(light) < 1023:
            home = h(x) & 2047
            if home < 700 and len(heavy) < 514:
                heavy.append(x)
            elif 700 <= home < 2040 and len(light) < 1023:
                light.append(x)
            x += 1
    else:
        heavy, light = list(range(514)), list(range(514, 1537))
    ops = [(0, [0, 2048])]
    for x in heavy:
        ops.append((1, [0, x, 100, h(x)]))
    for x in light[:-1]:
        ops.append((1, [0, x, 1, h(x)]))
    ops += [(3, [0]), (1, [0, light[-1], 1, h(light[-1])]), (3, [0])]
    for x in (heavy[0], heavy[-1], light[0], light[-1], 10**9 + 7):
        ops.append((2, [0, x, h(x)]))
    ops += [(5, [0, 0, 0, 0]), (5, [0, 1, 0, 0]), (12, [0])]
    return Case(cid, [], ops, tag="fi-eps2048-%s" % ("chosen" if chosen else "literal"))


def kf_never(case):
    """C07-freq-epsilon-2048 documents a deviation from the crate's documentation that the property text does not claim:
    the oracle checks the bound that does hold (maximum_error <= N/512), so no oracle failure is ever excused by it"""
    return False


def gen_badnew(rng, cid):
    size = rng.choice([0, 3, 12, 100, 1, 2, 4])
    ops = [(0, [0, size]), (3, [0]), (1, [0, 5, 2, h(5)]), (2, [0, 5, h(5)]), (6, [0])]
    return Case(cid, [], ops, tag="fi-new-%d" % size)


# 1, 2, 4: constructor arguments below the minimal map size (clamped to 8 slots; lg_max_map_size must be clamped too)
SIZES_SMALL = [8, 8, 16, 16, 32, 64, 1, 2, 4]
SIZES_MED = [128, 256]
SIZES_BIG = [512, 1024, 2048]
KINDS = ["uniform", "zipf", "distinct", "equal"]


# ======================================================================================
#  legs of the cross-cutting properties
# ======================================================================================
def cap_of(size):
    return max(size, 8) * 3 // 4


def i64(u):
    return u - 2**64 if u >= 2**63 else u


def ref_parse(b):
    """reference reading of an image the way the (repaired) reader validates it: returns None when it is rejected,
    else (lg_max, lg_cur, weight, offset, [(item, count)]).  Used by the generator only (hashes of the image's items,
    keeping would-be-accepted huge tables out of the runs, classifying known findings)."""
    if len(b) < 8:
        return None
    pre, ver, fam, lgm, lgc, flags = b[0] & 0x3F, b[1], b[2], b[3], b[4], b[5]
    if fam != 10 or ver != 1 or lgc > lgm or lgm > 62:
        return None
    if flags & 5:
        return (lgm, lgc, 0, 0, []) if pre == 1 else None
    if pre != 4 or len(b) < 32:
        return None
    n = int.from_bytes(bytes(b[8:12]), "little")
    w = int.from_bytes(bytes(b[16:24]), "little"); off = int.from_bytes(bytes(b[24:32]), "little")
    if (len(b) - 32) // 8 < n or n > (1 << max(lgc, 3)) // 4 * 3:
        return None
    vals = [int.from_bytes(bytes(b[32 + 8 * i:40 + 8 * i]), "little") for i in range(n)]
    if off + sum(vals) > w:
        return None
    if len(b) < 32 + 16 * n:
        return None
    items = [i64(int.from_bytes(bytes(b[32 + 8 * n + 8 * i:40 + 8 * n + 8 * i]), "little")) for i in range(n)]
    return (lgm, lgc, w, off, list(zip(items, vals)))


def image_items(b):
    """the items of an image as far as they are present (whatever the reader will think of it)"""
    if len(b) < 32:
        return []
    n = int.from_bytes(bytes(b[8:12]), "little")
    start = 32 + 8 * n
    k = max(0, min(n, (len(b) - start) // 8))
    return [i64(int.from_bytes(bytes(b[start + 8 * i:start + 8 * i + 8]), "little")) for i in range(k)]


SLOT_BYTES = 26


def table_alloc_exceeds(b):
    r = ref_parse(b)
    return r is not None and SLOT_BYTES * (1 << max(r[1], 3)) + 16 * len(r[4]) > 64 * len(b) + (1 << 20)


def parse_op(slot, b):
    hs = [h(x) for x in image_items(b)]
    return (11, [slot, len(hs)] + hs + list(b))


def spec_image(lg_max, lg_cur, weight, offset, pairs, hibits=0, flags=None, un16=0, un32=0, short=True):
    """the generator's spec encoder (Spec/FreqLayout.v enc_spec): every liberty a foreign writer has"""
    if short and weight == 0:
        f = 5 if flags is None else flags
        return [1 + 64 * hibits, 1, 10, lg_max, lg_cur, f] + list(un16.to_bytes(2, "little"))
    f = 0 if flags is None else flags
    b = bytes([4 + 64 * hibits, 1, 10, lg_max, lg_cur, f]) + un16.to_bytes(2, "little") + struct.pack("<II", len(pairs), un32)
    b += struct.pack("<QQ", weight, offset)
    for _, c in pairs:
        b += struct.pack("<Q", c)
    for x, _ in pairs:
        b += struct.pack("<q", x)
    return list(b)


def random_abs(rng, lg_max=None, lg_cur=None, fill=None):
    lg_max = lg_max if lg_max is not None else rng.choice([3, 3, 4, 5, 6, 8, 10, 11, 12, 62])
    lg_cur = lg_cur if lg_cur is not None else rng.choice([3, 3, min(4, lg_max), min(6, lg_max), min(lg_max, 10)])
    lg_cur = min(lg_cur, lg_max)
    cap = (1 << lg_cur) * 3 // 4
    n = fill if fill is not None else rng.choice([0, 1, 2, cap // 2, cap - 1, cap])
    n = min(n, cap, 200)
    items = fresh_items(rng, n, rng.choice(["small", "mixed", "random"])) if n else []
    pairs = [(x, rng.choice([1, 2, 7, rng.randint(1, 1000), rng.randint(1, 2**40)])) for x in items]
    offset = rng.choice([0, 0, 3, rng.randint(0, 10**6)])
    weight = offset + sum(c for _, c in pairs) + rng.choice([0, 0, 1, rng.randint(0, 10**9)])
    if n == 0 and rng.random() < 0.5:
        weight, offset = 0, 0
    return lg_max, lg_cur, weight, offset, pairs


def observe_ops(slot, items, unseen, thr_hint, raw=True):
    ops = [(3, [slot]), (10, [slot]), (12, [slot])]
    for x in list(items) + list(unseen):
        ops.append((2, [slot, x, h(x)]))
    ops += [(5, [slot, 0, 0, 0]), (5, [slot, 1, 0, 0]), (5, [slot, 0, 1, thr_hint]), (5, [slot, 1, 1, thr_hint])]
    if raw:
        ops.append((6, [slot]))
    return ops


class Twin:
    """emits every operation on src and then, immediately, on dst (Base/Oracles.v twin_from)"""
    def __init__(self, ops, src, dst):
        self.ops, self.src, self.dst = ops, src, dst

    def both(self, code, rest):
        self.ops.append((code, [self.src] + rest))
        self.ops.append((code, [self.dst] + rest))

    def observe(self, items, unseen, thr_hint):
        self.both(3, []); self.both(10, []); self.both(12, [])
        for x in list(items) + list(unseen):
            self.both(2, [x, h(x)])
        for et in (0, 1):
            self.both(5, [et, 0, 0]); self.both(5, [et, 1, thr_hint])


def gen_codec(rng, cid, tier, purge):
    """C11: build a state, fork it through serialize/deserialize (op 7), then identical operations on both twins.
    purge=False: the whole case holds fewer distinct items than the smallest capacity, so no purge ever happens and the
    twins must agree on everything.  purge=True: the continuation crosses resizes and purges; a divergence after a purge
    is the known finding C11-freq-layout-not-carried (the image does not carry the slot layout)."""
    size = rng.choice([8, 8, 16, 16, 32, 64, 128, 256, 1, 2, 4] + ([512, 1024, 2048] if rng.random() < 0.25 else []))
    cap = cap_of(size)
    psize = rng.choice([size, size, 8, 64])
    ops = [(0, [0, size]), (0, [2, psize])]
    wmax = rng.choice([3, 10, 1000, 2**33])
    if purge:
        kind = rng.choice(["uniform", "zipf", "distinct", "equal", "fresh", "reset", "merged"])
        ndom = rng.choice([cap + 1, 2 * cap, 3 * cap + 7])
        dom = fresh_items(rng, ndom, rng.choice(["small", "mixed", "random"]) if ndom < 200 else "random")
        n = rng.choice([cap + 1, 2 * cap + 5, 4 * cap]) if size <= 256 else rng.choice([cap + 1, 2 * cap + 5])
    else:
        kind = rng.choice(["uniform", "zipf", "fresh", "reset", "merged", "few"])
        ndom = max(1, rng.choice([1, 2, min(cap, 6) // 2, min(cap, cap_of(psize)) - 1]))
        dom = fresh_items(rng, ndom, rng.choice(["small", "mixed", "random"]))
        n = rng.choice([1, ndom, 3 * ndom])
    if kind in ("distinct", "equal"):
        st = stream(rng, kind, dom, cap + 1 if kind == "distinct" else n, wmax)
    elif kind == "fresh":
        st = []
    else:
        st = stream(rng, "zipf" if kind == "zipf" else "uniform", dom, n, wmax)
    for (x, w) in st:
        ops.append((1, [0, x, w, h(x)]))
    if kind == "reset":
        ops.append((9, [0]))
        for (x, w) in st[:rng.randrange(0, 4)]:
            ops.append((1, [0, x, w, h(x)]))
    # the partner for merges shares part of the domain
    pdom = dom[:max(1, len(dom) // 3)]
    for (x, w) in stream(rng, "uniform", pdom, rng.choice([0, 1, len(pdom)]), 5):
        ops.append((1, [2, x, w, h(x)]))
    if kind == "merged":
        ops.append((4, [0, 2]))
    ops += [(3, [0]), (6, [0])]
    ops.append((7, [0, 1]))                       # the fork
    tw = Twin(ops, 0, 1)
    unseen = [x for x in (123456789, -987654321) if x not in set(dom)]
    qdom = dom if len(dom) <= 40 else rng.sample(dom, 40)
    tw.observe(qdom, unseen, wmax)
    # continued updates (crossing a resize / a purge when purge=True), merges, reset
    more = stream(rng, rng.choice(["uniform", "zipf"]), dom,
                  rng.choice([3, cap // 2 + 1, 2 * cap + 3]) if purge else rng.choice([1, 3, ndom]), wmax)
    every = max(2, len(more) // 4)
    for i, (x, w) in enumerate(more):
        tw.both(1, [x, w, h(x)])
        if i % every == every - 1:
            tw.both(3, []); tw.both(12, [])
            y = rng.choice(qdom); tw.both(2, [y, h(y)])
    tw.both(4, [2]); tw.both(3, []); tw.both(12, [])
    # the twins merged into two (twin) copies of a third sketch
    ops.append((7, [2, 3]))
    tw2 = Twin(ops, 2, 3)
    tw2.both(3, [])                               # maximum_error at the fork (kf_twin_layout compares with it)
    ops += [(4, [2, 0]), (4, [3, 1])]
    tw2.both(3, []); tw2.both(12, [])
    for y in qdom[:6]:
        tw2.both(2, [y, h(y)])
    tw.observe(qdom[:10], unseen[:1], wmax)
    if rng.random() < 0.3:
        tw.both(9, []); tw.both(3, []); tw.both(12, [])
        x = dom[0]; tw.both(1, [x, 2, h(x)]); tw.both(12, [])
    # a second round trip of the copy
    ops += [(7, [1, 5]), (3, [5]), (12, [5])]
    return Case(cid, [], ops, tag="fi-codec-%s-%s-%d" % ("p" if purge else "np", kind, size))


def twin_mismatches(case):
    """replays Base/Oracles.v twin_from (fork = 7, breakers 0 8 11) on the observations: returns, for every pair of
    twin observations that differ, whether maximum_error grew on one of the twins since their fork (a purge ran)"""
    tw = {}          # (src, dst) -> [offset at fork or None, max offset seen since]
    prev = None
    res = []

    def off_of(code, ob):
        if not ob or ob[0] in (-999, -998, -997, -996):
            return None
        if code == 2 and len(ob) >= 4:
            return ob[3]
        if code in (3, 5):
            return ob[0]
        if code == 12 and len(ob) >= 10:
            return ob[9]
        return None

    for (code, a), ob in zip(case.ops, case.obs or []):
        if code == 7:
            d = a[1]
            tw = {k: v for k, v in tw.items() if d not in k}
            tw[(a[0], a[1])] = [None, None]
            prev = None
            continue
        o = off_of(code, ob)
        if o is not None:
            for k, v in tw.items():
                if a[0] in k:
                    if v[0] is None:
                        v[0] = o
                    v[1] = o if v[1] is None else max(v[1], o)
        if prev is not None:
            (pc, pa), pob = prev
            if pc == code and (pa[0], a[0]) in tw and pa[1:] == a[1:] and pob != ob:
                v = tw[(pa[0], a[0])]
                res.append(v[0] is not None and v[1] is not None and v[1] > v[0])
        if code in (0, 8, 11):
            tw = {k: v for k, v in tw.items() if a[0] not in k}
        prev = ((code, a), ob)
    return res


def kf_twin_layout(case):
    """known finding C11-freq-layout-not-carried: the twins differ, and every difference comes after a purge that ran
    since the fork (maximum_error of a twin grew): the image does not carry the slot layout, which decides the sample
    of the next purge.  Differences before any purge are NOT this finding."""
    res = twin_mismatches(case)
    return bool(res) and all(res)


def gen_layout(rng, cid, tier):
    """C12: histories with known exact truth; every serialize() is decoded by the spec decoder (oracle prop_layout)"""
    r = rng.random()
    if r < 0.5:
        c = gen_single(rng, cid, rng.choice(SIZES_SMALL + [128, 256]), rng.choice(KINDS), tier)
    elif r < 0.85:
        k = rng.randint(2, 4)
        c = gen_merge(rng, cid, [rng.choice(SIZES_SMALL + [128]) for _ in range(k)], tier)
    else:
        c = gen_d6(rng, cid, rng.choice([8, 16, 32]))
    # a serialize after every fifth mutation, and a round trip whose copy is serialized too
    ops = []
    for i, op in enumerate(c.ops):
        ops.append(op)
        if op[0] in (1, 4, 9) and i % 5 == 0:
            ops.append((6, [op[1][0]]))
    ops += [(7, [0, 6]), (6, [6]), (3, [6]), (1, [6, 5, 3, h(5)]), (6, [6])]
    return Case(cid, [], ops, tag=c.tag.replace("fi-", "fi-layout-", 1))


def use_value_ops(rng, slot, lg_max, items, weight=0):
    """a value returned as Ok must be usable: queried, updated (enough to resize and purge small maps), merged with a
    round-trip copy of itself, re-serialized.  The calls stay valid: no update or merge that would take the total weight
    beyond u64 (weight = the stream weight the image announces)."""
    ops = [(3, [slot]), (12, [slot])]
    for x in list(items)[:4] + [424242]:
        ops.append((2, [slot, x, h(x)]))
    ops += [(5, [slot, 0, 0, 0]), (5, [slot, 1, 1, 2])]
    nupd = 2 * (1 << max(lg_max, 3)) if lg_max <= 5 else 12
    if 2 * (weight + 9 * nupd) < 2**64:
        base = rng.randint(-50, 50)
        for i in range(nupd):
            x = base + i
            ops.append((1, [slot, x, rng.choice([1, 2, 9]), h(x)]))
        ops += [(7, [slot, slot + 1]), (4, [slot, slot + 1])]
    else:
        ops += [(7, [slot, slot + 1])]
    ops += [(3, [slot]), (6, [slot]), (12, [slot + 1])]
    return ops


def mutate(rng, img, n):
    b = list(img)
    r = rng.random()
    if r < 0.10 and b:
        i = rng.randrange(len(b)); b[i] ^= 1 << rng.randrange(8)
    elif r < 0.18 and b:
        i = rng.randrange(len(b)); b[i] = rng.choice([0, 1, 127, 128, 255, rng.randrange(256)])
    elif r < 0.30:
        b[3] = rng.choice([0, 2, 3, 4, 31, 32, 61, 62, 63, 64, 65, 127, 128, 200, 255])
    elif r < 0.40:
        b[4] = rng.choice([0, 2, 3, 4, b[3], (b[3] + 1) % 256, 9, 10, 31, 62, 63, 64, 200, 255])
    elif r < 0.46:
        b[3], b[4] = rng.choice([(63, 3), (64, 64), (200, 3), (255, 255), (62, 10), (40, 41), (3, 4), (0, 0), (2, 1)])
    elif r < 0.54:
        b[5] = rng.choice([0, 1, 2, 4, 5, 8, 0xFA, 0xFF])
        if rng.random() < 0.5:
            b[0] = rng.choice([1, 4, 1 + 64, 4 + 128, 0, 2, 3, 5, 63, 255])
    elif r < 0.60:
        b[0] = rng.choice([0, 1, 2, 3, 4, 5, 63, 64, 65, 68, 132, 255])
    elif r < 0.70 and len(b) >= 12:
        v = rng.choice([0, 1, n - 1 if n else 0, n + 1, 2 * n, 6, 7, 12, 2**16, 2**31, 2**32 - 1, (len(b) - 32) // 8, (len(b) - 32) // 8 + 1])
        b[8:12] = list((v % 2**32).to_bytes(4, "little"))
    elif r < 0.78 and len(b) >= 32:
        which = rng.choice([16, 24])
        v = rng.choice([0, 1, 2**63, 2**64 - 1, 2**64 - 2, rng.getrandbits(64), int.from_bytes(bytes(b[16:24]), "little") - 1,
                        int.from_bytes(bytes(b[16:24]), "little") + 1]) % 2**64
        b[which:which + 8] = list(v.to_bytes(8, "little"))
    elif r < 0.86 and len(b) >= 40:
        i = 32 + 8 * rng.randrange(max(1, n))       # a count
        v = rng.choice([0, 1, 2**63, 2**64 - 1, 2**64 - 1, rng.getrandbits(64)])
        if i + 8 <= len(b):
            b[i:i + 8] = list(v.to_bytes(8, "little"))
            if rng.random() < 0.5 and i + 16 <= len(b) and n >= 2:
                b[i + 8:i + 16] = list((2**64 - 1).to_bytes(8, "little"))
    elif r < 0.90 and n >= 2 and len(b) >= 32 + 16 * n:
        # duplicate item
        b[32 + 8 * n + 8:32 + 8 * n + 16] = b[32 + 8 * n:32 + 8 * n + 8]
    elif r < 0.95:
        b = b + [rng.randrange(256) for _ in range(rng.randrange(1, 24))]
    else:
        b = [rng.randrange(256) for _ in range(rng.choice([0, 1, 5, 7, 8, 9, 31, 32, 33, 48, 64]))]
        if rng.random() < 0.7 and len(b) >= 3:
            b[1], b[2] = 1, 10
    return b


def gen_malformed(rng, cid, tier):
    """C14: structure-aware mutations of a valid image (bit/byte flips, boundary values in lg_max, lg_cur, preamble,
    flags, active_items, weight, offset, counts; truncation at every offset; extension; random bytes); every value that
    comes back as Ok is then used."""
    lg_max, lg_cur, weight, offset, pairs = random_abs(rng, lg_max=rng.choice([3, 3, 4, 5, 6, 10]), lg_cur=None)
    pairs = pairs[:(1 << lg_cur) * 3 // 4][:12]
    weight = max(weight, offset + sum(c for _, c in pairs))
    img = spec_image(lg_max, lg_cur, weight, offset, pairs, short=rng.random() < 0.8)
    n = len(pairs)
    variants = []
    if rng.random() < 0.5:
        # truncation at every offset (a sample of them in the quick tier)
        cuts = list(range(len(img) + 1))
        if tier == "quick" and len(cuts) > 14:
            cuts = sorted(set(rng.sample(cuts, 8) + [0, 7, 8, 31, 32, len(img) - 1, len(img)]) & set(cuts))
        variants += [img[:c] for c in cuts]
    for _ in range(8 if tier == "quick" else 30):
        variants.append(mutate(rng, img, n))
    ops = []
    slot = 0
    for b in variants:
        r = ref_parse(b)
        if r is not None and max(r[1], 3) > 10:
            continue        # a valid image announcing a big table: gen_bigalloc covers that class (bounded sizes)
        ops.append(parse_op(slot, b))
        ops += use_value_ops(rng, slot, r[0] if r else 3, image_items(b), r[2] if r else 0)
    return Case(cid, [], ops, tag="fi-malformed")


U8_BOUNDS = [0, 1, 2, 3, 4, 30, 31, 32, 62, 63, 64, 255]
U32_BOUNDS = [0, 1, 2**31 - 1, 2**31, 2**32 - 1]
U64_BOUNDS = [0, 1, 2**63 - 1, 2**63, 2**64 - 2, 2**64 - 1]
I64_BOUNDS = [-2**63, -1, 0, 2**63 - 1]


def boundary_images(rng):
    """otherwise VALID images (both forms) with every numeric field at the boundaries of its type, one field at a time
    and in pairs.  Images that would be accepted with a table of more than 2^10 slots are left to gen_bigalloc."""
    out = []
    lgm, lgc = 5, 4
    cap = (1 << lgc) * 3 // 4
    items = fresh_items(rng, cap + 1, "small")
    base_pairs = [(x, 2 + i) for i, x in enumerate(items[:3])]
    bw = sum(c for _, c in base_pairs) + 10

    def full(lg_max=lgm, lg_cur=lgc, weight=bw, offset=3, pairs=base_pairs, **kw):
        return spec_image(lg_max, lg_cur, weight, offset, pairs, short=False, **kw)

    def empty(lg_max=lgm, lg_cur=lgc, **kw):
        return spec_image(lg_max, lg_cur, 0, 0, [], **kw)

    # lg_max / lg_cur, alone and in pairs
    for v in U8_BOUNDS:
        out += [full(lg_max=v), full(lg_cur=v), empty(lg_max=v), empty(lg_cur=v), full(lg_max=v, lg_cur=v), empty(lg_max=v, lg_cur=v)]
        for w in (0, 3, 4, 63):
            out += [full(lg_max=v, lg_cur=w), empty(lg_max=w, lg_cur=v)]
    # flags and the preamble byte (incl. its two top bits)
    for f in (0, 1, 4, 5, 0xFF):
        out += [full(flags=f), empty(flags=f)]
        for hb in (1, 2, 3):
            out += [full(flags=f, hibits=hb), empty(flags=f, hibits=hb)]
    for pre in (0, 1, 2, 3, 4, 5, 63, 64, 65, 68, 127, 128, 132, 196, 255):
        b = full(); b[0] = pre; out.append(b)
        b = empty(); b[0] = pre; out.append(b)
    # active_items: around the capacity with a matching payload, and at the type's boundaries with the base payload
    for n in (0, 1, cap - 1, cap, cap + 1):
        ps = [(x, 1 + i) for i, x in enumerate(items[:n])]
        out.append(full(weight=sum(c for _, c in ps) + 5, pairs=ps))
    for v in U32_BOUNDS + [cap - 1, cap, cap + 1, 2, 4]:
        b = full(); b[8:12] = list(v.to_bytes(4, "little")); out.append(b)
    # stream_weight and offset, alone and in pairs
    for v in U64_BOUNDS:
        out += [full(weight=v), full(offset=v), full(weight=v, offset=v), full(weight=v, offset=0, pairs=[]), full(weight=2**64 - 1, offset=v)]
    sc = sum(c for _, c in base_pairs)
    out += [full(weight=sc + 3, offset=3), full(weight=sc + 2, offset=3), full(weight=sc, offset=0), full(weight=sc - 1, offset=0)]
    # every counter at the boundaries of u64; sums that reach exactly 2^64 - 1 and 2^64
    for v in (0, 1, 2**63 - 1, 2**63, 2**64 - 1):
        for pos in range(len(base_pairs)):
            ps = list(base_pairs); ps[pos] = (ps[pos][0], v)
            out += [full(pairs=ps), full(pairs=ps, weight=2**64 - 1, offset=0)]
    x0, x1 = items[0], items[1]
    out += [full(pairs=[(x0, 2**64 - 2), (x1, 1)], weight=2**64 - 1, offset=0),        # sum = 2^64 - 1 exactly
            full(pairs=[(x0, 2**64 - 1), (x1, 1)], weight=2**64 - 1, offset=0),        # sum = 2^64
            full(pairs=[(x0, 2**63), (x1, 2**63)], weight=2**64 - 1, offset=0),        # sum = 2^64
            full(pairs=[(x0, 2**63), (x1, 2**63 - 1)], weight=2**64 - 1, offset=0),    # sum = 2^64 - 1
            full(pairs=[(x0, 2**64 - 3), (x1, 1)], weight=2**64 - 1, offset=1),        # sum + offset = 2^64 - 1
            full(pairs=[(x0, 2**64 - 3), (x1, 1)], weight=2**64 - 1, offset=2)]        # sum + offset = 2^64
    # items at the boundaries of i64, duplicates
    for v in I64_BOUNDS:
        ps = list(base_pairs); ps[1] = (v, ps[1][1]); out.append(full(pairs=ps))
    out += [full(pairs=[(v, 1 + i) for i, v in enumerate(I64_BOUNDS)], weight=20),
            full(pairs=[(7, 2), (7, 3)], weight=9), full(pairs=[(-2**63, 2), (-2**63, 3), (2**63 - 1, 1)], weight=9),
            full(pairs=[(5, 1)] * cap, weight=cap + 1), full(pairs=[(5, 1)] * (cap + 1), weight=cap + 2)]
    keep = []
    for b in out:
        r = ref_parse(b)
        if r is not None and max(r[1], 3) > 10:
            continue
        keep.append(b)
    return keep


def gen_boundaries(rng, cid, tier, part, nparts):
    """C14: slice [part] of [nparts] of the boundary images, each parsed and -- when accepted -- used"""
    imgs = boundary_images(random_for_boundaries())
    ops = []
    for b in imgs[part::nparts]:
        r = ref_parse(b)
        ops.append(parse_op(0, b))
        ops += use_value_ops(rng, 0, r[0] if r else 3, image_items(b), r[2] if r else 0)
    return Case(cid, [], ops, tag="fi-malformed-bounds")


def random_for_boundaries():
    import random
    return random.Random(20260926)


def gen_bigalloc(rng, cid, tier):
    """C14: valid images (8-byte empty form, or a short full form) that announce a current map of 2^lg_cur slots: the
    table is inherent in the format (known finding C14-freq-table-alloc).  lg_cur stays <= 22 here (109 MB); nothing
    bounds it short of lg_max <= 62, so a real image can ask for far more (process abort on allocation failure)."""
    ops = []
    for _ in range(3):
        lg_cur = rng.choice([16, 17, 18, 20, 22])
        lg_max = rng.choice([lg_cur, lg_cur + 1, 30, 62])
        if rng.random() < 0.5:
            b = spec_image(lg_max, lg_cur, 0, 0, [], flags=rng.choice([1, 4, 5]))
        else:
            pairs = [(x, 1 + i) for i, x in enumerate(fresh_items(rng, rng.choice([0, 1, 5]), "small"))]
            b = spec_image(lg_max, lg_cur, 100 + sum(c for _, c in pairs), 7, pairs, short=False)
        ops += [parse_op(0, b), (3, [0]), (12, [0])]
    return Case(cid, [], ops, tag="fi-malformed-bigalloc")


def kf_table_alloc(case):
    """known finding C14-freq-table-alloc: every out-of-proportion allocation (-997) of the case comes from a parse op
    whose image is valid and announces a current map whose table alone exceeds the allowance"""
    hits = [(c, a) for (c, a), o in zip(case.ops, case.obs or []) if o[:1] == [-997]]
    return bool(hits) and all(c == 11 and table_alloc_exceeds(a[2 + a[1]:]) for c, a in hits)


def gen_foreign(rng, cid, tier):
    """C13: images produced by the spec encoder from random abstract states, over every liberty a foreign writer has"""
    ops = []
    for rep in range(3):
        lg_max, lg_cur, weight, offset, pairs = random_abs(rng)
        pairs = list(pairs)
        rng.shuffle(pairs)
        empty = weight == 0
        short = rng.random() < 0.7
        if empty and short:
            flags = rng.choice([1, 4, 5, 5, 1 | 2, 4 | 8, 0xFF, 0x85])
        else:
            flags = rng.choice([0, 0, 0, 2, 8, 0xFA, 0x50])
        b = spec_image(lg_max, lg_cur, weight, offset, pairs, hibits=rng.choice([0, 0, 1, 2, 3]), flags=flags,
                       un16=rng.choice([0, 0, 0xFFFF, rng.getrandbits(16)]), un32=rng.choice([0, 0, 2**32 - 1, rng.getrandbits(32)]),
                       short=short)
        items = [x for x, _ in pairs]
        unseen = [x for x in (77, -123456789012) if x not in set(items)]
        thr = rng.choice([0, 1, 5, offset, offset + 3])
        ops.append(parse_op(0, b))
        ops += observe_ops(0, items[:30], unseen, thr)
        # a round trip of the loaded sketch, compared as twins
        ops.append((7, [0, 1]))
        tw = Twin(ops, 0, 1)
        tw.both(3, []); tw.both(12, [])
        for x in items[:5] + unseen[:1]:
            tw.both(2, [x, h(x)])
        tw.both(5, [0, 0, 0])
        # merged into a fresh sketch of the same (or a bigger) maximum size
        mlg = rng.choice([lg_max, lg_max, 12])
        if mlg <= 12:
            ops.append((0, [2, 1 << mlg]))
            ops.append((4, [2, 0]))
            ops += observe_ops(2, items[:8], unseen[:1], thr)
    return Case(cid, [], ops, tag="fi-foreign")


def gen_extremes(rng, cid, tier, what):
    """C17: valid calls only, at the documented extremes: map size 8 (and 16, and big ones), streams long enough for
    many purges including purges that empty the map, merges of purged-to-nothing sketches in both directions, weights
    near the top of the u64 range without overflowing the total, reset, every query in between."""
    ops = []
    if what == "huge-config":
        size = 1 << rng.choice([40, 62, 62])
        ops = [(0, [0, size]), (3, [0]), (10, [0])]
        dom = fresh_items(rng, 30, "mixed")
        for x in dom:
            ops.append((1, [0, x, rng.choice([1, 2**50]), h(x)]))
        ops += final_ops(rng, [0], dom[:10], [5])
        ops += [(7, [0, 1]), (3, [1]), (12, [1]), (9, [0]), (3, [0]), (6, [0])]
        return Case(cid, [], ops, tag="fi-extremes-huge")
    if what == "heavy":
        # weights near the top: 15 * (2^60 - 1) < 2^64; every purge adds a huge median to the offset
        size = rng.choice([8, 8, 16])
        cap = cap_of(size)
        ops = [(0, [0, size]), (0, [1, size])]
        dom = fresh_items(rng, cap + 3, "mixed")
        ws = [rng.choice([2**60 - 1, 2**60 - 1, 2**59, 2**60 - rng.randrange(1, 1000), 1]) for _ in range(15)]
        assert sum(ws) <= 2**64 - 1
        half = len(ws) // 2
        for i, w in enumerate(ws):
            s = 0 if i < half or rng.random() < 0.5 else 1
            x = dom[i % len(dom)]
            ops.append((1, [s, x, w, h(x)]))
            if i % 3 == 2:
                ops += [(3, [s]), (2, [s, x, h(x)]), (5, [s, 0, 0, 0])]
        ops += [(4, [0, 1]), (3, [0])]
        ops += final_ops(rng, [0, 1], dom, [5])
        ops += [(7, [0, 2]), (3, [2]), (12, [2])]
        return Case(cid, [], ops, tag="fi-extremes-heavy-%d" % size)
    size = what
    cap = cap_of(size)
    ops = [(0, [0, size]), (0, [1, size]), (0, [2, rng.choice([8, size])])]
    n = (40 * cap if size <= 16 else 6 * cap) if tier == "quick" else (200 * cap if size <= 16 else 12 * cap)
    kind = rng.choice(["equal", "distinct-loop", "uniform", "zipf"])
    ndom = cap + rng.choice([1, 1, 2, 5]) if kind in ("equal", "distinct-loop") else rng.choice([cap + 1, 2 * cap, 4 * cap])
    dom = fresh_items(rng, ndom, rng.choice(["small", "mixed", "random"]) if ndom < 200 else "random")
    wmax = rng.choice([1, 3, 1000])
    if kind == "equal":
        st = stream(rng, "equal", dom, n, wmax)
    elif kind == "distinct-loop":
        # always-new items of one weight: every purge removes every counter
        w = rng.choice([1, 5])
        allitems = fresh_items(rng, n, "random")
        st = [(x, w) for x in allitems]
        dom = allitems[:cap + 2] + allitems[-cap:]
    else:
        st = stream(rng, kind, dom, n, wmax)
    every = max(5, n // 10)
    for i, (x, w) in enumerate(st):
        ops.append((1, [0, x, w, h(x)]))
        if i % every == every - 1:
            ops += probe_ops(rng, 0, dom, wmax)
    # a purged-to-nothing partner, merged in both directions, and merges of sketches with themselves
    em = fresh_items(rng, cap + 1, "random")
    for x in em:
        ops.append((1, [1, x, 4, h(x)]))
    ops += [(3, [1]), (6, [1]), (12, [1])]
    ops += [(4, [0, 1]), (3, [0]), (4, [1, 0]), (3, [1]), (4, [2, 1]), (3, [2]), (4, [1, 1]), (3, [1]), (4, [2, 2]), (3, [2])]
    ops += [(7, [1, 3]), (3, [3]), (4, [3, 0]), (3, [3])]
    qdom = dom if len(dom) <= 60 else rng.sample(dom, 60)
    ops += final_ops(rng, [0, 1, 2, 3], qdom, [5])
    ops += [(9, [0]), (3, [0]), (6, [0]), (4, [0, 1]), (3, [0]), (9, [1]), (4, [0, 1]), (3, [0])]
    for (x, w) in st[:cap + 2]:
        ops.append((1, [0, x, w, h(x)]))
    ops += final_ops(rng, [0], qdom[:10], [])
    return Case(cid, [], ops, tag="fi-extremes-%s-%d" % (kind, size))


def gen_size(rng, cid, tier, size, lgn):
    """C18: growing streams (distinct, repeated, adversarially ordered); after every power-of-two prefix the number of
    active items and the image size are observed (oracle prop_layout: active <= 3/4 map size, len = 8 | 32 + 16 * active)"""
    # ("clustered" only where a probe run cannot reach DRIFT_LIMIT = 1024 occupied slots: capacity 768 at map size 1024;
    #  at 2048 it is the known finding C17-freq-drift-limit, exercised by its own leg)
    kind = rng.choice(["distinct", "repeated", "sorted", "clustered"] if size <= 1024 else ["distinct", "repeated", "sorted"])
    n = 1 << lgn
    if kind == "distinct":
        items = fresh_items(rng, n, "random")
    elif kind == "repeated":
        d = fresh_items(rng, rng.choice([cap_of(size) + 1, 4 * cap_of(size), 50]), "random")
        items = [rng.choice(d) for _ in range(n)]
    elif kind == "sorted":
        base = rng.randint(-10**6, 10**6)
        items = [base + i for i in range(n)]
    else:
        # items whose hashes fall into few table slots (adversarial for the probing, not for the bound)
        pool = fresh_items(rng, 2 * n, "small")
        mask = max(size, 8) - 1
        pool.sort(key=lambda x: h(x) & mask)
        items = pool[:n]
        rng.shuffle(items)
    ops = [(0, [0, size]), (3, [0]), (6, [0])]
    w = rng.choice([1, 1, 3])
    nxt = 1
    for i, x in enumerate(items):
        ops.append((1, [0, x, w if kind != "repeated" else rng.choice([1, 2, 7]), h(x)]))
        if i + 1 == nxt:
            ops += [(3, [0]), (6, [0])]
            nxt *= 2
    ops += [(2, [0, items[0], h(items[0])]), (2, [0, items[-1], h(items[-1])])]
    return Case(cid, [], ops, tag="fi-size-%s-%d-%d" % (kind, size, lgn))


DRIFT_FILE = os.path.join(os.path.dirname(os.path.abspath(__file__)), "freq_drift_items.txt")


def drift_items():
    """1101 items whose hashes fall into the first 8 slots of a 2048-slot table: they form one probe run of more than
    DRIFT_LIMIT = 1024 occupied slots.  Cached in freq_drift_items.txt; recomputed when the cache does not fit the hash."""
    items = []
    if os.path.exists(DRIFT_FILE):
        items = [int(t) for t in open(DRIFT_FILE).read().split()]
    if len(items) != 1101 or any((h(x) & 2047) >= 8 for x in items[:20] + items[-20:]):
        items, x = [], 0
        while len(items) < 1101:
            if (h(x) & 2047) < 8:
                items.append(x)
            x += 1
        try:
            open(DRIFT_FILE, "w").write(" ".join(map(str, items)))
        except OSError:
            pass
    return items


def gen_drift(rng, cid, image):
    """known findings C17-freq-drift-limit / C14-freq-drift-limit: debug_assert!(drift < DRIFT_LIMIT) fires (debug builds
    only) when a probe sequence passes 1024 occupied slots; reachable by valid updates of items chosen for their hashes,
    and by an image holding such items.  The op that panics in debug is excluded from the comparison with the model
    (legs' mask), everything after it is compared in the release profile."""
    items = drift_items()
    if image:
        b = spec_image(11, 11, len(items), 0, [(x, 1) for x in items])
        ops = [parse_op(0, b), (3, [0]), (12, [0]), (2, [0, items[-1], h(items[-1])])]
        return Case(cid, [], ops, tag="fi-drift-image")
    ops = [(0, [0, 2048])]
    for x in items:
        ops.append((1, [0, x, 1, h(x)]))
    ops += [(3, [0]), (12, [0]), (2, [0, items[-1], h(items[-1])]), (2, [0, items[0], h(items[0])])]
    return Case(cid, [], ops, tag="fi-drift-updates")


# ---- String and u64 codecs (crate-only oracles for String: ops 31..34; u64 = the i64 model on the same bits: ops 40..52)
GENERIC_MASK = list(range(0, 13)) + list(range(20, 26)) + list(range(40, 53))


def str_image(lg_max, lg_cur, weight, offset, pairs, lens=None):
    """image of a FrequentItemsSketch<String>: counts, then per item a u32 length and the UTF-8 bytes; lens overrides the
    length fields (by position)"""
    b = bytes([4, 1, 10, lg_max, lg_cur, 0, 0, 0]) + struct.pack("<IIQQ", len(pairs), 0, weight, offset)
    for _, c in pairs:
        b += struct.pack("<Q", c)
    for i, (t, _) in enumerate(pairs):
        ln = len(t) if not lens or lens.get(i) is None else lens[i]
        b += struct.pack("<I", ln % 2**32) + t
    return list(b)


def shift_codes(ops, d):
    return [(c + d, a) for c, a in ops]


def gen_codec_generic(rng, cid, tier):
    """C11: round trips of String and u64 sketches after real streams (purges included)"""
    if cid % 2 == 0:
        size = rng.choice([8, 8, 16, 32, 4])
        cap = cap_of(size)
        kind = rng.choice(["stream", "stream", "purged-empty", "fresh", "few"])
        dom = fresh_strings(rng, {"few": 3, "fresh": 1}.get(kind, rng.choice([cap + 2, 2 * cap])))
        ids = {b: i + 1 for i, b in enumerate(dom)}
        ops = [(20, [0, size])]
        if kind == "purged-empty":
            st = [(b, 5) for b in dom[:cap + 1]]
        elif kind == "fresh":
            st = []
        else:
            st = [(rng.choice(dom), rng.choice([1, 2, 7])) for _ in range(rng.choice([len(dom), 4 * cap]) if kind == "stream" else 5)]
        for i, (b, w) in enumerate(st):
            ops.append((21, [0, ids[b], w, hs(b)] + list(b)))
            if i % 11 == 10:
                ops.append((33, [0]))
        ops += [(23, [0]), (33, [0]), (31, [0]), (25, [0, 0, 0, 0]), (34, [0]), (33, [0])]
        return Case(cid, [], ops, tag="fi-codec-string-%s-%d" % (kind, size))
    size = rng.choice([8, 8, 16, 64, 2])
    cap = cap_of(size)
    items = fresh_items(rng, rng.choice([3, cap + 2, 2 * cap]), "mixed")          # mixed: values with the top bit set as u64
    ops = [(0, [0, size])]
    for _ in range(rng.choice([2, 3 * cap, 5 * cap])):
        x = rng.choice(items)
        ops.append((1, [0, x, rng.choice([1, 2, 2**40]), h(x)]))
    ops += [(3, [0]), (6, [0]), (7, [0, 1])]
    for s_ in (0, 1):
        ops += [(3, [s_]), (12, [s_]), (5, [s_, 0, 0, 0]), (5, [s_, 1, 0, 0])]
        for x in items[:8] + [424242]:
            ops.append((2, [s_, x, h(x)]))
    ops += [(4, [1, 0]), (3, [1]), (12, [1]), (7, [1, 2]), (12, [2])]
    return Case(cid, [], shift_codes(ops, 40), tag="fi-codec-u64-%d" % size)


def gen_malformed_generic(rng, cid, tier):
    """C14: mutated String images (length fields at 0, 1, remaining, remaining + 1, 2^30 - 1, 2^31, 2^32 - 1; invalid UTF-8;
    truncation; flips) and the boundary images read as u64 sketches"""
    if cid % 3 == 2:
        c = gen_boundaries(rng, cid, tier, rng.randrange(12), 12)
        return Case(cid, [], shift_codes(c.ops, 40), tag="fi-malformed-u64")
    lg_max, lg_cur = rng.choice([(3, 3), (4, 3), (5, 4)])
    n = rng.choice([1, 2, 3, 5])
    texts = fresh_strings(rng, n)
    pairs = [(t, rng.choice([1, 2, 9])) for t in texts]
    weight = sum(c for _, c in pairs) + rng.choice([0, 4])
    img = str_image(lg_max, lg_cur, weight, rng.choice([0, 0, 3]) if weight > sum(c for _, c in pairs) + 2 else 0, pairs)
    variants = [img]
    pos = rng.randrange(n)
    start = 32 + 8 * n + sum(4 + len(t) for t, _ in pairs[:pos])        # offset of the length field of item [pos]
    remaining = len(img) - start - 4
    for ln in (0, 1, remaining, remaining + 1, 2**30 - 1, 2**31, 2**32 - 1, len(texts[pos]) + 1, max(0, len(texts[pos]) - 1)):
        variants.append(str_image(lg_max, lg_cur, weight, 0, pairs, lens={pos: ln}))
    bad = list(img)                                                     # invalid UTF-8 inside an item
    if len(texts[pos]) > 0:
        bad[start + 4 + rng.randrange(len(texts[pos]))] = rng.choice([0xFF, 0xC0, 0x80, 0xFE])
        variants.append(bad)
    for c_ in sorted(set([rng.randrange(len(img) + 1) for _ in range(5)] + [start, start + 3, start + 4, len(img) - 1])):
        variants.append(img[:c_])
    for _ in range(4):
        b = list(img); i = rng.randrange(len(b))
        if i not in (3, 4):
            b[i] ^= 1 << rng.randrange(8)
        variants.append(b)
    variants.append(img + [rng.randrange(256) for _ in range(7)])
    ops = []
    for b in variants:
        ops += [(32, [0] + list(b)), (33, [0]), (34, [0]), (33, [0])]
    return Case(cid, [], ops, tag="fi-malformed-string")


def grown_partner_ops(rng, slot, big, nitems, dom):
    """a sketch of map size [big] that has grown: [nitems] distinct items (more than a small receiver's capacity)"""
    ops = [(0, [slot, big])]
    for x in dom[:nitems]:
        ops.append((1, [slot, x, rng.choice([1, 2, 5]), h(x)]))
    return ops


def gen_size_merge(rng, cid, tier):
    """C18: merges between sketches of DIFFERENT configurations, the partner already grown beyond the receiver's maximum:
    receiver map size 1..16, partner 64..1024 holding more items than the receiver's capacity, both directions; after each
    merge the sizes are observed (stats: active <= maximum_map_capacity, lg_cur <= lg_max; image <= 32 + 16 * capacity)
    and the result goes through serialize -> deserialize"""
    small = rng.choice([1, 2, 4, 8, 16])
    big = rng.choice([64, 128, 256, 1024])
    nitems = rng.choice([20, cap_of(big) // 2, cap_of(big) - 1, cap_of(big) + 5])
    dom = fresh_items(rng, nitems + 10, "random")
    ops = [(0, [0, small])] + grown_partner_ops(rng, 1, big, nitems, dom)
    for x in dom[-5:]:
        ops.append((1, [0, x, 3, h(x)]))
    ops += [(3, [0]), (3, [1]), (6, [1])]
    ops += [(4, [0, 1]), (3, [0]), (6, [0]), (7, [0, 6]), (3, [6]), (6, [6])]
    for x in dom[:6]:
        ops.append((2, [0, x, h(x)]))
    ops += [(4, [1, 0]), (3, [1]), (6, [1]), (7, [1, 5]), (3, [5]), (6, [5])]
    ops += [(4, [0, 1]), (3, [0]), (6, [0]), (4, [0, 0]), (3, [0]), (6, [0])]
    return Case(cid, [], ops, tag="fi-size-merge-%d-%d" % (small, big))


def gen_codec_merge(rng, cid, tier):
    """C11: a small sketch and its round-trip copy both merge a bigger, already grown partner (and are merged into copies of
    it); every result must itself survive serialize -> deserialize.  Purges run, so a divergence after one is the known
    finding C11-freq-layout-not-carried (tag fi-codec-p-)."""
    small = rng.choice([1, 2, 4, 8, 16])
    big = rng.choice([64, 128, 256])
    nitems = rng.choice([20, cap_of(big) // 2, cap_of(big) - 1])
    dom = fresh_items(rng, nitems + 6, "random")
    ops = [(0, [0, small])] + grown_partner_ops(rng, 2, big, nitems, dom)
    for x in dom[-4:]:
        ops.append((1, [0, x, 2, h(x)]))
    ops.append((7, [0, 1]))
    tw = Twin(ops, 0, 1)
    tw.both(3, []); tw.both(12, [])
    tw.both(4, [2]); tw.both(3, []); tw.both(12, [])
    for x in dom[:5]:
        tw.both(2, [x, h(x)])
    ops += [(7, [0, 5]), (3, [5]), (12, [5]), (7, [1, 6]), (3, [6])]
    ops.append((7, [2, 3]))
    tw2 = Twin(ops, 2, 3)
    tw2.both(3, [])
    ops += [(4, [2, 0]), (4, [3, 1])]
    tw2.both(3, []); tw2.both(12, [])
    ops += [(7, [2, 4]), (3, [4])]
    return Case(cid, [], ops, tag="fi-codec-p-mergesizes-%d-%d" % (small, big))


def gen(rng, tier, n=None, focus=None):
    if focus in ("drift", "drift-image"):
        # one (slow: probe runs of 1100 slots in the list-based model) case; n = 0 (the legs' quick tier) gives none
        return [] if n == 0 else [gen_drift(rng, 0, focus == "drift-image")]
    if focus == "codec-generic":
        n = n or (12 if tier == "quick" else 200)
        return [gen_codec_generic(rng, i, tier) for i in range(n)]
    if focus == "malformed-generic":
        n = n or (12 if tier == "quick" else 200)
        return [gen_malformed_generic(rng, i, tier) for i in range(n)]
    if focus == "codec":
        n = n or (40 if tier == "quick" else 400)
        return [gen_codec_merge(rng, i, tier) if i % 5 == 4 else gen_codec(rng, i, tier, purge=(i % 2 == 1)) for i in range(n)]
    if focus == "layout":
        n = n or (30 if tier == "quick" else 300)
        return [gen_layout(rng, i, tier) for i in range(n)]
    if focus == "malformed":
        n = n or (30 if tier == "quick" else 400)
        nb = 12
        return ([gen_malformed(rng, i, tier) for i in range(n)] + [gen_boundaries(rng, n + i, tier, i, nb) for i in range(nb)]
                + [gen_bigalloc(rng, n + nb + i, tier) for i in range(2 if tier == "quick" else 6)])
    if focus == "foreign":
        n = n or (30 if tier == "quick" else 400)
        return [gen_foreign(rng, i, tier) for i in range(n)]
    if focus == "extremes":
        n = n or (16 if tier == "quick" else 120)
        # (the list-based table model costs ~40 s for one 2048-slot case of the thorough tier: one of those, no 4096)
        plan = [8, 8, 16, 2048 if tier == "thorough" else 1024, "heavy", "heavy", "huge-config", 1, 2, 4]
        while len(plan) < n:
            plan.append(rng.choice([8, 8, 8, 16, 16, 32, 64, 1, 2, 4, "heavy", "huge-config"] + ([256, 1024] if tier == "thorough" else [])))
        return [gen_extremes(rng, i, tier, w) for i, w in enumerate(plan[:n])]
    if focus == "size":
        n = n or (10 if tier == "quick" else 24)
        # (2^17-update streams made one model shard run > 25 min - the oracle's exact frequency map is an association list,
        #  quadratic in the number of distinct items - and hit the 1500 s shard limit: thorough stops at 2^15)
        top = 13 if tier == "quick" else 15
        # (big maps: every purge costs ~0.4 s in the list-based table model, so their streams stop at 2^13 / 2^14)
        plan = [(8, top), (16, top), (64, top), (2048, 12 if tier == "quick" else 13), (1024, 12 if tier == "quick" else 13),
                (1, 10), (2, 10), (4, 11)]      # below the minimal map size: an 8-slot map, lg_max_map_size 3, capacity 6
        while len(plan) < n:
            size = rng.choice([8, 8, 16, 32, 128, 256, 512, 1, 2, 4])
            plan.append((size, rng.randint(8, top if size < 128 else min(top, 13))))
        return ([gen_size(rng, i, tier, s, l) for i, (s, l) in enumerate(plan[:n])]
                + [gen_size_merge(rng, n + i, tier) for i in range(8 if tier == "quick" else 40)])
    n = n or (70 if tier == "quick" else 500)
    cases = []
    # fixed skeleton: every size with every stream kind appears at least once in the thorough tier;
    # in the quick tier every size appears and the big sizes get the purge-heavy kinds
    plan = []
    for size in SIZES_BIG:
        kinds = KINDS if tier == "thorough" else [rng.choice(["uniform", "zipf"]), rng.choice(["distinct", "equal"])]
        plan += [("single", size, k) for k in kinds]
    plan += [("merge", [1024, 1024], None), ("merge", [rng.choice([512, 2048]), 256, 512], None)]
    for size in SIZES_MED:
        plan += [("single", size, k) for k in (KINDS if tier == "thorough" else rng.sample(KINDS, 2))]
    plan += [("d6", s, None) for s in (8, rng.choice([16, 32, 64]))]
    # constructor arguments below the minimal map size, then used like any other sketch
    plan += [("single", 1, rng.choice(KINDS)), ("single", 2, "distinct"), ("single", 4, rng.choice(["uniform", "zipf"])),
             ("merge", [4, 2, 8], None), ("d6", 4, None),
             ("merge", [8, 256], None), ("merge", [2, 64, 16], None)]     # small receivers, bigger (grown) partners
    plan += [("heavy", 8, None), ("heavy", rng.choice([16, 32, 64, 128]), None), ("heavy", rng.choice([16, 32]), None), ("heavy", rng.choice([16, 64]), None)]
    plan += [("images", None, None), ("badnew", None, None), ("strings", None, None), ("strings", None, None)]
    plan += [("eps2048", False, None), ("eps2048", True, None)]
    nskel = len(plan)
    while len(plan) < n:
        r = rng.random()
        if r < 0.40:
            plan.append(("single", rng.choice(SIZES_SMALL), rng.choice(KINDS)))
        elif r < 0.85:
            k = rng.randint(2, 5)
            if rng.random() < 0.5:
                sizes = [rng.choice(SIZES_SMALL + [128])] * k
            else:
                sizes = [rng.choice(SIZES_SMALL + [128, 256]) for _ in range(k)]
            plan.append(("merge", sizes, None))
        elif r < 0.88:
            plan.append(("d6", rng.choice([8, 16, 32, 128]), None))
        elif r < 0.91:
            plan.append(("heavy", rng.choice([8, 8, 16, 32, 64, 256]), None))
        elif r < 0.95:
            plan.append(("images", None, None))
        elif r < 0.98:
            plan.append(("strings", None, None))
        else:
            plan.append(("badnew", None, None))
    plan = plan[:n]
    # small cases first (a failing small case gives a small replay), the fixed big skeleton last
    nfixed = min(len(plan), nskel)
    plan = plan[nfixed:] + plan[:nfixed]
    for i, (what, a, b) in enumerate(plan):
        if what == "single":
            cases.append(gen_single(rng, i, a, b, tier))
        elif what == "merge":
            cases.append(gen_merge(rng, i, a, tier, big=max(a) >= 512))
        elif what == "d6":
            cases.append(gen_d6(rng, i, a))
        elif what == "heavy":
            cases.append(gen_heavy(rng, i, a))
        elif what == "images":
            cases.append(gen_images(rng, i))
        elif what == "strings":
            cases.append(gen_strings(rng, i, tier))
        elif what == "eps2048":
            cases.append(gen_eps2048(rng, i, a))
        else:
            cases.append(gen_badnew(rng, i))
    return cases


def nontrivial(case, obs):
    """at least 2 distinct items updated with positive weight and at least one bound query; or a fork (op 7) of a
    sketch that was updated; or at least 3 images fed to parse of which one is accepted and one rejected; or a foreign
    image with at least 2 counters accepted and then queried"""
    items = {a[1] for (c, a) in case.ops if c in (1, 21, 41) and a[2] > 0}
    if len(items) >= 2 and any(c in (2, 22, 42, 33) for (c, a) in case.ops):
        return True
    if items and any(c == 7 for (c, a) in case.ops):
        return True
    res = [o for (c, a), o in zip(case.ops, obs or []) if c in (11, 32, 51)]
    if len(res) >= 3 and [1] in res and [-998] in res:
        return True
    return any(c == 11 and a[1] >= 2 and o == [1] for (c, a), o in zip(case.ops, obs or [])) and any(c == 2 for (c, a) in case.ops)
