"""C01 family 'bounds': estimator bound functions of HLL / CPC / theta (generator below, constants here)."""
GEN_MODULES = [
    ("GenBoundsHll", ["hll/estimator.rs"],
     ["HIP_LB", "HIP_UB", "NON_HIP_LB", "NON_HIP_UB", "FLIT_get_rel_err", "LIT_get_rel_err", "FLIT_get_raw_estimate",
      "FLIT_get_composite_estimate"],
     {"hll/estimator.rs": ["get_rel_err", "get_raw_estimate", "get_composite_estimate"]},
     {"hll/estimator.rs": ["HIP_LB", "HIP_UB", "NON_HIP_LB", "NON_HIP_UB"]},
     {"hll/estimator.rs": ["get_rel_err", "get_raw_estimate", "get_composite_estimate"]}),
    ("GenBoundsComposite", ["hll/composite_interpolation.rs", "hll/harmonic_numbers.rs"],
     ["NUM_X_VALUES", "Y_STRIDES", "ARRAYS", "EXACT_HARMONIC", "NUM_EXACT", "EULER_MASCHERONI"]),
    ("GenBoundsCpc", ["cpc/estimator.rs"],
     ["ICON_ERROR_CONSTANT", "HIP_ERROR_CONSTANT", "ICON_LOW_SIDE_DATA", "ICON_HIGH_SIDE_DATA", "HIP_LOW_SIDE_DATA",
      "HIP_HIGH_SIDE_DATA", "ICON_POLYNOMIAL_COEFFICIENTS", "ICON_POLYNOMIAL_NUM_COEFFICIENTS", "ICON_MIN_LOG_K",
      "FLIT_icon_estimate", "FLIT_hip_confidence_lb", "FLIT_hip_confidence_ub", "FLIT_icon_confidence_lb",
      "FLIT_icon_confidence_ub", "LIT_hip_confidence_lb", "LIT_hip_confidence_ub", "LIT_icon_confidence_lb",
      "LIT_icon_confidence_ub", "LIT_icon_estimate"],
     {"cpc/estimator.rs": ["hip_confidence_lb", "hip_confidence_ub", "icon_confidence_lb", "icon_confidence_ub", "icon_estimate"]},
     {"cpc/estimator.rs": ["ICON_LOW_SIDE_DATA", "ICON_HIGH_SIDE_DATA", "HIP_LOW_SIDE_DATA", "HIP_HIGH_SIDE_DATA",
                           "ICON_POLYNOMIAL_COEFFICIENTS"]},
     {"cpc/estimator.rs": ["hip_confidence_lb", "hip_confidence_ub", "icon_confidence_lb", "icon_confidence_ub", "icon_estimate"]}),
    ("GenBoundsTheta", ["common/binomial_bounds.rs", "common/num_std_dev.rs"],
     ["LB_EQUIV_TABLE", "UB_EQUIV_TABLE", "FLIT_cont_classic_lb", "FLIT_cont_classic_ub",
      "FLIT_compute_approx_binomial_lower_bound", "FLIT_compute_approx_binomial_upper_bound",
      "LIT_compute_approx_binomial_lower_bound", "LIT_compute_approx_binomial_upper_bound"],
     {"common/binomial_bounds.rs": ["compute_approx_binomial_lower_bound", "compute_approx_binomial_upper_bound"]},
     {"common/binomial_bounds.rs": ["LB_EQUIV_TABLE", "UB_EQUIV_TABLE"]},
     {"common/binomial_bounds.rs": ["cont_classic_lb", "cont_classic_ub", "compute_approx_binomial_lower_bound",
                                    "compute_approx_binomial_upper_bound"]}),
]

import math, struct
from common import Case

FAMILY = "bounds"
CORR = "Bounds"
FAMNUM = 9
ORACLES = {"prop_ok": 0, "tie_ok": 1, "mc_ok": 2, "mc_ok5": 3}
OPNAMES = {1: "hll_fn", 2: "cpc_fn", 3: "theta_fn", 4: "hll_sketch", 5: "cpc_sketch", 6: "theta_sketch", 7: "hll_parts", 8: "monte_carlo", 9: "hll_union", 10: "cpc_image"}


def fbits(x):
    return struct.unpack("<Q", struct.pack("<d", x))[0]


def f32bits(x):
    return struct.unpack("<I", struct.pack("<f", x))[0]


def rand_nonneg(rng):
    """finite non-negative doubles of every magnitude"""
    r = rng.random()
    if r < 0.05:
        return 0.0
    if r < 0.10:
        return rng.choice([5e-324, 2.2250738585072014e-308, 1e-300, 1.7976931348623157e308, 1e300, 8.98e307])
    if r < 0.55:
        return rng.random() * 10 ** rng.randint(0, 7)
    if r < 0.85:
        return float(rng.randint(0, 1 << rng.randint(1, 40)))
    return math.ldexp(rng.random(), rng.randint(-1070, 1023))


def hll_fn(rng):
    lgk = rng.randint(4, 21)
    k = 1 << lgk
    ooo = rng.randrange(2)
    if ooo:
        # a plausible register file: n distinct items spread over k registers
        n = rng.choice([1, k // 8 + 1, k // 2, k, 3 * k, 10 * k, 100 * k])
        zeros = int(k * math.exp(-n / k))
        kxq0 = zeros + (k - zeros) * rng.choice([0.5, 0.3, 0.1, 2.0 ** -rng.randint(1, 20)])
        kxq1 = rng.choice([0.0, 0.0, 2.0 ** -40 * rng.randint(0, 5)])
        cur_min = 0 if zeros else rng.choice([0, 1, 2])
        return (1, [lgk, 1, fbits(rand_nonneg(rng)), fbits(kxq0), fbits(kxq1), cur_min, zeros if cur_min == 0 else rng.randint(0, k)])
    return (1, [lgk, 0, fbits(rand_nonneg(rng)), fbits(float(k)), fbits(0.0), 0, k])


_XCACHE = {}


def composite_x(lgk):
    """first and last entry of the composite x-array of lg_k (read from the generated Coq table)"""
    if not _XCACHE:
        import os, re
        txt = open(os.path.join(os.path.dirname(os.path.abspath(__file__)), "..", "..", "coq", "theories", "Gen", "GenBoundsComposite.v")).read()
        body = txt[txt.index("Definition ARRAYS"):]
        rows = re.findall(r"\[([0-9; \n]+)\]", body)
        for i, r in enumerate(rows[:18]):
            v = [struct.unpack("<d", struct.pack("<Q", int(t)))[0] for t in r.replace("\n", " ").split(";")]
            _XCACHE[4 + i] = v
    return _XCACHE[lgk]


def hll_parts(rng):
    """register summaries that drive the raw estimate into every branch of get_composite_estimate"""
    lgk = rng.randint(4, 21)
    k = 1 << lgk
    xs = composite_x(lgk)
    cf = {4: 0.673, 5: 0.697, 6: 0.709}.get(lgk, 0.7213 / (1.0 + 1.079 / k))
    r = rng.random()
    if r < 0.08:
        target = xs[0] * rng.choice([0.5, 0.99, 0.999999])
    elif r < 0.16:
        target = xs[-1] * rng.choice([1.000001, 1.5, 10.0])
    elif r < 0.24:
        target = rng.choice(xs)                                  # exactly on a node (incl. first and last)
    elif r < 0.5:
        i = rng.randrange(len(xs) - 1)
        target = xs[i] + (xs[i + 1] - xs[i]) * rng.random()      # anywhere in the table
    else:
        i = rng.randrange(0, 12)                                 # low end: linear counting / crossover region
        target = xs[i] + (xs[i + 1] - xs[i]) * rng.random()
    kxq = cf * k * k / target
    kxq1 = rng.choice([0.0, 0.0, 2.0 ** -40])
    zeros = max(0, min(k, int(round(k * math.exp(-min(50.0, target / k))))))
    if rng.random() < 0.2:
        zeros = rng.choice([0, 1, k - 1, k // 2, rng.randint(0, k)])
    cur_min = 0 if zeros or rng.random() < 0.5 else rng.choice([1, 2])
    return (7, [lgk, fbits(kxq - kxq1), fbits(kxq1), cur_min, zeros])


def cpc_fn(rng):
    lgk = rng.randint(4, 26)
    k = 1 << lgk
    c = rng.choice([0, 1, 2, 3, rng.randint(1, k), rng.randint(1, 6 * k), rng.randint(5 * k, 7 * k), min(2 ** 32 - 1, rng.randint(1, 40 * k))])
    merge = rng.randrange(2)
    # HIP accumulator: at least the number of coupons (every increment is k/kxp >= 1), finite
    hip = float(c) * rng.choice([1.0, 1.0 + rng.random(), 1.5, 3.0, 10.0, 1e3]) + rng.choice([0.0, rng.random()])
    if rng.random() < 0.03:
        hip = max(hip, rng.choice([1e300, 1.7e308]))
    if hip < c:
        hip = float(c)
    if c == 0:
        hip = 0.0          # an empty sketch has accumulated nothing
    return (2, [merge, fbits(hip), lgk, c])


def theta_fn(rng):
    r = rng.random()
    if r < 0.45:
        n = rng.randint(0, 130)
    elif r < 0.8:
        n = rng.randint(120, 5000)
    else:
        n = rng.choice([0, 1, 2, 119, 120, 121, 360, 10 ** 6, 2 ** 32, 2 ** 52 + 1])
    r = rng.random()
    if r < 0.1:
        th = 1.0
    elif r < 0.2:
        th = 1.0 - 10.0 ** -rng.randint(3, 16)
    elif r < 0.5 and n > 0:
        th = min(1.0, n / 360.0 * rng.choice([0.1, 0.5, 0.99, 1.0, 1.01, 2.0]))
    elif r < 0.9:
        th = rng.random()
    else:
        th = 10.0 ** -rng.randint(1, 12) * rng.random()
    if th <= 0.0:
        th = 0.5
    if rng.random() < 0.04:
        th = rng.choice([0.0, -0.5, 1.5])      # rejected by the crate (Err); NaN cannot arise: theta is a u64 ratio
    nds = 1 if (n == 0 and rng.random() < 0.5) else 0
    return (3, [n, fbits(th), nds])


def sizes(rng, lgk, tier):
    k = 1 << lgk
    cap = 65536 if tier == "quick" else 1 << 20
    return min(cap, rng.choice([0, 1, 2, 7, 8, 9, 30, k // 8, k // 8 + 1, k // 2, k - 1, k, k + 1, 2 * k, 3 * k, 6 * k, 10 * k, 30 * k,
                                rng.randint(0, 8 * k)]))


def gen_mc(rng, tier, n):
    """Monte Carlo configurations (search mode / labelled tests): lg_k x estimator x cardinality, fixed trial counts"""
    cases = []
    trials = 2000 if tier == "quick" else 6000
    grid = []
    for lgk in (4, 6, 8, 10, 12, 13):
        k = 1 << lgk
        for n_items in (max(3, k // 16), k // 2, 2 * k, 8 * k, min(65536, 40 * k)):
            if n_items * trials > (4e7 if tier == "quick" else 2e8):
                continue
            grid.append((0, lgk, rng.randrange(3), n_items))          # HLL streamed (HIP / coupon modes)
            grid.append((0, lgk, 3 + rng.randrange(3), n_items))      # HLL union (composite)
            grid.append((1, lgk, 0, n_items))                         # CPC streamed (HIP)
            grid.append((1, lgk, 1, n_items))                         # CPC union (ICON)
            if lgk >= 5:
                grid.append((2, lgk, rng.randrange(8), n_items))      # theta (sampling variants, compact)
    rng.shuffle(grid)
    for i, (kind, lgk, var, n_items) in enumerate(grid[:n or len(grid)]):
        cases.append(Case(i, [], [(8, [kind, lgk, var, n_items, trials, rng.randrange(1 << 40)])], tag="bounds-mc"))
    return cases


# lg_k 4 sparse HIP image with 2 coupons (preInts 8, flags COMPRESSED|HIP|TABLE, seed hash of 9001): kxp 15.375,
# HIP accumulator at byte 24, one table word
CPC_IMAGE = bytes.fromhex("08011004000ecc930200000001000000" "0000000000c02e40" "0000000000000000" "6b0b0000")


def cpc_image_case(cid):
    """the image above with its HIP accumulator overwritten: values a writer produces (>= the coupon count) and values no
    writer produces (below the count, NaN, negative) that the reader nevertheless accepts (known finding C01-cpc-image-hip)"""
    ops = []
    for hip in (2.064516129032258, 2.0, 3.5, 1e6, 0.0, 1.5, -1.0, float("nan"), float("inf")):
        b = bytearray(CPC_IMAGE)
        b[24:32] = struct.pack("<d", hip)
        ops.append((10, list(b)))
    return Case(cid, [], ops, tag="bounds-cpc-crafted-hip")


def gen(rng, tier, n=None, focus=None):
    if focus == "mc":
        return gen_mc(rng, tier, n)
    n = n or (60 if tier == "quick" else 600)
    lgmax = 12 if tier == "quick" else 16
    cases = []
    for i in range(n):
        ops = []
        seed = rng.randrange(1 << 31)
        r = i % 7
        if r == 6:
            ops = [hll_parts(rng) for _ in range(60)]
        elif r == 0:
            ops = [hll_fn(rng) for _ in range(40)]
        elif r == 1:
            ops = [cpc_fn(rng) for _ in range(40)]
        elif r == 2:
            ops = [theta_fn(rng) for _ in range(40)]
        elif r == 3:
            lgk = rng.randint(4, lgmax)
            for _ in range(6):
                ops.append((4, [lgk, rng.randrange(3), sizes(rng, lgk, tier), seed + len(ops), rng.randrange(4)]))
        elif r == 4 and i % 14 == 4:
            lgk = rng.randint(4, lgmax)
            for _ in range(6):
                ops.append((9, [lgk, rng.randrange(3), sizes(rng, lgk, tier), seed + len(ops)]))
        elif r == 4:
            lgk = rng.randint(4, lgmax)
            for _ in range(6):
                ops.append((5, [lgk, sizes(rng, lgk, tier), seed + len(ops), rng.randrange(4)]))
        else:
            lgk = rng.randint(5, lgmax)
            for _ in range(6):
                p = rng.choice([1.0, 1.0, 1.0, 0.5, 0.01, 1e-4, 5e-17, 1e-30])
                ops.append((6, [lgk, sizes(rng, lgk, tier), seed + len(ops), f32bits(p), rng.randrange(4)]))
        cases.append(Case(i, [], ops, tag="bounds-%d" % r))
    cases.append(cpc_image_case(len(cases)))
    return cases


def nontrivial(case, obs):
    return len(case.ops) >= 2
