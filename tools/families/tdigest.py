"""Case generator for the t-digest family (C10, C15).

Op codes and observation formats: see coq/theories/Corr/TDigest.v.  The generator mirrors the
crate's buffering exactly (how many values sit in the buffer of every slot) because the Coq
oracle can only follow a compression whose result it has seen: before every operation that
compresses a non-empty buffer without reporting the centroids (queries, roundtrip, the update
that overflows the buffer) a `peek` (clone().serialize()) is emitted.

Inputs are chosen so that every branch decision of the crate is exact in binary64: means are
dyadic with <= 20 significant bits (random doubles only where no decision depends on rounding),
weights <= 2^20, ranks q = j / 2^m (or j / W when the total weight W is a power of two, which
puts q*W exactly on the branch boundaries 1, W-1, w0/2, W - wl/2, and the centroid centres).
"""
import json, math, os, struct
from common import Case

FAMILY = "tdigest"
CORR = "TDigest"
FAMNUM = 8
ORACLES = {"prop_ok": 0, "tie_ok": 1, "c15_ok": 2, "codec_ok": 3, "twin_ok": 4, "foreign_ok": 5, "no_panic": 6, "acc_ok": 7}
GEN_MODULES = [("GenTDigest", ["tdigest/serialization.rs", "tdigest/sketch.rs"],
                ["PREAMBLE_LONGS_EMPTY_OR_SINGLE", "PREAMBLE_LONGS_MULTIPLE", "SERIAL_VERSION", "FLAGS_IS_EMPTY",
                 "FLAGS_IS_SINGLE_VALUE", "FLAGS_REVERSE_MERGE", "COMPAT_DOUBLE", "COMPAT_FLOAT", "BUFFER_MULTIPLIER",
                 "DEFAULT_K", "LIT_make"],
                {"tdigest/sketch.rs": ["make"]})]
OPNAMES = {0: "new", 1: "update", 2: "merge", 3: "rank", 4: "quantile", 5: "cdf", 6: "pmf", 7: "total_weight",
           8: "min_value", 9: "max_value", 10: "is_empty", 11: "dump", 12: "peek", 14: "roundtrip", 15: "deserialize",
           16: "freeze_unfreeze", 17: "k", 18: "rank_of_quantile", 19: "fork", 20: "image", 21: "deserialize_f32"}
# op codes compared observation-by-observation with the exact part of the model ([run])
EXACT_MASK = [0, 1, 7, 8, 9, 10, 14, 15, 17, 19, 21]
NAN = 0x7ff8000000000000
INF = 0x7ff0000000000000
NINF = 0xfff0000000000000


def fb(x):
    return struct.unpack("<Q", struct.pack("<d", float(x)))[0]


def capacity(k):
    return 2 * k + (30 if k < 30 else 10)


def image(k, mn, mx, cs, rev=False, buffered=()):
    """the crate's own f64 image (Appendix A)"""
    total = sum(w for _, w in cs) + len(buffered)
    if total == 0:
        return list(bytes([1, 1, 20]) + struct.pack("<H", k) + bytes([1, 0, 0]))
    b = bytes([2, 1, 20]) + struct.pack("<H", k) + bytes([4 if rev else 0, 0, 0])
    b += struct.pack("<II", len(cs), len(buffered)) + struct.pack("<dd", mn, mx)
    for m, w in cs:
        b += struct.pack("<dQ", m, w)
    for v in buffered:
        b += struct.pack("<d", v)
    return list(b)


def dyadic(rng, bits=20, emin=-8, emax=8, signed=True):
    m = rng.getrandbits(rng.randint(1, bits))
    e = rng.randint(emin, emax)
    x = math.ldexp(m, e)
    if signed and rng.random() < 0.3:
        x = -x
    return x + 0.0   # no -0.0


DECIMALS = [0.1, 0.3, 1 / 3, 1e-3, 0.7, 2.2, 0.2, 1.1, 1e15 + 0.5, 123.456, 1e-9, 0.30000000000000004]       # no subnormal values: see C10.py level_note (10)


def decimal(rng):
    """a NON-dyadic value (0.1, 0.3, 1/3, ...): binary64 rounding shows in x * w and in sums; the exact model sees the double"""
    r = rng.random()
    if r < 0.5:
        x = rng.choice(DECIMALS)
    elif r < 0.8:
        x = round(rng.uniform(-10, 10), rng.choice([1, 2, 3]))
    else:
        x = rng.uniform(0, 1) * 10.0 ** rng.randint(-6, 15)
    return -x if rng.random() < 0.2 else x + 0.0


class Sim:
    """what the generator must know about a slot to keep the oracle able to follow"""
    def __init__(self, k):
        self.k, self.nb, self.n = k, 0, 0       # buffered values, total weight
        self.vals = []                           # finite values offered (None after an image)
        self.lo = self.hi = None


class Builder:
    def __init__(self, rng):
        self.rng, self.ops, self.sims = rng, [], {}

    def new(self, slot, k):
        self.ops.append((0, [slot, k])); self.sims[slot] = Sim(k)

    def peek_if_dirty(self, slot):
        if self.sims[slot].nb > 0:
            self.ops.append((12, [slot]))

    def update(self, slot, x):
        s = self.sims[slot]
        b = x if isinstance(x, int) else fb(x)
        finite = b not in (NAN, INF, NINF)
        if finite:
            if s.nb >= 4 * capacity(s.k):          # update(): buffer.len() >= capacity * BUFFER_MULTIPLIER (repair 5ca8d9c)
                self.ops.append((12, [slot])); s.nb = 0
            s.nb += 1; s.n += 1
            v = struct.unpack("<d", struct.pack("<Q", b))[0]
            if s.vals is not None:
                s.vals.append(v)
            s.lo = v if s.lo is None else min(s.lo, v)
            s.hi = v if s.hi is None else max(s.hi, v)
        self.ops.append((1, [slot, b]))

    def dump(self, slot):
        self.ops.append((11, [slot])); self.sims[slot].nb = 0

    def freeze(self, slot):
        self.ops.append((16, [slot])); self.sims[slot].nb = 0

    def roundtrip(self, slot):
        self.peek_if_dirty(slot); self.ops.append((14, [slot])); self.sims[slot].nb = 0

    def merge(self, dst, src):
        d, s = self.sims[dst], self.sims[src]
        self.ops.append((2, [dst, src]))
        if s.n > 0:
            d.nb = 0; d.n += s.n
            d.vals = None if (d.vals is None or s.vals is None) else d.vals + s.vals
            d.lo = s.lo if d.lo is None else min(d.lo, s.lo)
            d.hi = s.hi if d.hi is None else max(d.hi, s.hi)

    def query(self, code, slot, mode, args):
        """rank/quantile/cdf/pmf; args are floats (or raw bit patterns as int)"""
        s = self.sims[slot]
        bits = [a if isinstance(a, int) else fb(a) for a in args]
        if s.nb > 0:
            if mode == 0 and code == 3 and self.rng.random() < 0.5:
                self.dump(slot)                  # rank may return early without compressing: resynchronise first
            else:
                self.ops.append((12, [slot]))
        self.ops.append((code, [slot, mode] + bits))
        if mode == 0 and s.nb > 0:
            if code == 3:
                self.dump(slot)                  # whether or not rank compressed, the buffer is empty afterwards
            elif code == 4 and not args:
                pass
            else:
                s.nb = 0

    def rq(self, slot, qs):
        s = self.sims[slot]
        self.peek_if_dirty(slot)
        self.ops.append((18, [slot] + [fb(q) for q in qs]))
        if qs and s.n > 0:
            s.nb = 0

    def image(self, slot):
        """op 20: the bytes of serialize() (compresses; the oracle needs the peek to follow)"""
        self.peek_if_dirty(slot)
        self.ops.append((20, [slot])); self.sims[slot].nb = 0

    def scalars(self, slot):
        for c in (7, 8, 9, 10, 17):
            self.ops.append((c, [slot]))


def qgrid(rng, total=None):
    m = rng.choice([3, 4, 5, 6, 8])
    qs = [j / 2 ** m for j in range(2 ** m + 1)]
    if total and total & (total - 1) == 0 and total <= 2 ** 30:
        # q*W exact: sit on the branch boundaries and the centroid centres
        for j in rng.sample(range(2 * total + 1), min(40, 2 * total + 1)):
            qs.append(j / (2 * total))
        qs += [1 / total, (total - 1) / total, 0.5 / total, (total - 0.5) / total]
    qs += [rng.getrandbits(16) / 65536 for _ in range(8)]
    # NON-dyadic ranks: q * total is rounded; the exact model sees the double q
    qs += [0.313, 1 / 3, 0.1, 0.9, 6 / 11, 0.5454545454545453, 0.7, 1e-3, 1 - 1e-3] + [j / 11 for j in range(12)] + [rng.random() for _ in range(6)]
    return sorted(set(q for q in qs if 0 <= q <= 1))


def vgrid(rng, means, mn, mx, extra=()):
    """query values around the given means; overflow-safe (means may be next to +-f64::MAX), never NaN / infinite"""
    vs = set(means) | {mn, mx, mn - 1, mx + 1, mn - 0.5, mx + 0.25} | set(extra)
    ms = sorted(set(means))
    for a, b in zip(ms, ms[1:]):
        vs.add(a / 2 + b / 2); vs.add(a + (b / 4 - a / 4))
    if ms:
        vs.add(mn / 2 + ms[0] / 2); vs.add(mx / 2 + ms[-1] / 2); vs.add(mn + (ms[0] / 8 - mn / 8)); vs.add(mx - (mx / 8 - ms[-1] / 8))
    for j in range(17):
        vs.add(mn * ((16 - j) / 16) + mx * (j / 16))
    return sorted(v + 0.0 for v in vs if math.isfinite(v))


def splits(rng, mn, mx, means):
    r = rng.random()
    if r < 0.2:
        return []
    pool = sorted(set(v for v in [mn, mx, mn / 2 + mx / 2, mn - 1, mx + 1] + list(means) if math.isfinite(v)))
    n = rng.randint(1, min(8, len(pool)))
    return sorted(rng.sample(pool, n))


def random_view(rng, kind):
    """a valid image: sorted dyadic means, positive weights, min <= first mean, last mean <= max; unit end
    centroids away from min / max (the region of the former finding tdigest-D17) are NOT avoided"""
    n = rng.choice([1, 2, 2, 3, 3, 4, 5, 6, 8, 12, 20]) if rng.random() < 0.9 else rng.randint(20, 120)
    pool_bits = rng.choice([3, 6, 20])
    means = sorted((decimal(rng) if pool_bits == 3 and n > 2 else dyadic(rng, pool_bits, -4, 6)) for _ in range(n))
    if rng.random() < 0.6:
        means = sorted(set(means))
        n = len(means)
    wkind = rng.random()
    def w():
        if wkind < 0.3:
            return 1
        if wkind < 0.6:
            return rng.choice([1, 1, 2, 2, 3, 4, 5, 8])
        return rng.choice([1, 2, 3, 7, 64, 1000, 2 ** 20, rng.randint(1, 2 ** 20)])
    ws = [w() for _ in range(n)]
    if kind == "heavy-ends" and n >= 1:
        ws[0] = rng.choice([2, 2, 3, 4, 10, 1001]); ws[-1] = rng.choice([2, 2, 3, 4, 10, 1001])
    if rng.random() < 0.4 and n >= 2:
        # make the total a power of two (adjust a middle or the first weight)
        tot = sum(ws); p = 1
        while p < tot:
            p *= 2
        i = rng.randrange(n)
        ws[i] += p - tot
    gap_lo = rng.choice([0, 0, 1, 0.5, 16, 0.1, 1e9, 1e15]); gap_hi = rng.choice([0, 0, 1, 0.25, 8, 0.3, 1e9, 1e15])     # max >> last mean: the interpolation must not cancel
    mn, mx = means[0] - gap_lo, means[-1] + gap_hi
    if kind == "loose-unit":
        if rng.random() < 0.5:
            ws[0] = 1; mn = means[0] - rng.choice([1, 2, 8])
        else:
            ws[-1] = 1; mx = means[-1] + rng.choice([1, 2, 8])
        if n == 1:
            ws[0] = 1
    elif rng.random() < 0.5:
        # half of the other images keep unit end centroids on min / max (the in-process shape)
        if ws[0] == 1:
            mn = means[0]
        if ws[-1] == 1:
            mx = means[-1]
        if n == 1 and ws[0] == 1:
            mn = mx = means[0]
    return mn + 0.0, mx + 0.0, list(zip(means, ws))


def image_case(rng, cid, tier):
    """C10 on deserialized images (heavy first/last centroids, duplicates, single centroid ...)"""
    r = rng.random()
    kind = "heavy-ends" if r < 0.4 else ("loose-unit" if r > 0.8 else "any")
    mn, mx, cs = random_view(rng, kind)
    k = rng.choice([10, 20, 100, 200, 500, rng.randint(10, 500)])
    b = Builder(rng)
    total = sum(w for _, w in cs)
    means = [m for m, _ in cs]
    b.ops.append((15, [0] + image(k, mn, mx, cs, rev=rng.random() < 0.5)))
    s = Sim(k); s.n = total; s.vals = None; s.lo, s.hi = mn, mx
    b.sims[0] = s
    b.scalars(0)
    mode = rng.choice([0, 1])
    vs = vgrid(rng, means, mn, mx)
    b.query(3, 0, mode, vs)
    b.query(4, 0, 1 - mode, qgrid(rng, total))
    sp = splits(rng, mn, mx, means)
    b.query(3, 0, mode, sp); b.query(5, 0, mode, sp); b.query(6, 0, mode, sp)
    b.rq(0, qgrid(rng, total)[:40])
    # A value inside (min, first mean] or [last mean, max) becomes a unit first/last centroid that is NOT
    # min/max after the next pass (the region of the former finding tdigest-D17): offered on purpose.
    def pick(pool):
        return rng.choice(pool)
    inside_pool = [(mn + means[0]) / 2, (mx + means[-1]) / 2, mn + (means[0] - mn) / 4, mx - (mx - means[-1]) / 4]
    r = rng.random()
    if r < 0.35:
        # push the image through a compression and ask again
        for _ in range(rng.randint(1, 6)):
            b.update(0, pick(means + inside_pool + [mn, mx, mn - 2, mx + 3, dyadic(rng, 6, -2, 4), dyadic(rng, 6, -2, 4)]))
        b.dump(0) if rng.random() < 0.5 else b.freeze(0)
        b.scalars(0)
        s = b.sims[0]
        b.query(3, 0, 0, vgrid(rng, means, s.lo, s.hi)); b.query(4, 0, 0, qgrid(rng))
    elif r < 0.7:
        # merge the image into an in-process digest (min/max must be folded in) and the other way round
        b.new(1, rng.choice([10, 50, 200]))
        for _ in range(rng.choice([0, 1, 3, 30])):
            b.update(1, pick(inside_pool + [(mn + mx) / 2, mn - 1, mx + 1] + [dyadic(rng, 8, -2, 4) for _ in range(4)]))
        if rng.random() < 0.5:
            b.merge(1, 0); t = 1
        else:
            b.merge(0, 1); t = 0
        b.scalars(t)
        s = b.sims[t]
        if s.n:
            b.query(3, t, rng.choice([0, 1]), vgrid(rng, means, s.lo, s.hi)); b.query(4, t, rng.choice([0, 1]), qgrid(rng))
    elif r < 0.85:
        b.roundtrip(0); b.dump(0); b.scalars(0)
        b.query(4, 0, 0, qgrid(rng, total))
    return Case(cid, [], b.ops, tag="td-image-" + kind)


def stream(rng, shape, n):
    if shape == "sorted":
        return [float(i) for i in range(n)]
    if shape == "reversed":
        return [float(n - i) / 4 for i in range(n)]
    if shape == "random":
        return [dyadic(rng, 20, -10, 10) for _ in range(n)]
    if shape == "dups":
        pool = [dyadic(rng, 4, 0, 3) for _ in range(rng.choice([1, 2, 5, 20]))]
        return [rng.choice(pool) for _ in range(n)]
    if shape == "clustered":
        cen = [dyadic(rng, 10, 0, 10) for _ in range(4)]
        return [rng.choice(cen) + rng.getrandbits(10) / 2 ** 14 for _ in range(n)]
    if shape == "huge":
        return [math.ldexp(rng.getrandbits(12) + 1, rng.randint(-300, 300)) * rng.choice([1, -1]) for _ in range(n)]
    if shape == "doubles":
        return [rng.uniform(-1000, 1000) for _ in range(n)]
    if shape == "extreme":
        # finite values of both signs next to f64::MAX mixed with ordinary ones: x * weight and
        # mean - mean overflow (fixed defect tdigest-C10-huge-value-overflow; Centroid::add's fallback)
        big = [1e308, -1e308, 1.7976931348623157e308, -1.7976931348623157e308, 9.5e307, -9.5e307, 1.2e308, -1.6e308]
        mix = rng.choice([0.0, 0.0, 0.02, 0.1, 0.5])
        return [(rng.uniform(-10, 10) if rng.random() < mix else
                 (rng.choice(big) if rng.random() < 0.8 else rng.uniform(-1.7e308, 1.7e308))) for _ in range(n)]
    if shape == "decimal":
        # non-dyadic values, many repeated (13 x 0.3: quantile left [min, max]; fixed defect tdigest-C10-quantile-outside-range)
        pool = [decimal(rng) for _ in range(rng.choice([1, 1, 2, 5, 50]))]
        return [rng.choice(pool) for _ in range(n)]
    if shape == "offset":
        base = rng.choice([1e15, -1e15, 1e9, 4503599627370496.0, 1e300])
        return [base + (i % 64) * (abs(base) * 2.0 ** -50 + (1 if abs(base) < 1e16 else 0)) for i in range(n)]
    if shape == "heavy":
        # one heavily repeated value inside a spread-out remainder (the equal-means path of the merge pass)
        hv = rng.choice([1.0, 0.0, 50.0, 0.1, 0.3, dyadic(rng, 6, 0, 6)])
        frac = rng.choice([0.5, 0.9, 0.99])
        return [hv if rng.random() < frac else rng.uniform(0, 100) for _ in range(n)]
    return [rng.gauss(0, 1) for _ in range(n)]


SHAPES = ["sorted", "reversed", "random", "dups", "clustered", "huge", "doubles", "gauss", "extreme", "heavy", "decimal", "offset"]


EXTREME_KS = [10, 10, 11, 29, 30, 31, 32767, 32768, 40000, 65535]


def stream_case(rng, cid, tier, big=False, kchoices=None, shape=None, sizes=None):
    """C10 + C15 on in-process digests: streams of every shape through update / merge / freeze / roundtrip.
    shape / sizes force one stream shape and the stream lengths (targeted_case)."""
    b = Builder(rng)
    nslots = rng.choice([1, 1, 2, 3]) if not big else rng.choice([1, 2])
    if shape:
        nslots = rng.choice([1, 1, 2])
    k = rng.choice([10, 10, 11, 20, 29, 30, 50, 100, 200, 500, rng.randint(10, 500)])
    if rng.random() < 0.04:
        k = rng.choice([32768, 40000, 65535])          # 2 * k does not fit u16 (fixed defect tdigest-C17-two-k-u16-overflow)
    if kchoices:
        k = rng.choice(kchoices)
    if big:
        k = rng.choice([10, 12, 20, 30, 50])
    shapes = []
    for s in range(nslots):
        b.new(s, k if (rng.random() < 0.7 or kchoices) else rng.choice([10, 25, 100]))
    forced = shape
    for s in range(nslots):
        shape = forced or rng.choice(SHAPES); shapes.append(shape)
        if sizes:
            n = rng.choice(sizes)
        elif big:
            n = rng.choice([3000, 8000, 20000]) if tier == "quick" else rng.choice([20000, 40000, 60000])       # case length is bounded by the OCaml driver's stack (non-tail-recursive run)
        else:
            n = rng.choice([0, 1, 2, 3, 5, 17, 100, 400, 1500]) if tier == "quick" else rng.choice([0, 1, 2, 3, 50, 1000, 5000, 20000])
        vals = stream(rng, shape, n)
        for i, x in enumerate(vals):
            b.update(s, x)
            r = rng.random()
            if r < 0.002:
                b.update(s, rng.choice([NAN, INF, NINF]))
            elif r < 0.004 and not big:
                b.dump(s)
            elif r < 0.006 and not big:
                b.query(3, s, rng.choice([0, 1]), sorted(rng.sample(vals[:i + 1], min(5, i + 1))))
            elif r < 0.007 and not big:
                b.freeze(s)
            elif r < 0.008 and not big:
                b.roundtrip(s)
        b.scalars(s)
    # merges (trees)
    for _ in range(rng.choice([0, 1, 2, 4]) if nslots > 1 else 0):
        d, s = rng.randrange(nslots), rng.randrange(nslots)
        b.merge(d, s)
    for s in range(nslots):
        sim = b.sims[s]
        b.scalars(s)
        mode = rng.choice([0, 1])
        if sim.n == 0:
            b.query(3, s, mode, [0.0, 1.0]); b.query(4, s, mode, [0.0, 0.5, 1.0]); b.query(5, s, mode, [])
            b.query(6, s, mode, [1.0]); b.dump(s)
            continue
        lo, hi = sim.lo, sim.hi
        if shapes[s] in ("huge", "extreme"):
            vs = sorted(set(rng.sample(sim.vals, min(60, len(sim.vals))) + [lo, hi, -1.0, 0.0, 1.0])) if sim.vals else [lo, hi]
        elif shapes[s] == "heavy":
            hv = max(set(sim.vals), key=sim.vals.count) if (sim.vals and len(sim.vals) < 5000) else (sim.vals[0] if sim.vals else 0.0)
            vs = sorted(set(vgrid(rng, rng.sample(sim.vals, min(30, len(sim.vals))) if sim.vals else [], lo, hi)
                            + [hv, hv - 0.5, hv + 0.5, hv + 0.01, hv - 0.01, hv + 2.0]))
        else:
            vs = vgrid(rng, rng.sample(sim.vals, min(40, len(sim.vals))) if sim.vals else [], lo, hi)
        b.query(3, s, mode, vs)
        b.query(4, s, rng.choice([0, 1]), qgrid(rng, sim.n))
        sp = splits(rng, lo, hi, vs[:6])
        b.query(3, s, mode, sp); b.query(5, s, mode, sp); b.query(6, s, mode, sp)
        b.rq(s, qgrid(rng, sim.n)[:30])
        b.dump(s)
        if rng.random() < 0.3:
            b.roundtrip(s); b.dump(s); b.query(4, s, 0, [0.0, 0.25, 0.5, 1.0])
    return Case(cid, [], b.ops, tag=("td-extreme-k%d-" % k if kchoices else "td-stream-") + "-".join(shapes) + ("-big" if big else ""))


def targeted_case(rng, cid, tier):
    """the two regions a uniform choice of shapes reaches too rarely:
    * finite values of both signs next to f64::MAX with a small k and n >= 1000, so that single centroids absorb
      values across the gap (x * weight and mean - mean overflow: tdigest-C10-huge-value-overflow; Centroid::add's
      fallback branch);
    * one heavily repeated value inside a spread-out stream with k >= 50 (the equal-means path of the merge pass:
      cluster sizes against the scale function, rank next to the heavy value)."""
    r = rng.random()
    if r < 0.3:
        return stream_case(rng, cid, tier, kchoices=[10, 10, 20, 100], shape=rng.choice(["decimal", "offset"]), sizes=[13, 100, 5000, 5574])
    if r < 0.65:
        return stream_case(rng, cid, tier, kchoices=[10, 10, 12, 15, 20], shape="extreme", sizes=[1000, 2000, 3000])
    return stream_case(rng, cid, tier, kchoices=[50, 100, 200], shape="heavy",
                       sizes=[3000, 6000] if tier == "quick" else [10000, 30000])


def edge_case(rng, cid):
    b = Builder(rng)
    r = rng.randrange(8)
    if r == 0:
        b.ops.append((0, [0, rng.choice([0, 5, 9])]))                     # k < 10 panics
    elif r == 1:
        b.new(0, 100); b.update(0, 1.0); b.update(0, 2.0); b.query(3, 0, 0, [NAN])       # rank(NaN) panics
    elif r == 2:
        b.new(0, 100); b.update(0, 1.0); b.update(0, 2.0)
        b.query(4, 0, rng.choice([0, 1]), [rng.choice([-0.25, 1.5, NAN])])      # quantile outside [0,1] panics
    elif r == 3:
        b.new(0, 100); b.update(0, 1.0); b.update(0, 2.0)
        b.query(rng.choice([5, 6]), 0, rng.choice([0, 1]), rng.choice([[2.0, 1.0], [1.0, 1.0], [NAN], [1.0, NAN]]))
    elif r == 4:
        b.new(0, 10); b.scalars(0)
        for m in (0, 1):
            b.query(3, 0, m, [0.0]); b.query(4, 0, m, [0.5]); b.query(5, 0, m, []); b.query(6, 0, m, [0.0, 1.0])
        b.roundtrip(0); b.scalars(0); b.dump(0)
        b.update(0, NAN); b.update(0, INF); b.scalars(0)
    elif r == 5:
        b.new(0, 10); b.update(0, 3.5); b.scalars(0)
        for m in (0, 1):
            b.query(3, 0, m, [3.0, 3.5, 4.0]); b.query(4, 0, m, [0.0, 0.5, 1.0]); b.query(5, 0, m, [])
            b.query(6, 0, m, []); b.query(5, 0, m, [3.5])
        b.roundtrip(0); b.dump(0); b.scalars(0)
    elif r == 6:
        b.new(0, 10); b.update(0, 1.0); b.update(0, 2.0)
        for m in (1, 0):
            b.query(3, 0, m, [0.99, 1.0, 1.25, 1.5, 1.75, 2.0, 2.01]); b.query(4, 0, m, [0.0, 0.25, 0.5, 0.75, 1.0])
            b.query(5, 0, m, []); b.query(6, 0, m, []); b.query(5, 0, m, [1.5]); b.query(6, 0, m, [1.5])
        b.new(1, 10); b.merge(0, 1); b.merge(1, 0); b.scalars(1); b.merge(1, 1); b.scalars(1)
        b.query(3, 1, 0, [1.0, 1.5, 2.0])
    else:
        # empty and single-value images, an image with buffered values
        b.ops.append((15, [0] + image(20, 0, 0, []))); b.sims[0] = Sim(20)
        b.scalars(0)
        b.ops.append((15, [1] + list(bytes([1, 1, 20]) + struct.pack("<H", 33) + bytes([2, 0, 0]) + struct.pack("<d", 2.5))))
        s = Sim(33); s.n = 1; s.lo = s.hi = 2.5; s.vals = None; b.sims[1] = s
        b.scalars(1); b.query(3, 1, 0, [2.0, 2.5, 3.0]); b.query(4, 1, 1, [0.0, 1.0])
        b.ops.append((15, [2] + image(10, 1.0, 9.0, [(1.0, 1), (5.0, 2), (9.0, 1)], buffered=[4.0, 6.0])))
        s = Sim(10); s.n = 6; s.nb = 2; s.lo, s.hi = 1.0, 9.0; s.vals = None; b.sims[2] = s
        b.scalars(2); b.query(3, 2, 1, [1.0, 4.0, 5.0, 9.0]); b.query(4, 2, 0, qgrid(rng)); b.dump(2)
        b.ops.append((15, [3] + image(10, 1.0, 9.0, [(1.0, 1), (5.0, 0), (9.0, 1)])))     # zero weight: Err
    return Case(cid, [], b.ops, tag="td-edge-%d" % r)


# ======================= codec legs (C11, C12, C13, C14, C18 parts) =======================
REF_FILES = ["tdigest_ref_k100_n10000_double.sk", "tdigest_ref_k100_n10000_float.sk"]


def f32bits(x):
    return struct.unpack("<I", struct.pack("<f", float(x)))[0]


def f32round(x):
    return struct.unpack("<f", struct.pack("<f", float(x)))[0]


def enc_own(k, mn, mx, cs, buffered=(), rev=False, flt=False, flag_hi=0, unused=0):
    """independent encoder of the DataSketches layout (Appendix A), double or float flavour"""
    total = sum(w for _, w in cs) + len(buffered)
    fv = (lambda x: struct.pack("<f", x)) if flt else (lambda x: struct.pack("<d", x))
    fw = (lambda w: struct.pack("<I", w)) if flt else (lambda w: struct.pack("<Q", w))
    fl = (4 if rev else 0) | flag_hi
    if total == 0:
        return list(bytes([1, 1, 20]) + struct.pack("<H", k) + bytes([1 | fl]) + struct.pack("<H", unused))
    if total == 1 and len(cs) == 1 and not buffered and mn == mx == cs[0][0]:
        return list(bytes([1, 1, 20]) + struct.pack("<H", k) + bytes([2 | fl]) + struct.pack("<H", unused) + fv(mn))
    b = bytes([2, 1, 20]) + struct.pack("<H", k) + bytes([fl]) + struct.pack("<H", unused)
    b += struct.pack("<II", len(cs), len(buffered)) + fv(mn) + fv(mx)
    for m, w in cs:
        b += fv(m) + fw(w)
    for v in buffered:
        b += fv(v)
    return list(b)


def enc_ref(k, mn, mx, cs, flt=False, unused=(210, 1050)):
    """the reference implementation's big-endian encodings (asBytes / asSmallBytes)"""
    if not flt:
        b = struct.pack(">i", 1) + struct.pack(">ddd", mn, mx, float(k)) + struct.pack(">i", len(cs))
        for m, w in cs:
            b += struct.pack(">dd", float(w), m)
    else:
        b = struct.pack(">i", 2) + struct.pack(">dd", mn, mx) + struct.pack(">f", float(k)) + struct.pack(">hh", *unused)
        b += struct.pack(">h", len(cs))
        for m, w in cs:
            b += struct.pack(">ff", float(w), m)
    return list(b)


def random_abstract(rng, flt=False, maxn=40, maxw=2 ** 20, with_buffer=True, nb=None):
    """sorted means, positive weights, min <= first mean, last mean <= max, tight unit ends"""
    n = rng.choice([1, 2, 2, 3, 4, 5, 8, 12, maxn])
    bits = rng.choice([3, 6, 16])
    means = sorted(set(dyadic(rng, bits, -4, 6) for _ in range(n)))
    if rng.random() < 0.25:
        means = sorted(set(decimal(rng) for _ in range(n)))          # non-dyadic means
    if rng.random() < 0.2 and len(means) > 2:
        means[1] = means[0]                          # duplicate means are legal
    ws = [rng.choice([1, 1, 2, 3, 7, 64, 1000, rng.randint(1, maxw)]) for _ in means]
    mn = means[0] - rng.choice([0, 0, 1, 0.5, 16, 0.1, 1e9, 1e15]); mx = means[-1] + rng.choice([0, 0, 1, 0.25, 8, 0.3, 1e9, 1e15])
    tight = rng.random() < 0.5                       # half of the images have the in-process shape
    if tight and ws[0] == 1:
        mn = means[0]
    if tight and ws[-1] == 1:
        mx = means[-1]
    nb = nb if nb is not None else (rng.choice([0, 0, 1, 2, 5, 17]) if with_buffer else 0)
    # buffered values of a real digest: the centroids end in unit centroids sitting on the old extremes and a
    # buffered value lies between them or is a new extreme; the other half are arbitrary valid images (unit
    # or heavy end centroids anywhere inside [min, max]: the region of the former finding tdigest-D17)
    if nb and tight:
        ws[0] = ws[-1] = 1; mn, mx = means[0], means[-1]
    lo, hi = (means[0], means[-1]) if tight else (mn, mx)
    # clamped: lo + (hi - lo) * 64 / 64 may round past hi when the ends differ by 1e15 (a value outside [min, max] is
    # accepted by the reader but is not a consistent image: declared gap, C17_tdigest covers)
    buffered = [min(max(lo + (hi - lo) * rng.randrange(0, 65) / 64, lo), hi) for _ in range(nb)] if hi > lo else [lo] * nb
    if nb and rng.random() < 0.3:
        mn = mn - 1; buffered[0] = mn
    if nb > 1 and rng.random() < 0.3:
        mx = mx + 2; buffered[-1] = mx
    if flt:
        means = [f32round(m) for m in means]; mn, mx = f32round(mn), f32round(mx); buffered = [f32round(v) for v in buffered]
    return mn + 0.0, mx + 0.0, list(zip(means, ws)), [v + 0.0 for v in buffered]


def variant_image(rng):
    """(op code, bytes, k, total, nb, mn, mx, means) for a random format variant"""
    k = rng.choice([10, 20, 100, 200, 500, 2000, rng.randint(10, 3000)])
    kind = rng.choice(["own", "own", "own-f32", "own-f32", "ref-d", "ref-f", "empty", "single", "single-f32"])
    flag_hi = rng.choice([0, 0, 0, 8, 0x80, 0xf8]); unused = rng.choice([0, 0, 0xffff, rng.getrandbits(16)])
    rev = rng.random() < 0.5
    if kind == "empty":
        return rng.choice([15, 21]), enc_own(k, 0, 0, [], rev=rev, flag_hi=flag_hi, unused=unused), k, 0, 0, None, None, []
    if kind.startswith("single"):
        flt = kind.endswith("f32"); v = dyadic(rng, 12, -6, 8)
        return (21 if flt else 15), enc_own(k, v, v, [(v, 1)], rev=rev, flt=flt, flag_hi=flag_hi, unused=unused), k, 1, 0, v, v, [v]
    flt = kind in ("own-f32", "ref-f")
    over = kind.startswith("own") and rng.random() < 0.1
    if over:
        k = rng.choice([10, 12, 20])                 # an image announcing MORE buffered values than 4 * capacity (fixed 5ca8d9c)
    mn, mx, cs, buffered = random_abstract(rng, flt=flt, maxw=(2 ** 20 if kind != "ref-f" else 2 ** 16), with_buffer=kind.startswith("own"),
                                           nb=(4 * capacity(k) + rng.choice([0, 1, 7, 100]) if over else None))
    total = sum(w for _, w in cs)
    means = [m for m, _ in cs]
    if kind.startswith("own"):
        if total + len(buffered) == 1:
            buffered = [mn]
        return (21 if flt else 15), enc_own(k, mn, mx, cs, buffered, rev=rev, flt=flt, flag_hi=flag_hi, unused=unused), \
            k, total + len(buffered), len(buffered), mn, mx, means
    k = min(k, 2000)
    return rng.choice([15, 21]), enc_ref(k, mn, mx, cs, flt=(kind == "ref-f")), k, total, 0, mn, mx, means


def load_ref(name):
    path = os.path.join(os.environ.get("VERIF_REPO", "/repo"), "datasketches", "tests", "test_data", name)
    return list(open(path, "rb").read())


def deser_into(b, slot, code, img, k, total, nb, mn, mx):
    b.ops.append((code, [slot] + img))
    s = Sim(k); s.n = total; s.nb = nb; s.vals = None; s.lo, s.hi = mn, mx
    b.sims[slot] = s


def foreign_case(rng, cid):
    """C13: every variant a foreign writer emits, decoded and then used"""
    b = Builder(rng)
    r = rng.random()
    if r < 0.12:
        name = rng.choice(REF_FILES)
        deser_into(b, 0, rng.choice([15, 21]), load_ref(name), 100, 10000, 0, 0.0, 9999.0)
        means = [0.0, 2500.0, 5000.0, 7500.0, 9999.0]; mn, mx, total = 0.0, 9999.0, 10000
        tag = "td-foreign-reffile"
    else:
        code, img, k, total, nb, mn, mx, means = variant_image(rng)
        deser_into(b, 0, code, img, k, total, nb, mn, mx)
        tag = "td-foreign"
    b.scalars(0)
    b.ops.append((12, [0]))
    if total > 0:
        mode = rng.choice([0, 1])
        b.query(3, 0, mode, vgrid(rng, means, mn, mx)); b.query(4, 0, 1 - mode, qgrid(rng, total))
        sp = splits(rng, mn, mx, means); b.query(5, 0, mode, sp); b.query(6, 0, mode, sp)
    r = rng.random()
    if r < 0.4:
        for _ in range(rng.randint(1, 5)):
            b.update(0, rng.choice([mn, mx] if total > 0 else [1.0]) if rng.random() < 0.5 else dyadic(rng, 6, -2, 4))
        b.dump(0); b.scalars(0)
    elif r < 0.7:
        b.new(1, rng.choice([10, 100])); b.update(1, 3.0); b.update(1, -2.5)
        b.merge(1, 0); b.scalars(1); b.dump(1)
    elif r < 0.9:
        b.roundtrip(0); b.scalars(0); b.dump(0)
    return Case(cid, [], b.ops, tag=tag)


def twin_do(b, src, dst, fn):
    """apply fn (a Builder method call on src) and repeat every emitted op on dst right after it"""
    start = len(b.ops)
    fn(src)
    new = b.ops[start:]; del b.ops[start:]
    for c, a in new:
        b.ops.append((c, a)); b.ops.append((c, [dst] + list(a[1:])))
    import copy
    b.sims[dst] = copy.deepcopy(b.sims[src])


def single_value_case(rng, cid):
    """C11: a digest holding exactly ONE value, forked / round-tripped and then used: the flags byte
    (SINGLE_VALUE, REVERSE_MERGE) and every later compression must agree with the original"""
    import copy
    b = Builder(rng)
    k = rng.choice([10, 10, 12, 20, 100])
    b.new(0, k); b.new(2, k)
    x = dyadic(rng, 10, -3, 6)
    b.update(0, x)
    if rng.random() < 0.7:
        b.dump(0)                                 # compress: reverse_merge flips
    for y in stream(rng, "random", rng.choice([0, 3, 40])):
        b.update(2, y)
    b.image(0)
    b.sims[0].nb = 0
    b.scalars(0)
    if rng.random() < 0.5:
        b.roundtrip(0); b.image(0); b.scalars(0)
    b.peek_if_dirty(0)
    b.ops.append((19, [0, 1])); b.sims[1] = copy.deepcopy(b.sims[0])
    twin_do(b, 0, 1, lambda s_: (b.image(s_), b.scalars(s_)))
    twin_do(b, 0, 1, lambda s_: b.query(4, s_, 0, [0.0, 0.5, 1.0]))
    for rnd in range(rng.randint(1, 3)):
        n = rng.choice([1, 2, 5, 4 * capacity(k) + 3])
        for y in stream(rng, rng.choice(["random", "sorted", "dups"]), n):
            twin_do(b, 0, 1, lambda s_, y=y: b.update(s_, y))
        if rng.random() < 0.5:
            twin_do(b, 0, 1, lambda s_: b.merge(s_, 2))
        twin_do(b, 0, 1, lambda s_: (b.dump(s_), b.image(s_), b.scalars(s_)))
        if rng.random() < 0.4:
            twin_do(b, 0, 1, lambda s_: b.roundtrip(s_))
    sim = b.sims[0]
    twin_do(b, 0, 1, lambda s_: b.query(3, s_, 1, vgrid(rng, [], sim.lo, sim.hi)))
    twin_do(b, 0, 1, lambda s_: b.query(4, s_, 1, qgrid(rng, sim.n)))
    return Case(cid, [], b.ops, tag="td-codec-single")


def codec_case(rng, cid, tier, twins=True):
    """C11 / C12: states reached by histories; the crate's bytes (op 20), forks and twin behaviour"""
    b = Builder(rng)
    k = rng.choice([10, 10, 20, 30, 100, 200, 500, rng.randint(10, 500)])
    b.new(0, k); b.new(2, rng.choice([k, 10, 100]))
    shape = rng.choice(SHAPES)
    n = rng.choice([0, 1, 2, 3, 5, 40, 300, 1200]) if tier == "quick" else rng.choice([0, 1, 2, 3, 50, 1000, 5000])
    vals = stream(rng, shape, n)
    for x in vals:
        b.update(0, x)
        if rng.random() < 0.01:
            b.dump(0); b.image(0)
    for x in stream(rng, rng.choice(SHAPES), rng.choice([0, 1, 7, 100])):
        b.update(2, x)
    b.dump(0); b.image(0); b.scalars(0)
    if rng.random() < 0.3:
        b.merge(0, 2); b.image(0)
    if not twins:
        if rng.random() < 0.5:
            b.freeze(0); b.image(0)
        b.dump(2); b.image(2)
        return Case(cid, [], b.ops, tag="td-layout-" + shape)
    # fork and drive both copies in lock step
    b.peek_if_dirty(0)
    b.ops.append((19, [0, 1]))
    import copy
    b.sims[0].nb = 0
    b.sims[1] = copy.deepcopy(b.sims[0])
    sim = b.sims[0]
    for _ in range(rng.randint(2, 6)):
        r = rng.random()
        if r < 0.35:
            xs = stream(rng, rng.choice(SHAPES), rng.choice([1, 3, 30, 4 * capacity(k) + 5 if k <= 30 else 50]))
            for x in xs:
                twin_do(b, 0, 1, lambda s_, x=x: b.update(s_, x))
        elif r < 0.5:
            twin_do(b, 0, 1, lambda s_: b.merge(s_, 2))
        elif r < 0.6:
            twin_do(b, 0, 1, lambda s_: b.roundtrip(s_))
        elif r < 0.7:
            twin_do(b, 0, 1, lambda s_: b.freeze(s_))
        else:
            if sim.n > 0 and sim.lo is not None:
                mode = rng.choice([0, 1])
                vs = vgrid(rng, [], sim.lo, sim.hi) if abs(sim.lo) < 1e300 and abs(sim.hi) < 1e300 else [sim.lo, sim.hi]
                qs = qgrid(rng, sim.n)
                twin_do(b, 0, 1, lambda s_: b.query(3, s_, mode, vs))
                twin_do(b, 0, 1, lambda s_: b.query(4, s_, mode, qs))
        twin_do(b, 0, 1, lambda s_: (b.dump(s_), b.image(s_), b.scalars(s_)))
    return Case(cid, [], b.ops, tag="td-codec-" + shape)


def py_total(img, flt):
    """total weight the reader would compute from an (own-format or reference) image; None if it cannot be read"""
    try:
        bs = bytes(img)
        if bs[:3] == b"\0\0\0":
            ty = struct.unpack(">i", bs[:4])[0]
            if ty == 1:
                n = struct.unpack(">I", bs[28:32])[0]
                return sum(int(min(max(struct.unpack(">d", bs[32 + 16 * i:40 + 16 * i])[0], 0), 2 ** 64 - 1)) for i in range(min(n, 4096)))
            n = struct.unpack(">H", bs[28:30])[0]
            return sum(int(min(max(struct.unpack(">f", bs[30 + 8 * i:34 + 8 * i])[0], 0), 2 ** 64 - 1)) for i in range(n))
        if bs[5] & 1:
            return 0
        if bs[5] & 2:
            return 1
        nc, nb = struct.unpack("<II", bs[8:16])
        if flt:
            return sum(struct.unpack("<I", bs[28 + 8 * i:32 + 8 * i])[0] for i in range(min(nc, 4096))) + nb
        return sum(struct.unpack("<Q", bs[40 + 16 * i:48 + 16 * i])[0] for i in range(min(nc, 4096))) + nb
    except Exception:
        return None


def mutate(rng, img):
    img = list(img); r = rng.random()
    if r < 0.25 and img:
        for _ in range(rng.choice([1, 1, 2, 4])):
            i = rng.randrange(len(img)); img[i] ^= 1 << rng.randrange(8)
    elif r < 0.4 and img:
        i = rng.randrange(len(img)); img[i] = rng.choice([0, 1, 2, 0x7f, 0x80, 0xff])
    elif r < 0.6 and len(img) >= 16:
        # boundary values in the count fields (own format: nc @8, nb @12; reference: n @28)
        off = rng.choice([8, 12, 28]) if len(img) >= 32 else rng.choice([8, 12])
        v = rng.choice([0, 1, len(img), len(img) // 16 + 1, 0xffff, 0x10000, 0x7fffffff, 0x80000000, 0xffffffff, rng.getrandbits(32)])
        img[off:off + 4] = list(struct.pack(rng.choice(["<I", ">I"]), v))
    elif r < 0.7 and len(img) >= 8:
        img[3:5] = list(struct.pack("<H", rng.choice([0, 9, 10, 65535, rng.getrandbits(16)])))      # k
        if rng.random() < 0.5:
            img[5] = rng.getrandbits(8)                                                               # flags
    elif r < 0.85:
        img = img[:rng.randrange(len(img) + 1)]                                                       # truncation
    elif r < 0.93:
        img = img + [rng.getrandbits(8) for _ in range(rng.choice([1, 7, 8, 16, 100]))]               # extension
    else:
        img = [rng.getrandbits(8) for _ in range(rng.choice([0, 1, 3, 8, 16, 32, 33, 64, 200]))]
        if rng.random() < 0.5 and len(img) >= 3:
            img[:3] = rng.choice([[2, 1, 20], [1, 1, 20], [0, 0, 0]])
    return img


def weird_float_image(rng):
    """(code, image): one field of an otherwise valid image is a value the readers must check:
    NaN / infinity in a mean, in min / max, among the BUFFERED values; zero and huge weights; both
    flavours and the reference formats"""
    nan, inf = float("nan"), float("inf")
    specials = [nan, nan, inf, -inf, 0.0, -0.0, 5e-324, 1.7976931348623157e308]
    k = rng.choice([10, 100])
    flt = rng.random() < 0.4
    cs = [(1.0, 1), (2.0, 3), (3.0, 1)]
    mn, mx = 1.0, 3.0
    buffered = [1.5, 2.5][:rng.choice([0, 1, 2, 2])]
    target = rng.choice(["mean", "min", "max", "buffered", "buffered", "weight", "single"])
    sp = rng.choice(specials)
    if flt and sp in (5e-324, 1.7976931348623157e308):
        sp = nan
    if target == "mean":
        i = rng.randrange(3); cs[i] = (sp, cs[i][1])
    elif target == "min":
        mn = sp
    elif target == "max":
        mx = sp
    elif target == "buffered":
        buffered = buffered + [2.0]; buffered[rng.randrange(len(buffered))] = sp
    elif target == "weight":
        big = [0, 2 ** 32 - 1] if flt else [0, 2 ** 63, 2 ** 64 - 1, 2 ** 64 - 2]
        cs[1] = (2.0, rng.choice(big)); cs[2] = (3.0, rng.choice([1, 2] + big[1:]))
    else:
        b = bytes([1, 1, 20]) + struct.pack("<H", k) + bytes([2, 0, 0]) + (struct.pack("<f", sp) if flt else struct.pack("<d", sp))
        return (21 if flt else 15), list(b)
    r = rng.random()
    if r < 0.25 and target in ("mean", "min", "max", "weight"):
        # reference formats: weights are floats (NaN -> 0 -> Err, inf -> u64::MAX)
        w = [float(x) for _, x in cs]
        if target == "weight":
            w[1] = rng.choice([nan, inf, -1.0, 0.0, 0.5, 1e30])
        cs2 = [(m, 1) for m, _ in cs]
        img = enc_ref(k, mn, mx, cs2, flt=flt)
        # patch the weights in place
        bs = bytearray(img)
        if flt:
            for i, x in enumerate(w):
                bs[30 + 8 * i:34 + 8 * i] = struct.pack(">f", x)
        else:
            for i, x in enumerate(w):
                bs[32 + 16 * i:40 + 16 * i] = struct.pack(">d", x)
        return rng.choice([15, 21]), list(bs)
    fv = (lambda x: struct.pack("<f", x)) if flt else (lambda x: struct.pack("<d", x))
    fw = (lambda x: struct.pack("<I", x)) if flt else (lambda x: struct.pack("<Q", x))
    b = bytes([2, 1, 20]) + struct.pack("<H", k) + bytes([rng.choice([0, 4]), 0, 0])
    b += struct.pack("<II", len(cs), len(buffered)) + fv(mn) + fv(mx)
    for m, w in cs:
        b += fv(m) + fw(w)
    for v in buffered:
        b += fv(v)
    return (21 if flt else 15), list(b)


def malformed_case(rng, cid):
    """C14: mutated images; every outcome must be Ok or Err, and every Ok value must be usable"""
    b = Builder(rng)
    r = rng.random()
    if r < 0.25:
        code, img = weird_float_image(rng)
    elif r < 0.32:
        img = mutate(rng, load_ref(rng.choice(REF_FILES))); code = rng.choice([15, 21])
    else:
        code, img, *_ = variant_image(rng)
        img = mutate(rng, img)
        if rng.random() < 0.15:
            code = 36 - code                                             # the wrong flavour
    b.ops.append((code, [0] + img))
    tot = py_total(img, code == 21)
    # usable afterwards (a slot left unset by an Err makes the harness ops no-ops: it panics on unwrap,
    # so only exercise when the image was accepted -- decided by the harness: ops on an unset slot are skipped
    # by emitting them through a guarded op list)
    ex = []
    ex += [(c, [0]) for c in (7, 8, 9, 10, 17)]
    ex += [(3, [0, rng.choice([0, 1])] + [fb(x) for x in (-1e300, -1.0, 0.0, 1.0, 2.0, 2.5, 1e300)])]
    ex += [(4, [0, rng.choice([0, 1])] + [fb(q) for q in (0.0, 0.01, 0.25, 0.5, 0.75, 0.99, 1.0)])]
    ex += [(5, [0, rng.choice([0, 1])] + [fb(x) for x in (0.0, 1.5, 2.5)]), (6, [0, rng.choice([0, 1])])]
    ex += [(20, [0]), (14, [0]), (16, [0])]
    if tot is not None and tot < 2 ** 62:
        ex += [(1, [0, fb(1.5)]), (1, [0, fb(-7.0)]), (11, [0]), (2, [0, 0]), (11, [0]), (4, [0, 0, fb(0.5)]), (20, [0])]
    b.ops += ex
    return Case(cid, [], b.ops, tag="td-malformed")


def weight_capacity_case(cid):
    """known: a digest whose total weight is at the edge of u64 overflows on the next update + compress"""
    img = image(100, 1.0, 3.0, [(1.0, 1), (2.0, 2 ** 64 - 3), (3.0, 1)])
    ops = [(15, [0] + img), (7, [0]), (1, [0, fb(2.0)]), (1, [0, fb(2.5)]), (11, [0])]
    return Case(cid, [], ops, tag="td-known-weight-capacity")


def size_case(rng, cid, tier):
    """C18: image size after every power-of-two prefix of a long stream"""
    b = Builder(rng)
    k = rng.choice([10, 20, 50, 100, 200, 500])
    b.new(0, k)
    n = 2 ** (14 if tier == "quick" else 16)               # bounded by the OCaml driver's stack
    shape = rng.choice(["sorted", "reversed", "random", "dups", "clustered", "doubles", "gauss"])
    vals = stream(rng, shape, n)
    p = 1
    for i, x in enumerate(vals):
        b.update(0, x)
        if i + 1 == p:
            b.dump(0); b.image(0); b.scalars(0); p *= 2
    return Case(cid, [], b.ops, tag="td-size-" + shape)


def valid_edge_case(rng, cid):
    """C17: documented-precondition calls at the edges: empty / single digests, empty split lists, q = 0 and 1,
    NaN / infinite updates (ignored), merges with empty digests, freeze / round trip of empty and single digests"""
    b = Builder(rng)
    k = rng.choice(EXTREME_KS)
    b.new(0, k); b.new(1, rng.choice(EXTREME_KS))
    for m in (0, 1):
        b.query(3, 0, m, [0.0, -1.0]); b.query(4, 0, m, [0.0, 0.5, 1.0]); b.query(5, 0, m, []); b.query(6, 0, m, []); b.query(5, 0, m, [1.0, 2.0])
    b.update(0, NAN); b.update(0, INF); b.update(0, NINF); b.scalars(0)
    b.merge(0, 1); b.merge(1, 0); b.roundtrip(0); b.freeze(0); b.dump(0); b.scalars(0)
    vals = stream(rng, rng.choice(SHAPES), rng.choice([1, 1, 2, 3, 4, 5]))
    for x in vals:
        b.update(0, x)
        if rng.random() < 0.5:
            for m in (0, 1):
                b.query(3, 0, m, sorted(vals)); b.query(4, 0, m, [0.0, 0.5, 1.0]); b.query(5, 0, m, []); b.query(6, 0, m, [])
            b.scalars(0)
    b.merge(1, 0); b.merge(0, 1); b.merge(0, 0); b.dump(0); b.roundtrip(0); b.freeze(0); b.scalars(0)
    sim = b.sims[0]
    if sim.n:
        b.query(4, 0, 0, qgrid(rng, sim.n)); b.rq(0, [0.0, 1.0, 0.5])
    return Case(cid, [], b.ops, tag="td-extreme-edge")


_FOCUS = [None]


def gen(rng, tier, n=None, focus=None):
    _FOCUS[0] = focus
    n = n or (140 if tier == "quick" else 1500)
    out = []
    if focus == "extremes":
        return [targeted_case(rng, i, tier) if i % 8 == 3 else
                (valid_edge_case(rng, i) if rng.random() < 0.4 else stream_case(rng, i, tier, kchoices=EXTREME_KS)) for i in range(n)]
    if focus in ("codec", "layout", "foreign", "malformed", "size"):
        for i in range(n):
            r = rng.random()
            if focus == "codec":
                out.append(single_value_case(rng, i) if r < 0.25 else codec_case(rng, i, tier))
            elif focus == "layout":
                out.append(codec_case(rng, i, tier, twins=False) if r < 0.75 else foreign_case(rng, i))
            elif focus == "foreign":
                out.append(foreign_case(rng, i))
            elif focus == "malformed":
                out.append(weight_capacity_case(i) if i == 0 else malformed_case(rng, i))
            else:
                out.append(size_case(rng, i, tier))
        return out
    for i in range(n):
        r = rng.random()
        if i % 10 == 7:
            out.append(targeted_case(rng, i, tier))
        elif focus == "c15":
            if r < 0.08:
                out.append(stream_case(rng, i, tier, big=True))
            elif r < 0.9:
                out.append(stream_case(rng, i, tier))
            else:
                out.append(edge_case(rng, i))
        else:
            if r < 0.55:
                out.append(image_case(rng, i, tier))
            elif r < 0.88:
                out.append(stream_case(rng, i, tier))
            elif r < 0.90:
                out.append(stream_case(rng, i, tier, big=True))
            else:
                out.append(edge_case(rng, i))
    return out


# ---------------- measured (NOT proved) sub-claims of C15: labelled tests ----------------
# The pass / fail versions are Coq oracles (Corr/TDigest.v): c15_ok (centroid count <= 2k+30) and acc_ok (cluster
# sizes against the k2 scale function, rank against the exact empirical rank).  _measure only RECORDS the worst
# cases seen in this run, next to the thresholds, in evidence/measured/.
ACC_SIZE_C = 2          # Corr/TDigest.v ACC_SIZE_C
ACC_NEIGH_F = 4         # Corr/TDigest.v ACC_NEIGH_F
_MEASURED = {"note": "MEASURED TESTS, not theorems (DESIGN.md section 9).  centroids/(2k+30) <= 1 is checked by oracle c15_ok; "
                     "size_ratio <= ACC_SIZE_C and neigh_ratio_single <= ACC_NEIGH_F are checked by oracle acc_ok; the other "
                     "numbers are recorded only",
             "thresholds": {"max_centroids_over_bound": 1.0, "size_ratio": ACC_SIZE_C, "neigh_ratio_single": ACC_NEIGH_F},
             "max_centroids_over_bound": 0.0, "dumps": 0, "size_ratio": 0.0, "neigh_ratio_single": 0.0, "neigh_ratio_merged": 0.0,
             "max_abs_rank_err": 0.0, "rank_points": 0}


def _is_nonfinite(b):
    return (b >> 52) & 0x7ff == 0x7ff


def _f(b):
    return struct.unpack("<d", struct.pack("<Q", b))[0]


def _measure(case, obs):
    """follows every slot whose complete multiset of values is known (in-process streams, through merge, fork and
    round trips; a slot filled from a foreign image is not followed) and records
    * centroids / (2k+30) on every dump,
    * size_ratio: (w - 1) / (n max(q0(1-q0), q2(1-q2)) Z / 2k) over the centroids of every dump (k = the smallest
      compression that contributed; Z = 4 ln(n/2k) + 24),
    * neigh_ratio: (|rank(v) - empirical mid-rank| - 1/2n) / (weight of the centroids around v / n), separately for
      never-merged digests (checked) and merged ones (recorded only: centroids of a coarser digest overlap),
    * the largest absolute rank error and where it occurred."""
    import bisect
    M = _MEASURED
    ks, kmin, vals, merged, cent = {}, {}, {}, {}, {}
    for (code, a), ob in zip(case.ops, obs):
        if ob == [-999]:
            break
        if ob == [-996]:
            continue
        slot = a[0] if a else None
        if code == 0:
            ks[slot] = kmin[slot] = a[1]; vals[slot] = []; merged[slot] = False; cent[slot] = None
        elif code in (15, 21):
            if ob == [1]:
                ks.pop(slot, None); vals[slot] = None; cent[slot] = None
        elif code == 1 and slot in ks and not _is_nonfinite(a[1]):
            if vals.get(slot) is not None:
                vals[slot].append(_f(a[1]))
            cent[slot] = None
        elif code == 2 and ob and slot in ks:
            src = a[1]
            if src in ks:
                kmin[slot] = min(kmin[slot], kmin[src])
                vals[slot] = None if (vals.get(slot) is None or vals.get(src) is None) else vals[slot] + vals[src]
            else:
                ks.pop(slot, None); vals[slot] = None
            merged[slot] = True
        elif code == 19:
            dst = a[1]
            if slot in ks:
                ks[dst], kmin[dst], merged[dst], cent[dst] = ks[slot], kmin[slot], merged[slot], cent.get(slot)
                vals[dst] = None if vals.get(slot) is None else list(vals[slot])
            else:
                ks.pop(dst, None); vals[dst] = None
        if code in (2, 11, 12, 16) and len(ob) >= 5 and slot in ks:
            cs = [(_f(ob[5 + 2 * i]), ob[6 + 2 * i]) for i in range((len(ob) - 5) // 2)]
            cent[slot] = cs
            n = sum(w for _, w in cs)
            M["dumps"] += 1
            M["max_centroids_over_bound"] = max(M["max_centroids_over_bound"], len(cs) / (2 * ks[slot] + 30))
            k = kmin[slot]
            if n and k >= 10:
                z = 4 * math.log(max(1.0, n / (2 * k))) + 24
                W = 0
                for _, w in cs:
                    if w >= 2:
                        q0, q2 = W / n, (W + w) / n
                        lim = n * max(q0 * (1 - q0), q2 * (1 - q2)) * z / (2 * k)
                        if lim > 0 and (w - 1) / lim > M["size_ratio"]:
                            M["size_ratio"] = (w - 1) / lim
                            M["size_ratio_at"] = {"k": k, "n": n, "w": w, "q0": q0, "case_tag": case.tag}
                    W += w
        if code == 3 and slot in ks and vals.get(slot) and cent.get(slot):
            sv = sorted(vals[slot]); n = len(sv); cs = cent[slot]
            means = [m for m, _ in cs]; ws = [w for _, w in cs]; cw = sum(ws)
            for vb, rb in zip(a[2:], ob):
                if rb < 0 or _is_nonfinite(vb):
                    continue
                v, r = _f(vb), _f(rb)
                true = (bisect.bisect_left(sv, v) + bisect.bisect_right(sv, v)) / 2 / n
                err = abs(r - true)
                M["rank_points"] += 1
                if err > M["max_abs_rank_err"]:
                    M["max_abs_rank_err"] = err
                    M["max_abs_rank_err_at"] = {"k": kmin[slot], "n": n, "true_rank": true, "merged": merged[slot], "case_tag": case.tag}
                cl, cle = bisect.bisect_left(means, v), bisect.bisect_right(means, v)
                lo = max(0, cl - 2)
                neigh = sum(ws[lo:cle + 2]) / cw
                ratio = max(0.0, err - 0.5 / n) / neigh
                key = "neigh_ratio_merged" if merged[slot] else "neigh_ratio_single"
                if ratio > M[key]:
                    M[key] = ratio
                    M[key + "_at"] = {"k": kmin[slot], "n": n, "true_rank": true, "err": err, "neigh": neigh, "case_tag": case.tag}


def nontrivial(case, obs):
    """non-trivial: at least one non-empty rank or quantile grid answered on a digest holding >= 2 values"""
    _measure(case, obs)
    # measured tests (NOT proofs) go to a sub-directory: every *.json directly under evidence/ is a property's evidence file
    name = {"c15": "C15", None: "C10"}.get(_FOCUS[0])
    if name:
        p = os.path.join(os.path.dirname(os.path.abspath(__file__)), "..", "..", "evidence", "measured")
        os.makedirs(p, exist_ok=True)
        with open(os.path.join(p, name + "-tdigest-measured-tests.json"), "w") as fh:
            json.dump(_MEASURED, fh, indent=1)
    return any(c in (3, 4) and len(a) > 4 and len(o) > 2 and o[0] >= 0 for (c, a), o in zip(case.ops, obs))
