"""Case generator for the hashers (C16): digests under every chunking, hash_u64, seed hash and
the derived quantities of every sketch family through the public API.  Every op carries the
reference answer computed here from tools/pyref.py (written from the published algorithms)."""
import itertools
from common import Case
import pyref

FAMILY = "hashes"
CORR = "Hashes"
FAMNUM = 2
ORACLES = {"prop_ok": 0}
OPNAMES = {1: "murmur", 2: "xxh64", 3: "hash_u64", 4: "seed_hash", 5: "hll_coupon", 6: "theta_hash", 7: "cm_bucket", 8: "bloom_positions", 9: "cpc_row_col"}
M = 2**64 - 1


def op(code, expected, args):
    return (code, [len(expected)] + list(expected) + list(args))


def chunk_args(seed, lens, data):
    return [seed, len(lens)] + list(lens) + list(data)


def digests(code, seed, data):
    return list(pyref.murmur3_x64_128(bytes(data), seed)) if code == 1 else [pyref.xxh64(bytes(data), seed)]


def random_chunking(rng, n):
    if n == 0:
        return rng.choice([[], [0], [0, 0]])
    cuts = sorted(rng.sample(range(1, n), min(n - 1, rng.choice([0, 1, 2, 3, 5, 9])))) if n > 1 else []
    lens = [b - a for a, b in zip([0] + cuts, cuts + [n])]
    if rng.random() < 0.2:
        lens.insert(rng.randrange(len(lens) + 1), 0)
    return lens


def item_bytes(it):
    k = it[0]
    if k == 0:
        return [pyref.le8(it[1])]
    if k == 1:
        return [bytes(it[1:]), b"\xff"]
    return [pyref.le8(it[1]), pyref.le8(it[2])]


def lz64(x):
    return 64 - x.bit_length()


def rand_item(rng):
    k = rng.choice([0, 0, 1, 2])
    if k == 0:
        return [0, rng.choice([0, 1, -1, 2**63 - 1, -2**63, rng.getrandbits(64) - 2**63])]
    if k == 1:
        n = rng.choice([0, 1, 7, 8, 15, 16, 17, 31, 32, 33, 40])
        return [1] + [rng.randrange(32, 127) for _ in range(n)]
    return [2, rng.getrandbits(64), rng.getrandbits(64)]


def derived_ops(rng):
    it = rand_item(rng)
    data = b"".join(item_bytes(it))
    ops = []
    h1, h2 = pyref.murmur3_x64_128(data, 9001)
    coupon = ((min(lz64(h2), 62) + 1) << 26) | (h1 & 0x3ffffff)
    ops.append(op(5, [coupon], it))
    seed = rng.choice([9001, 0, 1, M, rng.getrandbits(64)])
    if pyref.seed_hash(seed) != 0:
        h = pyref.murmur3_x64_128(data, seed)[0] >> 1
        ops.append(op(6, [h] if h != 0 else [], [seed] + it))
        nh = rng.choice([1, 2, 5, 8]); nb = rng.choice([3, 4, 7, 64, 100, 512])
        rs = [pyref.murmur3_x64_128(pyref.le8(i), seed)[0] for i in range(nh)]
        ops.append(op(7, [pyref.murmur3_x64_128(data, s)[0] % nb for s in rs], [seed, nh, nb] + it))
    if pyref.seed_hash(seed) != 0:
        lgk = rng.choice([4, 5, 11, 12, 20, 26])
        g1, g2 = pyref.murmur3_x64_128(data, seed)
        rc = ((g1 & ((1 << lgk) - 1)) << 6) | min(lz64(g2), 63)
        if rc == 0xffffffff:
            rc ^= 64
        ops.append(op(9, [rc], [seed, lgk] + it))
    nbits = rng.choice([1, 63, 64, 65, 100, 128, 1000, 4096, 65536]); nhb = rng.choice([1, 2, 3, 7, 16])
    cap = (nbits + 63) // 64 * 64
    h0 = pyref.xxh64(data, seed); hh1 = pyref.xxh64(data, h0)
    pos = sorted({(((h0 + i * hh1) & M) >> 1) % cap for i in range(1, nhb + 1)})
    ops.append(op(8, pos, [seed, nbits, nhb] + it))
    return ops


def gen(rng, tier, n=None, focus=None):
    cases = []
    seeds = [0, 9001, M]
    # (a) every length 0..200, a few chunkings each
    maxlen = 200
    for L in range(0, maxlen + 1):
        ops = []
        for seed in seeds + [rng.getrandbits(64)]:
            data = [rng.randrange(256) for _ in range(L)]
            for code in (1, 2):
                exp = digests(code, seed, data)
                ops.append(op(code, exp, chunk_args(seed, [L], data)))
                for _ in range(2 if tier == "quick" else 6):
                    ops.append(op(code, exp, chunk_args(seed, random_chunking(rng, L), data)))
                # chunk boundaries around the buffer edges
                for edge in (15, 16, 17, 31, 32, 33):
                    if 0 < edge < L:
                        ops.append(op(code, exp, chunk_args(seed, [edge, L - edge], data)))
        cases.append(Case(len(cases), [], ops, tag="len%d" % L))
    # (b) all 2^(n-1) chunkings for n <= 12 (thorough: every n; quick: n <= 9 plus a sample of 10..12)
    for L in range(1, 13):
        data = [rng.randrange(256) for _ in range(L)]
        seed = rng.choice(seeds)
        ops = []
        masks = range(2 ** (L - 1))
        if tier == "quick" and L > 9:
            masks = rng.sample(range(2 ** (L - 1)), 256)
        for code in (1, 2):
            exp = digests(code, seed, data)
            for mask in masks:
                lens, cur = [], 1
                for i in range(L - 1):
                    if mask >> i & 1:
                        lens.append(cur); cur = 1
                    else:
                        cur += 1
                lens.append(cur)
                ops.append(op(code, exp, chunk_args(seed, lens, data)))
        cases.append(Case(len(cases), [], ops, tag="allchunk%d" % L))
    # (c) hash_u64, seed hash, derived quantities through the public API
    nd = 40 if tier == "quick" else 400
    for _ in range(nd):
        ops = []
        for _ in range(10):
            x = rng.choice([0, 1, M, rng.getrandbits(64)]); s = rng.choice(seeds + [rng.getrandbits(64)])
            ops.append(op(3, [pyref.xxh64(pyref.le8(x), s)], [x, s]))
        for s in [9001, 1, 2, rng.getrandbits(64)]:
            sh = pyref.seed_hash(s)
            if sh != 0:
                ops.append(op(4, [sh], [s]))
        for _ in range(6):
            ops += derived_ops(rng)
        cases.append(Case(len(cases), [], ops, tag="derived"))
    return cases


def nontrivial(case, obs):
    return len(case.ops) >= 4
