"""Case generator for the Bloom filter family (C09, and the Bloom legs of C11-C14/C17/C18).

Every case drives up to 6 filter slots.  Items are i64 (hashed by the crate as 8 little-endian
bytes); the generator computes h0 = XXH64(item, seed), h1 = XXH64(item, h0) with tools/pyref.py and
passes them next to the item: the model consumes (h0, h1), the crate consumes the item.

op codes (a = argument list)           observation
  0 new        slot num_bits nh seed   []            (PANIC outside the builder's ranges)
  1 insert     slot item h0 h1         []
  2 contains   slot item h0 h1         [0/1]
  3 cont+ins   slot item h0 h1         [0/1]         (contains_and_insert)
  4 union      dst src                 []            (PANIC when incompatible)
  5 intersect  dst src                 []            (PANIC when incompatible)
  6 invert     slot                    []
  7 reset      slot                    []
  8 bits_used  slot                    [n]
  9 serialize  slot                    bytes
 10 roundtrip  slot                    [1] / ERR     (slot := deserialize(serialize(slot)))
 11 deserialize slot bytes...          [1] / ERR     (slot := deserialize(bytes))
 12 info       slot                    [capacity, num_hashes, seed, is_empty]
 13 compatible a b                     [0/1]
 14 new_acc    slot n p_bits seed num_bits nh   [capacity, num_hashes]   (with_accuracy; num_bits/nh = the
                                       generator's recomputation of the ln-based sizing, used by the model)
 15 fpp_probe  slot bound (item h0 h1)*   [number of probes reported as contained]
"""
import math, os, struct, sys
sys.path.insert(0, os.path.join(os.path.dirname(os.path.abspath(__file__)), ".."))
from common import Case
import pyref

FAMILY = "bloom"
CORR = "Bloom"             # Coq module DS.Corr.Bloom
FAMNUM = 3
ORACLES = {"prop_ok": 0}
GEN_MODULES = [("GenBloom", ["bloom/sketch.rs", "bloom/builder.rs"],
                ["SERIAL_VERSION", "EMPTY_FLAG_MASK", "DIRTY_BITS_VALUE", "MIN_NUM_BITS", "MIN_NUM_HASHES", "MAX_NUM_HASHES"])]
OPNAMES = {0: "new", 1: "insert", 2: "contains", 3: "contains_and_insert", 4: "union", 5: "intersect", 6: "invert",
           7: "reset", 8: "bits_used", 9: "serialize", 10: "roundtrip", 11: "deserialize", 12: "info", 13: "is_compatible",
           14: "new_with_accuracy", 15: "fpp_probe"}
NSLOTS = 6
M64 = (1 << 64) - 1


def hashes(item, seed):
    b = pyref.i64_item_bytes(item)
    h0 = pyref.xxh64(b, seed)
    h1 = pyref.xxh64(b, h0)
    return h0, h1


def positions(h0, h1, nh, cap):
    return [(((h0 + i * h1) & M64) >> 1) % cap for i in range(1, nh + 1)]


class PyFilter:
    """the generator's own picture of a slot (used to steer generation and to build foreign images)"""

    def __init__(self, num_bits, nh, seed):
        self.nw = (num_bits + 63) // 64
        self.cap = self.nw * 64
        self.nh, self.seed = nh, seed
        self.bits = 0                  # big int bitset
        self.items = set()             # items whose membership is guaranteed
        self.tainted = False           # holds an image whose count field may disagree with the array

    def clone(self):
        f = PyFilter(self.cap, self.nh, self.seed)
        f.bits, f.items, f.tainted = self.bits, set(self.items), self.tainted
        return f

    def insert(self, item):
        h0, h1 = hashes(item, self.seed)
        for p in positions(h0, h1, self.nh, self.cap):
            self.bits |= 1 << p
        self.items.add(item)

    def compatible(self, o):
        return self.nw == o.nw and self.nh == o.nh and self.seed == o.seed

    def popcount(self):
        return bin(self.bits).count("1")

    def image(self, count=None, pre=None, flags=None, nh=None, num_longs=None, ver=1, fam=21, empty=None):
        """serialized form as the format documents it; fields can be overridden to build foreign/damaged images"""
        pc = self.popcount()
        if empty is None:
            empty = pc == 0
        out = bytearray()
        out.append((3 if empty else 4) if pre is None else pre)
        out.append(ver); out.append(fam)
        out.append((4 if empty else 0) if flags is None else flags)
        out += struct.pack("<HH", self.nh if nh is None else nh, 0)
        out += struct.pack("<Q", self.seed)
        out += struct.pack("<I", (self.nw if num_longs is None else num_longs) & 0xffffffff) + b"\0\0\0\0"
        if not empty:
            out += struct.pack("<Q", (pc if count is None else count) & M64)
            out += self.bits.to_bytes(self.nw * 8, "little")
        return list(out)


SEEDS = [9001, 9001, 0, 1, M64, 0x9E3779B97F4A7C15]
ITEMS = [0, 1, -1, 2, 42, 2**63 - 1, -2**63, 1 << 32, -(1 << 31)]


def pick_config(rng, tier):
    r = rng.random()
    if r < 0.35:
        num_bits = rng.choice([1, 2, 63, 64, 65, 100, 127, 128, 129, 191, 192, 193, 255, 256, 257])
    elif r < 0.75:
        num_bits = rng.randint(1, 2048)
    elif r < 0.93:
        num_bits = rng.randint(2049, 16384)
    else:
        num_bits = rng.choice([65536, 65535, 65473, 65472, 32769, rng.randint(16385, 65536)])
    nh = rng.choice([1, 1, 2, 3, 4, 5, 7, 8, 13, 16, rng.randint(1, 16)])
    seed = rng.choice(SEEDS + [rng.getrandbits(64)])
    return num_bits, nh, seed


def gen_case(rng, cid, tier, focus=None):
    num_bits, nh, seed = pick_config(rng, tier)
    big = num_bits > 16384
    nslots = rng.choice([1, 2, 2, 3, 4])
    ndom = rng.choice([1, 3, 8, 20, 60] if not big else [1, 3, 8, 20])
    dom = [rng.choice(ITEMS + [rng.getrandbits(64) - 2**63, rng.randint(-100, 100)]) for _ in range(ndom)]
    dom = list(dict.fromkeys(dom))
    unseen = [x for x in (123456789, -987654321, 77, 2**40 + 3) if x not in dom]
    nops = rng.choice([6, 25, 70]) if tier == "quick" else rng.choice([25, 120, 400])
    if big:
        nops = min(nops, 25)
    ops, fl = [], {}

    def new(s, cfg=None):
        nb_, nh_, sd_ = cfg or (num_bits, nh, seed)
        fl[s] = PyFilter(nb_, nh_, sd_)
        ops.append((0, [s, nb_, nh_, sd_]))

    def item_args(s, x):
        h0, h1 = hashes(x, fl[s].seed)
        return [s, x, h0, h1]

    for s in range(nslots):
        # same request, or another request that rounds to the same number of words (still compatible)
        if s > 0 and rng.random() < 0.3:
            nw = (num_bits + 63) // 64
            new(s, (rng.randint((nw - 1) * 64 + 1, nw * 64), nh, seed))
        else:
            new(s)
    for _ in range(nops):
        s = rng.randrange(nslots)
        f = fl[s]
        r = rng.random()
        if f.tainted:
            # an image whose count field disagrees with its array: only observe it
            x = rng.choice(dom)
            ops.append(rng.choice([(2, item_args(s, x)), (8, [s]), (9, [s]), (12, [s])]))
            if rng.random() < 0.3:
                new(s)
            continue
        if r < 0.34:
            x = rng.choice(dom)
            ops.append((1, item_args(s, x))); f.insert(x)
        elif r < 0.44:
            x = rng.choice(dom)
            ops.append((3, item_args(s, x))); f.insert(x)
        elif r < 0.60:
            x = rng.choice(dom + unseen)
            ops.append((2, item_args(s, x)))
        elif r < 0.68 and nslots > 1:
            o = rng.randrange(nslots)
            if o != s and not fl[o].tainted and f.compatible(fl[o]):
                ops.append((4, [s, o])); f.bits |= fl[o].bits; f.items |= fl[o].items
        elif r < 0.74 and nslots > 1:
            o = rng.randrange(nslots)
            if o != s and not fl[o].tainted and f.compatible(fl[o]):
                ops.append((5, [s, o])); f.bits &= fl[o].bits; f.items &= fl[o].items
        elif r < 0.78:
            ops.append((6, [s])); f.bits ^= (1 << f.cap) - 1; f.items = set()
        elif r < 0.80:
            ops.append((7, [s])); f.bits = 0; f.items = set()
        elif r < 0.84:
            ops.append((8, [s]))
        elif r < 0.88:
            ops.append((9, [s]))
        elif r < 0.92:
            ops.append((10, [s]))
        elif r < 0.94:
            ops.append((12, [s]))
        elif r < 0.955:
            o = rng.randrange(nslots)
            ops.append((13, [s, o]))
        elif r < 0.985:
            # foreign but valid images of the generator's own picture of some slot:
            # "dirty" count (-1, as Java/C++ writers may emit), exact count, empty form
            src = fl[rng.randrange(nslots)]
            if src.tainted:
                continue
            k = rng.random()
            if k < 0.5:
                img = src.image(count=M64) if src.popcount() else src.image()
            elif k < 0.7 and src.popcount():
                img = src.image(pre=3)                      # non-empty image announcing 3 preamble longs
            elif k < 0.8:
                img = src.image() + [rng.randrange(256) for _ in range(rng.randint(1, 9))]   # trailing bytes
            else:
                img = src.image()
            ops.append((11, [s] + img))
            fl[s] = src.clone()
        else:
            # damaged images: most are rejected; accepted ones with a wrong count taint the slot
            src = fl[rng.randrange(nslots)]
            if src.tainted:
                continue
            k = rng.randrange(9)
            g = src.clone()
            if k == 0:
                img = src.image(); img = img[:rng.randrange(len(img))]          # truncated
            elif k == 1:
                img = src.image(fam=rng.choice([20, 22, 3]))
            elif k == 2:
                img = src.image(ver=rng.choice([0, 2]))
            elif k == 3:
                img = src.image(pre=rng.choice([0, 2, 5]))
            elif k == 4:
                img = src.image(nh=rng.choice([0, 32768, 65535]))
            elif k == 5:
                img = src.image(num_longs=rng.choice([0, -1, -5, 0x80000000, src.nw + 1]))
            elif k == 6:
                c = rng.choice([src.cap + 1, src.cap + 64, M64 - 1, 1 << 40]) if src.popcount() else 0
                img = src.image(count=c)                                          # count beyond capacity
            elif k == 7:
                img = src.image(nh=32767)                                         # extreme but legal
                g.nh = 32767; g.items = set()
                ops.append((11, [s] + img)); fl[s] = g
                ops.append((12, [s])); new(s)                                     # never hash with k = 32767
                continue
            else:
                # count field within range but wrong: accepted by the crate as it stands
                pc = src.popcount()
                if pc == 0:
                    continue
                c = rng.choice([pc - 1, pc + 1, src.cap, 1, 0])
                if c == pc or c > src.cap:
                    continue
                img = src.image(count=c)
                g.tainted = True
                ops.append((11, [s] + img)); fl[s] = g
                continue
            ops.append((11, [s] + img))      # rejected: the slot keeps its filter
    for s in range(nslots):
        f = fl[s]
        if f.tainted:
            ops.append((9, [s])); continue
        for x in dom + unseen[:2]:
            ops.append((2, item_args(s, x)))
        ops.append((8, [s])); ops.append((12, [s])); ops.append((9, [s])); ops.append((10, [s])); ops.append((9, [s]))
        for x in sorted(f.items)[:8]:
            ops.append((2, item_args(s, x)))
    return Case(cid, [NSLOTS], ops, tag="bloom")


def gen_incompatible(rng, cid):
    """union / intersect of incompatible filters must panic (and nothing else does)"""
    num_bits, nh, seed = pick_config(rng, "quick")
    num_bits = min(num_bits, 4096)
    other = rng.choice([(num_bits + 64, nh, seed), (num_bits, nh % 16 + 1, seed), (num_bits, nh, (seed + 1) & M64)])
    ops = [(0, [0, num_bits, nh, seed]), (0, [1] + list(other)), (13, [0, 1]), (13, [1, 0]), (13, [0, 0])]
    h0, h1 = hashes(5, seed)
    ops.append((1, [0, 5, h0, h1]))
    ops.append((rng.choice([4, 5]), [0, 1]))
    ops.append((8, [0]))
    return Case(cid, [NSLOTS], ops, tag="bloom-incompat")


def gen_bad_new(rng, cid):
    """the builder's range assertions"""
    nb, nh = rng.choice([(0, 3), (64, 0), (64, 32768), (64, 65535), ((2**31 - 1 - 4) * 64 + 1, 3)])
    ops = [(0, [0, 64, 32767, 9001]), (12, [0]), (0, [1, nb, nh, 9001]), (12, [1])]
    return Case(cid, [NSLOTS], ops, tag="bloom-badnew")


def f64bits(x):
    return struct.unpack("<Q", struct.pack("<d", x))[0]


def sizing(n, p):
    """builder.rs: suggest_num_bits / suggest_num_hashes_from_accuracy, recomputed here; returns None when the
    value is too close to an integer for two libm implementations to be trusted to agree on the ceiling"""
    ln2 = math.log(2.0)
    xb = -n * math.log(p) / (ln2 * ln2)
    if abs(xb - round(xb)) < 1e-6:
        return None
    bits = max(1, math.ceil(xb))
    xk = bits / n * ln2
    if abs(xk - round(xk)) < 1e-6:
        return None
    return bits, min(32767, max(1, math.ceil(xk)))


def gen_fpp(rng, cid):
    """with_accuracy(n, p) loaded with n items, probed with 4n never-inserted items: the number reported as
    contained must equal the number the position set predicts, and (a *test* of the statistical claim, no
    theorem) stay below 5*p*probes + 10"""
    while True:
        n = rng.choice([50, 200, 500])
        p = rng.choice([0.01, 0.05, 0.001, 0.3])
        sz = sizing(n, p)
        if sz:
            break
    bits, nh = sz
    seed = rng.choice([9001, 1, rng.getrandbits(64)])
    ops = [(14, [0, n, f64bits(p), seed, bits, nh])]
    base = rng.randint(-10**9, 10**9)
    for x in range(base, base + n):
        h0, h1 = hashes(x, seed)
        ops.append((1, [0, x, h0, h1]))
    q = 4 * n
    probe = [0, math.ceil(5 * p * q) + 10]
    for x in range(base + 10**10, base + 10**10 + q):
        h0, h1 = hashes(x, seed)
        probe += [x, h0, h1]
    ops.append((15, probe))
    ops.append((8, [0])); ops.append((9, [0]))
    return Case(cid, [NSLOTS], ops, tag="bloom-fpp")


def gen(rng, tier, n=None, focus=None):
    n = n or (150 if tier == "quick" else 1500)
    cases = []
    for i in range(n):
        k = i % 25
        if k == 7:
            cases.append(gen_incompatible(rng, i))
        elif k == 13:
            cases.append(gen_bad_new(rng, i))
        elif k == 19:
            cases.append(gen_fpp(rng, i))
        else:
            cases.append(gen_case(rng, i, tier, focus))
    return cases


def measure_fpp(case, obs):
    """(target p, measured fraction of never-inserted items reported as contained) of a bloom-fpp case"""
    for (c, a), ob in zip(case.ops, obs):
        if c == 14:
            p = struct.unpack("<d", struct.pack("<Q", a[2]))[0]
        if c == 15:
            return p, ob[0] / ((len(a) - 2) // 3)
    return None


def nontrivial(case, obs):
    """non-trivial: at least two distinct items inserted and at least one membership query or array dump"""
    items = {a[1] for (c, a) in case.ops if c in (1, 3)}
    return len(items) >= 2 and any(c in (2, 9) for (c, a) in case.ops)


if __name__ == "__main__":
    # test only (no theorem): prints target vs measured false-positive rate of with_accuracy(n, p) filters
    import random
    import common
    rng = random.Random(int(os.environ.get("VERIF_SEED", "20260926")))
    cases = [gen_fpp(rng, i) for i in range(12)]
    wd = os.path.join(common.WORK, "C09"); os.makedirs(wd, exist_ok=True)
    with common.BuildLock():
        ok, out = common.harness_build(["release"], [FAMILY])
        res = common.run_harness(FAMILY, cases, "release", wd, "fpp") if ok else sys.exit(out[-2000:])
    for c in res:
        p, m = measure_fpp(c, c.obs)
        print("with_accuracy(n=%d, p=%g): capacity=%d num_hashes=%d measured fpp=%.4f" % (c.ops[0][1][1], p, c.obs[0][0], c.obs[0][1], m))
