"""Case generator for the Bloom filter family (C09, and the Bloom legs of C11-C14/C17/C18).

Every case drives up to 6 filter slots.  Items are i64 (hashed by the crate as 8 little-endian
bytes); the generator computes h0 = XXH64(item, seed), h1 = XXH64(item, h0) with tools/pyref.py and
passes them next to the item: the model consumes (h0, h1), the crate consumes the item.

op codes (a = argument list)           observation
  0 new        slot num_bits nh seed   []            (PANIC outside the builder's ranges)
  1 insert     slot item h0 h1         []
  2 contains   slot item h0 h1         [0/1]
  3 cont+ins   slot item h0 h1         [0/1]         (contains_and_insert)
  4 union      dst src                 []            (PANIC when incompatible)
  5 intersect  dst src                 []            (PANIC when incompatible)
  6 invert     slot                    []
  7 reset      slot                    []
  8 bits_used  slot                    [n]
  9 serialize  slot                    bytes
 10 roundtrip  slot                    [1] / ERR     (slot := deserialize(serialize(slot)))
 11 deserialize slot bytes...          [1] / ERR     (slot := deserialize(bytes))
 12 info       slot                    [capacity, num_hashes, seed, is_empty]
 13 compatible a b                     [0/1]
 14 new_acc    slot n p_bits seed num_bits nh   [capacity, num_hashes]   (with_accuracy; num_bits/nh = the
                                       generator's recomputation of the ln-based sizing, used by the model)
 15 fpp_probe  slot bound (item h0 h1)*   [number of probes reported as contained]
 20 insert_item / 21 contains_item / 22 contains_and_insert_item
               slot kind h0 h1 payload...   as 1 / 2 / 3 for an item that is not an i64: kind 1 &str, 6 String (payload =
                                       the UTF-8 bytes), 2 (u64,u64), 3 (u64,u64,u64,u64), 4 &[u8] (payload = the bytes),
                                       5 u128 (payload = low, high u64).  h0, h1 = XXH64 of the CONCATENATED byte stream
                                       std's Hash impl feeds the hasher in several write calls (str: bytes, then 0xff;
                                       tuple: 8 LE bytes per component; slice: 8-byte LE length, then the bytes; u128: 16 LE bytes)
 16 fork       src dst                 [1] / ERR     (dst := deserialize(serialize(src)), src kept)
 18 probe      slot item               [1]           (a CLONE of the filter inserts the item and is asked for it:
                                       the crate hashes; the model answers by the no-false-negative theorem, so
                                       filters with thousands of hash functions cost the model nothing)
 19 rt_check   slot                    [copy == original, image length]   (the crate serializes, deserializes and
                                       compares; the model answers by the round-trip theorem and the size formula
                                       without building the byte list: usable on filters of 2^20 bits)
 17 parse      slot bytes...           [1] / ERR / ALLOC (-997)   (slot := None; slot := deserialize(bytes) with the
                                       bytes allocated inside deserialize() counted: a peak above 64*len + 1 MiB
                                       is reported as ALLOC and the value dropped)
An operation addressed to a slot that holds no filter is observed as EMPTY (-996) on both sides.

gen(rng, tier, n, focus): focus None = C09 histories; "codec" = C11 twins; "malformed" = C14 mutated images;
"foreign" = C13 images built from the generator's own picture; "extremes" / "extremes-huge" = C17 valid histories
at the configuration extremes (up to 2^16 / 2^20 bits); "size" = C18 growing streams.
"""
import math, os, struct, sys
sys.path.insert(0, os.path.join(os.path.dirname(os.path.abspath(__file__)), ".."))
from common import Case
import pyref

FAMILY = "bloom"
CORR = "Bloom"             # Coq module DS.Corr.Bloom
FAMNUM = 3
ORACLES = {"prop_ok": 0, "prop_roundtrip": 1, "prop_layout": 2, "no_panic": 3, "prop_foreign": 4}   # numbers in Corr/Bloom.v [oracles]
GEN_MODULES = [("GenBloom", ["bloom/sketch.rs", "bloom/builder.rs"],
                ["SERIAL_VERSION", "EMPTY_FLAG_MASK", "DIRTY_BITS_VALUE", "MIN_NUM_BITS", "MIN_NUM_HASHES", "MAX_NUM_HASHES"])]
OPNAMES = {0: "new", 1: "insert", 2: "contains", 3: "contains_and_insert", 4: "union", 5: "intersect", 6: "invert",
           7: "reset", 8: "bits_used", 9: "serialize", 10: "roundtrip", 11: "deserialize", 12: "info", 13: "is_compatible",
           14: "new_with_accuracy", 15: "fpp_probe", 16: "fork", 17: "parse", 18: "probe_clone", 19: "roundtrip_check",
           20: "insert_item", 21: "contains_item", 22: "contains_and_insert_item"}
NSLOTS = 6
M64 = (1 << 64) - 1


# Items.  An i64 item is a Python int (ops 1-3).  Any other item is a pair (kind, payload tuple) (ops 20-22): its std::hash::Hash
# impl feeds the hasher through SEVERAL write calls or one long one, so that XxHash64's buffering is exercised:
K_STR, K_PAIR, K_QUAD, K_BYTES, K_U128, K_STRING = 1, 2, 3, 4, 5, 6


def item_writes(x):
    """the byte strings std's Hash impl passes to Hasher::write, one entry per call"""
    if isinstance(x, int):
        return [pyref.i64_item_bytes(x)]                      # i64: one 8-byte write
    k, p = x
    if k in (K_STR, K_STRING):
        return [bytes(p), b"\xff"]                            # str / String: the bytes, then a 0xff terminator
    if k in (K_PAIR, K_QUAD):
        return [pyref.le8(v) for v in p]                      # tuples of u64: one 8-byte write per component
    if k == K_BYTES:
        return [pyref.le8(len(p)), bytes(p)]                  # &[u8]: usize length prefix, then the bytes
    if k == K_U128:
        return [pyref.le8(p[0]) + pyref.le8(p[1])]            # u128 (lo, hi): one 16-byte write
    raise ValueError(x)


def hashes(item, seed):
    b = b"".join(item_writes(item))
    h0 = pyref.xxh64(b, seed)
    h1 = pyref.xxh64(b, h0)
    return h0, h1


def item_op(code, s, x, seed):
    """insert (1) / contains (2) / contains_and_insert (3) of item x on slot s: the op for its type"""
    h0, h1 = hashes(x, seed)
    if isinstance(x, int):
        return (code, [s, x, h0, h1])
    return (19 + code, [s, x[0], h0, h1] + list(x[1]))


# lengths around the 32-byte stripe of XXH64 (the 0xff terminator / the 8-byte length prefix shift them by 1 / 8)
STR_LENS = [0, 1, 7, 8, 9, 23, 24, 25, 30, 31, 32, 33, 39, 40, 55, 56, 62, 63, 64, 65, 94, 95, 96, 97, 100]


def rand_general_item(rng):
    k = rng.choice([K_STR, K_STR, K_STRING, K_PAIR, K_QUAD, K_QUAD, K_BYTES, K_BYTES, K_U128])
    if k in (K_STR, K_STRING):
        n = rng.choice(STR_LENS + [rng.randint(0, 100)])
        return (k, tuple(rng.randrange(32, 127) for _ in range(n)))
    if k == K_PAIR:
        return (k, (rng.getrandbits(64), rng.choice([0, M64, rng.getrandbits(64)])))
    if k == K_QUAD:
        return (k, tuple(rng.choice([0, M64, rng.getrandbits(64), rng.getrandbits(64)]) for _ in range(4)))
    if k == K_BYTES:
        n = rng.choice(STR_LENS + [rng.randint(0, 100)])
        return (k, tuple(rng.randrange(256) for _ in range(n)))
    return (k, (rng.getrandbits(64), rng.choice([0, rng.getrandbits(64)])))


def positions(h0, h1, nh, cap):
    return [(((h0 + i * h1) & M64) >> 1) % cap for i in range(1, nh + 1)]


class PyFilter:
    """the generator's own picture of a slot (used to steer generation and to build foreign images)"""

    def __init__(self, num_bits, nh, seed):
        self.nw = (num_bits + 63) // 64
        self.cap = self.nw * 64
        self.nh, self.seed = nh, seed
        self.bits = 0                  # big int bitset
        self.items = set()             # items whose membership is guaranteed

    def clone(self):
        f = PyFilter(self.cap, self.nh, self.seed)
        f.bits, f.items = self.bits, set(self.items)
        return f

    def insert(self, item):
        h0, h1 = hashes(item, self.seed)
        for p in positions(h0, h1, self.nh, self.cap):
            self.bits |= 1 << p
        self.items.add(item)

    def compatible(self, o):
        return self.nw == o.nw and self.nh == o.nh and self.seed == o.seed

    def popcount(self):
        return bin(self.bits).count("1")

    def image(self, count=None, pre=None, flags=None, nh=None, num_longs=None, ver=1, fam=21, empty=None):
        """serialized form as the format documents it; fields can be overridden to build foreign/damaged images"""
        pc = self.popcount()
        if empty is None:
            empty = pc == 0
        out = bytearray()
        out.append((3 if empty else 4) if pre is None else pre)
        out.append(ver); out.append(fam)
        out.append((4 if empty else 0) if flags is None else flags)
        out += struct.pack("<HH", self.nh if nh is None else nh, 0)
        out += struct.pack("<Q", self.seed)
        out += struct.pack("<I", (self.nw if num_longs is None else num_longs) & 0xffffffff) + b"\0\0\0\0"
        if not empty:
            out += struct.pack("<Q", (pc if count is None else count) & M64)
            out += self.bits.to_bytes(self.nw * 8, "little")
        return list(out)


SEEDS = [9001, 9001, 0, 1, M64, 0x9E3779B97F4A7C15]
ITEMS = [0, 1, -1, 2, 42, 2**63 - 1, -2**63, 1 << 32, -(1 << 31)]


def pick_config(rng, tier):
    r = rng.random()
    if r < 0.35:
        num_bits = rng.choice([1, 2, 63, 64, 65, 100, 127, 128, 129, 191, 192, 193, 255, 256, 257])
    elif r < 0.75:
        num_bits = rng.randint(1, 2048)
    elif r < 0.93:
        num_bits = rng.randint(2049, 16384)
    else:
        num_bits = rng.choice([65536, 65535, 65473, 65472, 32769, rng.randint(16385, 65536)])
    nh = rng.choice([1, 1, 2, 3, 4, 5, 7, 8, 13, 16, rng.randint(1, 16)])
    seed = rng.choice(SEEDS + [rng.getrandbits(64)])
    return num_bits, nh, seed


def gen_case(rng, cid, tier, focus=None):
    num_bits, nh, seed = pick_config(rng, tier)
    big = num_bits > 16384
    nslots = rng.choice([1, 2, 2, 3, 4])
    ndom = rng.choice([1, 3, 8, 20, 60] if not big else [1, 3, 8, 20])
    # about 40% of the items are not i64: strings, tuples, byte slices, u128 (several / long Hasher::write calls)
    dom = [rand_general_item(rng) if rng.random() < 0.4 else rng.choice(ITEMS + [rng.getrandbits(64) - 2**63, rng.randint(-100, 100)])
           for _ in range(ndom)]
    dom = list(dict.fromkeys(dom))
    unseen = [x for x in (123456789, -987654321, 77, 2**40 + 3) if x not in dom] + [rand_general_item(rng)]
    nops = rng.choice([6, 25, 70]) if tier == "quick" else rng.choice([25, 120, 400])
    if big:
        nops = min(nops, 25)
    ops, fl = [], {}

    def new(s, cfg=None):
        nb_, nh_, sd_ = cfg or (num_bits, nh, seed)
        fl[s] = PyFilter(nb_, nh_, sd_)
        ops.append((0, [s, nb_, nh_, sd_]))

    def iop(code, s, x):
        return item_op(code, s, x, fl[s].seed)

    for s in range(nslots):
        # same request, or another request that rounds to the same number of words (still compatible)
        if s > 0 and rng.random() < 0.3:
            nw = (num_bits + 63) // 64
            new(s, (rng.randint((nw - 1) * 64 + 1, nw * 64), nh, seed))
        else:
            new(s)
    for _ in range(nops):
        s = rng.randrange(nslots)
        f = fl[s]
        r = rng.random()
        if r < 0.34:
            x = rng.choice(dom)
            ops.append(iop(1, s, x)); f.insert(x)
        elif r < 0.44:
            x = rng.choice(dom)
            ops.append(iop(3, s, x)); f.insert(x)
        elif r < 0.60:
            x = rng.choice(dom + unseen)
            ops.append(iop(2, s, x))
        elif r < 0.68 and nslots > 1:
            o = rng.randrange(nslots)
            if o != s and f.compatible(fl[o]):
                ops.append((4, [s, o])); f.bits |= fl[o].bits; f.items |= fl[o].items
        elif r < 0.74 and nslots > 1:
            o = rng.randrange(nslots)
            if o != s and f.compatible(fl[o]):
                ops.append((5, [s, o])); f.bits &= fl[o].bits; f.items &= fl[o].items
        elif r < 0.78:
            ops.append((6, [s])); f.bits ^= (1 << f.cap) - 1; f.items = set()
        elif r < 0.80:
            ops.append((7, [s])); f.bits = 0; f.items = set()
        elif r < 0.84:
            ops.append((8, [s]))
        elif r < 0.88:
            ops.append((9, [s]))
        elif r < 0.92:
            ops.append((10, [s]))
        elif r < 0.94:
            ops.append((12, [s]))
        elif r < 0.955:
            o = rng.randrange(nslots)
            ops.append((13, [s, o]))
        elif r < 0.985:
            # foreign but valid images of the generator's own picture of some slot:
            # "dirty" count (-1, as Java/C++ writers may emit), exact count, empty form
            src = fl[rng.randrange(nslots)]
            k = rng.random()
            if k < 0.5:
                img = src.image(count=M64) if src.popcount() else src.image()
            elif k < 0.7 and src.popcount():
                img = src.image(pre=3)                      # non-empty image announcing 3 preamble longs
            elif k < 0.8:
                img = src.image() + [rng.randrange(256) for _ in range(rng.randint(1, 9))]   # trailing bytes
            else:
                img = src.image()
            ops.append((11, [s] + img))
            fl[s] = src.clone()
        else:
            # damaged images: all rejected
            src = fl[rng.randrange(nslots)]
            k = rng.randrange(9)
            g = src.clone()
            if k == 0:
                img = src.image(); img = img[:rng.randrange(len(img))]          # truncated
            elif k == 1:
                img = src.image(fam=rng.choice([20, 22, 3]))
            elif k == 2:
                img = src.image(ver=rng.choice([0, 2]))
            elif k == 3:
                img = src.image(pre=rng.choice([0, 2, 5]))
            elif k == 4:
                img = src.image(nh=rng.choice([0, 32768, 65535]))
            elif k == 5:
                img = src.image(num_longs=rng.choice([0, -1, -5, 0x80000000, src.nw + 1]))
            elif k == 6:
                c = rng.choice([src.cap + 1, src.cap + 64, M64 - 1, 1 << 40]) if src.popcount() else 0
                img = src.image(count=c)                                          # count beyond capacity
            elif k == 7:
                img = src.image(nh=32767)                                         # extreme but legal
                g.nh = 32767; g.items = set()
                ops.append((11, [s] + img)); fl[s] = g
                ops.append((12, [s])); new(s)                                     # never hash with k = 32767
                continue
            else:
                # count field within range but wrong: rejected (the reader recounts the array)
                pc = src.popcount()
                if pc == 0:
                    continue
                c = rng.choice([pc - 1, pc + 1, src.cap, 1, 0])
                if c == pc or c > src.cap:
                    continue
                img = src.image(count=c)
            ops.append((11, [s] + img))      # rejected: the slot keeps its filter
    for s in range(nslots):
        f = fl[s]
        for x in dom + unseen[:2] + unseen[-1:]:
            ops.append(iop(2, s, x))
        ops.append((8, [s])); ops.append((12, [s])); ops.append((9, [s])); ops.append((10, [s])); ops.append((9, [s]))
        for x in sorted(f.items, key=repr)[:8]:
            ops.append(iop(2, s, x))
    return Case(cid, [NSLOTS], ops, tag="bloom")


def gen_incompatible(rng, cid):
    """union / intersect of incompatible filters must panic (and nothing else does)"""
    num_bits, nh, seed = pick_config(rng, "quick")
    num_bits = min(num_bits, 4096)
    other = rng.choice([(num_bits + 64, nh, seed), (num_bits, nh % 16 + 1, seed), (num_bits, nh, (seed + 1) & M64)])
    ops = [(0, [0, num_bits, nh, seed]), (0, [1] + list(other)), (13, [0, 1]), (13, [1, 0]), (13, [0, 0])]
    h0, h1 = hashes(5, seed)
    ops.append((1, [0, 5, h0, h1]))
    ops.append((rng.choice([4, 5]), [0, 1]))
    ops.append((8, [0]))
    return Case(cid, [NSLOTS], ops, tag="bloom-incompat")


def gen_bad_new(rng, cid):
    """the builder's range assertions"""
    nb, nh = rng.choice([(0, 3), (64, 0), (64, 32768), (64, 65535), ((2**31 - 1 - 4) * 64 + 1, 3)])
    ops = [(0, [0, 64, 32767, 9001]), (12, [0]), (0, [1, nb, nh, 9001]), (12, [1])]
    return Case(cid, [NSLOTS], ops, tag="bloom-badnew")


def f64bits(x):
    return struct.unpack("<Q", struct.pack("<d", x))[0]


MAX_NUM_BITS = (2**31 - 1 - 4) * 64


def stable_ceil(x):
    """ceil(x) when two correctly working libm implementations are certain to agree on it, else None: a value within 1e-9
    (relative) of an integer k >= 1 may fall on either side of k; a tiny positive value has ceiling 1 whatever its last bits"""
    r = round(x)
    if r >= 1 and abs(x - r) <= 1e-9 * max(1.0, abs(x)):
        return None
    return math.ceil(x)


def sizing(n, p):
    """builder.rs: suggest_num_bits / suggest_num_hashes_from_accuracy, recomputed here; None when a ceiling is too close
    to call.  fpp = 1.0 is exact: ln(1.0) = 0, zero bits before the clamp to MIN_NUM_BITS."""
    ln2 = math.log(2.0)
    xb = -n * math.log(p) / (ln2 * ln2)
    cb = stable_ceil(xb)
    if cb is None:
        return None
    bits = min(MAX_NUM_BITS, max(1, cb))
    ck = stable_ceil(bits / n * ln2)
    if ck is None:
        return None
    return bits, min(32767, max(1, ck))


def gen_fpp(rng, cid):
    """with_accuracy(n, p) loaded with n items, probed with 4n never-inserted items: the number reported as
    contained must equal the number the position set predicts, and (a *test* of the statistical claim, no
    theorem) stay below 5*p*probes + 10"""
    while True:
        n = rng.choice([50, 200, 500])
        p = rng.choice([0.01, 0.05, 0.001, 0.3])
        sz = sizing(n, p)
        if sz:
            break
    bits, nh = sz
    seed = rng.choice([9001, 1, rng.getrandbits(64)])
    ops = [(14, [0, n, f64bits(p), seed, bits, nh])]
    base = rng.randint(-10**9, 10**9)
    for x in range(base, base + n):
        h0, h1 = hashes(x, seed)
        ops.append((1, [0, x, h0, h1]))
    q = 4 * n
    probe = [0, math.ceil(5 * p * q) + 10]
    for x in range(base + 10**10, base + 10**10 + q):
        h0, h1 = hashes(x, seed)
        probe += [x, h0, h1]
    ops.append((15, probe))
    ops.append((8, [0])); ops.append((9, [0]))
    return Case(cid, [NSLOTS], ops, tag="bloom-fpp")


# ---------------------------------------------------------------------------------------------- C11: twins
def gen_codec_case(rng, cid, tier):
    """C11 focus: build a state, fork it through serialize/deserialize (op 16), then apply identical operations to the
    original and to the copy (the copy's op immediately follows the original's, same arguments): the twin oracle
    demands equal observations (queries, counts, whole re-serialized images, behaviour under inserts / unions ...)."""
    num_bits, nh, seed = pick_config(rng, tier)
    if num_bits > 16384:
        num_bits = rng.choice([16384, 16321, 8192, 4097])
    A, A2, B, A3 = 0, 1, 2, 3
    ops = []
    fa, fb = PyFilter(num_bits, nh, seed), PyFilter(num_bits, nh, seed)
    ops.append((0, [A, num_bits, nh, seed]))
    nw = (num_bits + 63) // 64
    ops.append((0, [B, rng.randint((nw - 1) * 64 + 1, nw * 64), nh, seed]))
    dom = [rng.choice(ITEMS + [rng.getrandbits(64) - 2**63, rng.randint(-100, 100)]) for _ in range(rng.choice([1, 3, 8, 30]))]
    dom = list(dict.fromkeys(dom))
    unseen = [x for x in (123456789, -987654321, 77) if x not in dom]

    def ia(x):
        h0, h1 = hashes(x, seed)
        return [x, h0, h1]

    for x in dom:
        if rng.random() < 0.5:
            ops.append((1, [B] + ia(x))); fb.insert(x)
    # the state to be forked
    shape = rng.choice(["empty", "few", "many", "inverted", "full", "union", "reset", "intersect"])
    k = {"empty": 0, "few": rng.randint(1, 3), "many": rng.randint(4, 60)}.get(shape, rng.randint(0, 10))
    for _ in range(k):
        x = rng.choice(dom)
        ops.append((rng.choice([1, 1, 3]), [A] + ia(x))); fa.insert(x)
    if shape == "inverted":
        ops.append((6, [A]))
    elif shape == "full":
        ops.append((7, [A])); ops.append((6, [A]))
    elif shape == "union":
        ops.append((4, [A, B]))
    elif shape == "intersect":
        ops.append((5, [A, B]))
    elif shape == "reset":
        ops.append((7, [A]))
    ops.append((16, [A, A2]))
    tw = [A, A2]

    def both(code, rest):
        for sl in tw:
            ops.append((code, [sl] + rest))

    def observe():
        both(9, []); both(8, []); both(12, [])
        for x in dom + unseen:
            both(2, ia(x))
        both(13, [B])

    observe()
    if rng.random() < 0.4:
        ops.append((16, [A2, A3])); tw = [A, A2, A3]      # a copy of the copy
    for _ in range(rng.choice([1, 4, 12]) if tier == "quick" else rng.choice([4, 12, 40])):
        r = rng.random()
        if r < 0.35:
            both(1, ia(rng.choice(dom + unseen)))
        elif r < 0.5:
            both(3, ia(rng.choice(dom + unseen)))
        elif r < 0.62:
            both(4, [B])
        elif r < 0.7:
            both(5, [B])
        elif r < 0.8:
            both(6, [])
        elif r < 0.84:
            both(7, [])
        elif r < 0.92:
            both(10, [])
        else:
            probe = [10**6]
            for x in (dom + unseen)[:6]:
                probe += ia(x)
            both(15, probe)
        k2 = rng.random()
        if k2 < 0.5:
            both(9, [])
        elif k2 < 0.8:
            both(8, []); both(2, ia(rng.choice(dom + unseen)))
    observe()
    return Case(cid, [NSLOTS], ops, tag="bloom-codec")


# ---------------------------------------------------------------------------------------------- C14: malformed images
# Empty-form images denote an all-zero array of the announced size.  Generated word counts are either small (the
# accepted filter is then exercised by the list-based model) or in the range that is certainly flagged as an
# out-of-proportion allocation and small enough to be harmless for the harness (16 .. 128 MiB).
MAX_SMALL_WORDS = 4096
ALLOC_WORDS = (1 << 21, 1 << 24)


def header_of(b):
    """the generator's reading of an image's header: None when the crate must reject it before allocating,
    else (is_empty, nh, seed, num_longs)"""
    if len(b) < 24 or b[2] != 21 or b[1] != 1 or not 3 <= b[0] <= 4:
        return None
    nh = b[4] | b[5] << 8
    nl = int.from_bytes(bytes(b[16:20]), "little")
    if nh == 0 or nh > 32767 or nl == 0 or nl >= 1 << 31:
        return None
    return bool(b[3] & 4), nh, int.from_bytes(bytes(b[8:16]), "little"), nl


def too_big(b):
    h = header_of(b)
    if h is None or not h[0]:
        return False                  # rejected, or long form (accepted only when the payload is really there)
    return not (h[3] <= MAX_SMALL_WORDS or ALLOC_WORDS[0] <= h[3] <= ALLOC_WORDS[1])


def le(v, n):
    return list((v & ((1 << (8 * n)) - 1)).to_bytes(n, "little"))


def mutate(rng, img, f):
    """one structure-aware mutation of the valid image img of the filter picture f"""
    b = list(img)
    if len(b) < 24:                               # (second mutation of an already truncated image)
        return b + [rng.randrange(256) for _ in range(rng.randrange(40))]
    long_form = len(b) >= 40
    r = rng.random()
    if r < 0.10:                                  # bit flip in the preamble
        i = rng.randrange(min(len(b), 24)); b[i] ^= 1 << rng.randrange(8)
    elif r < 0.18:                                # byte overwritten in the preamble
        i = rng.randrange(min(len(b), 24)); b[i] = rng.choice([0, 1, 2, 3, 4, 5, 20, 21, 22, 127, 128, 255, rng.randrange(256)])
    elif r < 0.28 and long_form:                  # bit / byte flip in the payload (count field or bit array)
        i = rng.randrange(24, len(b))
        if rng.random() < 0.5:
            b[i] ^= 1 << rng.randrange(8)
        else:
            b[i] = rng.randrange(256)
    elif r < 0.36:                                # num_hashes boundary values
        b[4:6] = le(rng.choice([0, 1, 2, 32767, 32768, 65535, f.nh + 1]), 2)
    elif r < 0.48:                                # num_longs boundary values (0, -1, 2^31-1, 2^31, neighbours)
        b[16:20] = le(rng.choice([0, 1, -1, -2, 2**31 - 1, 2**31, 2**31 + 1, f.nw - 1, f.nw + 1, 2 * f.nw, 255, 65536]), 4)
    elif r < 0.60 and long_form:                  # count field boundary values
        pc = f.popcount()
        b[24:32] = le(rng.choice([0, 1, pc - 1, pc + 1, f.cap, f.cap + 1, f.cap + 64, -1, -2, 1 << 63, 1 << 40]), 8)
    elif r < 0.72:                                # truncation at any offset
        b = b[:rng.randrange(len(b) + 1)]
    elif r < 0.78:                                # extension
        b = b + [rng.randrange(256) for _ in range(rng.choice([1, 7, 8, 9, 64]))]
    elif r < 0.84:                                # flags / form confusion
        k = rng.randrange(4)
        if k == 0:
            b[3] = rng.choice([0, 4, 255, 251, 1 << rng.randrange(8)])
        elif k == 1:
            b[3] ^= 4                             # long image flagged empty / short image flagged non-empty
        elif k == 2:
            b[0] = rng.choice([0, 2, 3, 4, 5, 255])
        else:
            b[3] ^= 4; b[0] = 7 - b[0] if b[0] in (3, 4) else b[0]
    elif r < 0.90:                                # preamble fields of another family / version
        b[rng.choice([1, 2])] = rng.choice([0, 2, 3, 7, 10, 16, 18, 20, 22])
    elif r < 0.95:                                # valid first bytes, random rest
        b = b[:4] + [rng.randrange(256) for _ in range(rng.choice([0, 2, 20, 28, 60]))]
    else:                                         # random bytes
        b = [rng.randrange(256) for _ in range(rng.randrange(80))]
    return b


def use_value(rng, ops, s, t, b):
    """everything a value returned as Ok must support: queries, inserts, invert, union / intersect with its own copy,
    re-serialization, round trip, reset.  (All of it is observed as EMPTY when the image was rejected.)"""
    h = header_of(b)
    seed = h[2] if h else 0
    # the extracted model needs ~0.5 ms per hash position: with hundreds of hash functions a single query is made, with
    # thousands only the clone probe (op 18: the crate hashes, the model's answer is the no-false-negative theorem)
    cheap = h is None or h[1] <= 64
    x = rng.choice(ITEMS + [rng.randint(-1000, 1000)])
    h0, h1 = hashes(x, seed)
    ops.append((8, [s])); ops.append((12, [s])); ops.append((18, [s, x]))
    if h is None or h[1] <= 1024:
        ops.append((2, [s, x, h0, h1]))
    if cheap:
        ops.append((rng.choice([1, 3]), [s, x, h0, h1])); ops.append((2, [s, x, h0, h1])); ops.append((8, [s]))
    ops.append((16, [s, t]))
    ops.append((6, [s])); ops.append((8, [s]))
    if cheap:
        y = rng.randint(-1000, 1000)
        g0, g1 = hashes(y, seed)
        ops.append((3, [s, y, g0, g1]))
    ops.append((rng.choice([4, 5]), [s, t])); ops.append((8, [s]))
    ops.append((9, [s])); ops.append((10, [s])); ops.append((13, [s, t]))
    if rng.random() < 0.5:
        ops.append((7, [s])); ops.append((8, [s])); ops.append((9, [s]))


def base_filter(rng):
    num_bits = rng.choice([1, 64, 65, 128, 129, 200, 256, 512, rng.randint(1, 700), 4096])
    nh = rng.choice([1, 2, 3, 5, 7, 16])
    seed = rng.choice(SEEDS + [rng.getrandbits(64)])
    f = PyFilter(num_bits, nh, seed)
    for _ in range(rng.choice([0, 1, 3, 10, 40])):
        f.insert(rng.randint(-1000, 1000))
    if rng.random() < 0.15:
        f.bits ^= (1 << f.cap) - 1
    return f


def gen_malformed_case(rng, cid, tier):
    """C14 focus: structure-aware mutations of valid images (and random bytes) through deserialize (op 17, with
    allocation accounting); every accepted value is then used"""
    f = base_filter(rng)
    imgs = [f.image()]
    if f.popcount():
        imgs.append(f.image(count=M64))
    else:
        imgs.append(f.image(empty=False)); imgs.append(f.image(empty=False, count=M64))
    ops = []
    for _ in range(10 if tier == "quick" else 30):
        img = rng.choice(imgs)
        b = mutate(rng, img, f)
        if rng.random() < 0.15:
            b = mutate(rng, b, f)
        if too_big(b):
            continue
        ops.append((17, [1])); ops.append((17, [0] + b))
        use_value(rng, ops, 0, 1, b)
    return Case(cid, [NSLOTS], ops, tag="bloom-malformed")


def gen_boundary_case(rng, cid, tier):
    """C14: an otherwise VALID image with ONE numeric field at each of its type boundaries: preamble byte, serial version,
    family, flags, num_hashes (u16), seed (u64), num_longs (i32), count (u64); every accepted value is used"""
    f = base_filter(rng)
    while f.nw > 8:
        f = base_filter(rng)
    pc = f.popcount()
    long_img = f.image(empty=False, count=rng.choice([pc, M64]))
    short_img = f.image() if pc == 0 else None
    fields = [(0, 1, [0, 2, 3, 4, 5, 255]), (1, 1, [0, 1, 2, 255]), (2, 1, [0, 20, 21, 22, 255]), (3, 1, [0, 4, 0xfb, 0xff]),
              (4, 2, [0, 1, 32767, 32768, 65535]), (6, 2, [0, 65535]), (8, 8, [0, 1, 1 << 63, M64]),
              (16, 4, [1 << 31, -1, 0, 1, (1 << 31) - 1, f.nw - 1, f.nw, f.nw + 1]), (20, 4, [0, (1 << 32) - 1]),
              (24, 8, [0, 1, pc - 1, pc, pc + 1, f.cap, f.cap + 1, 1 << 63, M64 - 1, M64])]
    ops = []
    for img in (long_img, short_img):
        if img is None:
            continue
        for off, width, vals in fields:
            if off + width > len(img):
                continue
            for v in vals:
                b = list(img); b[off:off + width] = le(v, width)
                if too_big(b):
                    continue
                ops.append((17, [1])); ops.append((17, [0] + b))
                use_value(rng, ops, 0, 1, b)
    return Case(cid, [NSLOTS], ops, tag="bloom-malformed-boundary")


def gen_truncation_case(rng, cid, tier):
    """C14: a valid image cut at EVERY offset (and extended by one byte)"""
    f = base_filter(rng)
    while f.nw > 3:
        f = base_filter(rng)
    img = f.image(count=M64) if (f.popcount() and rng.random() < 0.3) else f.image()
    ops = []
    for n in range(len(img) + 1):
        ops.append((17, [0] + img[:n])); ops.append((8, [0]))
    ops.append((17, [0] + img + [rng.randrange(256)])); ops.append((8, [0]))
    use_value(rng, ops, 0, 1, img)
    return Case(cid, [NSLOTS], ops, tag="bloom-malformed-trunc")


def gen_bigalloc_case(rng, cid, tier):
    """C14: headers announcing a large bit array on a tiny input.  Long form: rejected before anything is allocated
    (fix fff8c98).  Short (EMPTY-flag) form: the image legitimately denotes an empty filter of that size and the crate
    allocates it - known finding C14-bloom-empty-alloc."""
    ops = []
    for _ in range(4):
        nh = rng.choice([1, 5, 32767]); seed = rng.choice(SEEDS)
        extra = rng.choice([0, 0, 8, 40])
        nw = rng.choice([1 << 21, 1 << 22, 1 << 23, 1 << 24, rng.randint(1 << 21, 1 << 24), MAX_SMALL_WORDS])
        form = rng.choice(["short", "short", "long-cut", "short-pre4"])
        b = [3 if form == "short" else 4, 1, 21, 0 if form == "long-cut" else 4] + le(nh, 2) + [0, 0] + le(seed, 8) + le(nw, 4) + [0] * 4
        b += [rng.randrange(256) for _ in range(extra)]
        ops += [(17, [0] + b), (8, [0]), (12, [0])]
    return Case(cid, [NSLOTS], ops, tag="bloom-malformed-bigalloc")


def kf_empty_flag_alloc(case):
    """known finding C14-bloom-empty-alloc: every out-of-proportion allocation (-997) in the case comes from a parse op
    whose image has the EMPTY flag (bit 2 of byte 3) set: the all-zero array of an empty filter is inherent in the format"""
    hits = [(c, a) for (c, a), o in zip(case.ops, case.obs or []) if o[:1] == [-997]]
    return bool(hits) and all(c == 17 and len(a) >= 5 and (a[1 + 3] & 4) for c, a in hits)


# ---------------------------------------------------------------------------------------------- C13: foreign images
def gen_foreign_case(rng, cid, tier):
    """C13 focus: images a Java / C++ writer can emit for the generator's own picture of a filter (short form, long form
    with the exact count, long form with the dirty marker -1, unused fields and undefined flag bits non-zero), deserialized by
    the crate; the
    accessors, queries, re-serialization and further inserts / unions are judged against the Spec state of the image"""
    num_bits, nh, seed = pick_config(rng, tier)
    if num_bits > 16384:
        num_bits = rng.choice([16384, 8192, 4097])
    f = PyFilter(num_bits, nh, seed)
    dom = [rng.choice(ITEMS + [rng.getrandbits(64) - 2**63, rng.randint(-100, 100)]) for _ in range(rng.choice([1, 3, 8, 30]))]
    dom = list(dict.fromkeys(dom))
    unseen = [x for x in (123456789, -987654321, 77) if x not in dom]

    def ia(x):
        h0, h1 = hashes(x, seed)
        return [x, h0, h1]

    shape = rng.choice(["empty", "few", "many", "inverted", "full", "raw"])
    for _ in range({"empty": 0, "few": rng.randint(1, 3), "full": 0}.get(shape, rng.randint(4, 60))):
        f.insert(rng.choice(dom))
    if shape == "inverted":
        f.bits ^= (1 << f.cap) - 1
    elif shape == "full":
        f.bits = (1 << f.cap) - 1
    elif shape == "raw":
        f.bits = rng.getrandbits(f.cap)          # any bit set is a valid state of the format
    F, N, C = 0, 1, 2
    ops = [(0, [N, num_bits, nh, seed])]
    for x in dom[:5]:
        ops.append((1, [N] + ia(x)))
    for rnd in range(rng.choice([1, 2, 3])):
        pc = f.popcount()
        k = rng.random()
        if pc == 0 and k < 0.4:
            img = f.image()                                         # short form
        elif k < 0.7:
            img = f.image(empty=False)                              # long form, exact count (also for the empty set)
        else:
            img = f.image(empty=False, count=M64)                   # long form, dirty marker
        if rng.random() < 0.3:
            img[6:8] = [rng.randrange(256), rng.randrange(256)]     # unused fields carry junk
            img[20:24] = [rng.randrange(256) for _ in range(4)]
        if rng.random() < 0.3:
            img[3] = (rng.choice([0xfb, 0x01, 0x80, rng.randrange(256)]) & 0xfb) | (img[3] & 4)    # undefined flag bits set
        ops.append((rng.choice([11, 17]), [F] + img))
        ops += [(12, [F]), (8, [F]), (9, [F])]
        for x in dom + unseen:
            ops.append((2, [F] + ia(x)))
        ops.append((13, [F, N])); ops.append((16, [F, C])); ops.append((9, [C]))
        for _ in range(rng.choice([1, 4, 10])):
            r = rng.random()
            if r < 0.4:
                x = rng.choice(dom + unseen); ops.append((rng.choice([1, 3]), [F] + ia(x))); f.insert(x)
            elif r < 0.55:
                ops.append((4, [F, N]))
                for x in dom[:5]:
                    f.insert(x)
            elif r < 0.65:
                ops.append((4, [N, F]))
            elif r < 0.75:
                ops.append((5, [C, F])); ops.append((9, [C]))
            elif r < 0.85:
                ops.append((6, [F])); f.bits ^= (1 << f.cap) - 1
            else:
                ops.append((10, [F]))
            ops.append((rng.choice([8, 9]), [F]))
        ops += [(8, [F]), (9, [F]), (8, [N]), (9, [N])]
    return Case(cid, [NSLOTS], ops, tag="bloom-foreign")


# ---------------------------------------------------------------------------------------------- C17: extremes
def gen_extremes_case(rng, cid, tier, huge_only=False):
    """C17 focus: VALID call sequences only (arguments in the documented ranges, compatible operands), at the
    configuration extremes: 1 bit, word boundaries, up to 2^20 bits; 1 and 32767 hash functions; seeds 0 and 2^64-1;
    extreme items; long random histories over every operation incl. the codec"""
    r = rng.random()
    if huge_only:
        num_bits = rng.choice([1 << 20, (1 << 20) - 63, (1 << 20) - 64, (1 << 20) + 1])
    elif r < 0.3:
        num_bits = rng.choice([1, 1, 2, 63, 64, 65, 127, 128, 129])
    elif r < 0.85:
        num_bits = rng.choice([1, 64, 100, 1000, 4096, rng.randint(1, 5000)])
    else:
        num_bits = rng.choice([65535, 65536, 65537])
    huge = num_bits > 100000        # 2^20 bits: the list-based model cannot build the 128 KiB image (ops 9, 10, 16) -> op 19
    nh = rng.choice([1, 1, 2, 3, 7, 16, 255, 2047, 32767]) if not huge else rng.choice([1, 2, 5])
    slow = nh > 300
    # the extracted model needs ~0.5 ms per hash position (15 s for one call with 32767 hash functions): such filters are
    # hashed by the crate through the clone probe (op 18) and by the model only in the thorough tier, once, in a quarter of these cases
    direct = (3000 if tier == "quick" else 20000) // nh          # number of calls hashed by the model as well
    if nh == 32767:
        direct = 1 if (tier == "thorough" and rng.random() < 0.25) else 0
    seed = rng.choice([0, M64, 9001, 1, rng.getrandbits(64)])
    nslots = rng.choice([1, 2, 3])
    budget = 12 if slow else (12 if huge else (rng.choice([20, 80, 250]) if tier == "quick" else rng.choice([80, 400, 1500])))
    dom = [0, 1, -1, 2**63 - 1, -2**63] + [rng.getrandbits(64) - 2**63 for _ in range(rng.choice([1, 5, 40]))]
    ops = []
    nw = (num_bits + 63) // 64
    for s in range(nslots):
        nb = num_bits if s == 0 else rng.randint((nw - 1) * 64 + 1, nw * 64)
        ops.append((0, [s, nb, nh, seed]))

    def ia(x):
        h0, h1 = hashes(x, seed)
        return [x, h0, h1]

    hashops = 0
    for _ in range(budget):
        s = rng.randrange(nslots)
        r = rng.random()
        if r < 0.45:
            if hashops < direct:
                ops.append((rng.choice([1, 1, 2, 3]), [s] + ia(rng.choice(dom)))); hashops += 1
            else:
                ops.append((18, [s, rng.choice(dom)]))
        elif r < 0.55 and nslots > 1:
            o = rng.randrange(nslots)
            ops.append((rng.choice([4, 4, 5]), [s, o]))                    # every slot is compatible (also with itself)
        elif r < 0.63:
            ops.append((6, [s]))
        elif r < 0.66:
            ops.append((7, [s]))
        elif r < 0.74:
            ops.append((8, [s]))
        elif r < 0.80:
            ops.append((19 if huge else 9, [s]))
        elif r < 0.86:
            ops.append((19 if huge else rng.choice([10, 19]), [s]))
        elif r < 0.90:
            ops.append((12, [s]))
        elif r < 0.94:
            ops.append((13, [s, rng.randrange(nslots)]))
        elif nslots > 1 and not huge:
            o = rng.randrange(nslots)
            if o != s:
                ops.append((16, [s, o]))
        else:
            ops.append((18, [s, rng.choice(dom)]))
    for s in range(nslots):
        rt = 19 if huge else 10
        ops += [(8, [s]), (12, [s]), (18, [s, rng.choice(dom)]), (6, [s]), (8, [s]), (rt, [s]), (6, [s]), (8, [s]), (19, [s])]
        if not huge:
            ops.append((9, [s]))
    return Case(cid, [NSLOTS], ops, tag="bloom-extremes")


BELOW_ONE = struct.unpack("<d", struct.pack("<Q", 0x3FEFFFFFFFFFFFFF))[0]      # the largest f64 below 1.0
MIN_POSITIVE = 2.2250738585072014e-308
# (max_items, fpp) at the documented extremes of with_accuracy (max_items > 0, fpp in (0, 1]); the "huge" item counts are
# chosen so that the suggested size stays small enough for the list-based model
ACCURACY_EXTREMES = [(1, 1.0), (2, 1.0), (M64, 1.0), (1, BELOW_ONE), (2, BELOW_ONE), (M64, BELOW_ONE), (1 << 53, BELOW_ONE),
                     (1, 0.5), (2, 0.5), (50000, 0.5), (1, 1e-300), (2, 1e-300), (40, 1e-300),
                     (1, MIN_POSITIVE), (2, MIN_POSITIVE), (40, MIN_POSITIVE)]


def gen_extremes_accuracy_case(rng, cid, tier, k):
    """C17: with_accuracy(max_items, fpp) at a documented extreme (fpp = 1.0 exactly: ln = 0, zero bits before the clamp to
    MIN_NUM_BITS; the largest double below 1.0; tiny fpp => about a thousand hash functions); the filter it builds is then
    exercised: insert, contains, contains_and_insert, fork, union / intersect with its own copy, invert, codec"""
    n, p = ACCURACY_EXTREMES[k % len(ACCURACY_EXTREMES)]
    sz = sizing(n, p)
    assert sz is not None and sz[0] <= 1 << 17, (n, p, sz)
    bits, nh = sz
    seed = rng.choice([0, M64, 9001])
    F, C = 0, 1
    ops = [(14, [F, n, f64bits(p), seed, bits, nh]), (12, [F]), (8, [F])]
    direct = 2 if nh > 300 else 12                      # ~0.5 ms per hash position in the extracted model
    for i in range(direct):
        x = rng.choice([0, -1, 2**63 - 1, -2**63, rng.getrandbits(64) - 2**63])
        ops.append(item_op([3, 2, 1][i % 3], F, x, seed))
        ops.append((18, [F, x]))
    ops += [(8, [F]), (16, [F, C]), (13, [F, C]), (4, [F, C]), (5, [F, C]), (8, [F]), (9, [F]), (10, [F]), (19, [F]),
            (6, [F]), (8, [F]), (18, [F, 7]), (4, [F, C]), (8, [F]), (7, [F]), (8, [F]), (19, [F])]
    x = rng.getrandbits(64) - 2**63
    ops.append(item_op(3, F, x, seed))
    if nh <= 300:
        ops.append(item_op(2, F, x, seed))
    ops.append((8, [F]))
    return Case(cid, [NSLOTS], ops, tag="bloom-extremes-accuracy")


def gen_extremes_builder_case(rng, cid, tier):
    """C17: the builder at its documented limits (with_size bounds of num_hashes; with_accuracy)"""
    ops = [(0, [0, 1, 1, 0]), (12, [0]), (0, [1, 64, 32767, M64]), (12, [1]), (9, [1]), (10, [1]), (6, [1]), (8, [1])]
    while True:
        n = rng.choice([1, 10, 1000, 100000])
        p = rng.choice([0.5, 0.01, 1e-6, 0.999])
        sz = sizing(n, p)
        if sz and sz[0] <= 1 << 17:
            break
    seed = rng.choice([0, M64, 9001])
    ops.append((14, [2, n, f64bits(p), seed, sz[0], sz[1]]))
    for x in (0, -1, 2**63 - 1):
        h0, h1 = hashes(x, seed)
        ops.append((3, [2, x, h0, h1])); ops.append((2, [2, x, h0, h1]))
    ops += [(8, [2]), (6, [2]), (8, [2]), (19, [2]), (7, [2]), (8, [2]), (19, [2])]
    return Case(cid, [NSLOTS], ops, tag="bloom-extremes-builder")


# ---------------------------------------------------------------------------------------------- C18: size
def gen_size_case(rng, cid, tier):
    """C18 focus: one filter fed a growing stream (distinct, repeated or adversarially ordered items); the image is
    dumped after every power-of-two prefix: its size must stay 32 + 8 * ceil(num_bits / 64) (24 while empty)"""
    num_bits = rng.choice([1, 64, 65, 1000, 4096, 5000, 65536])
    nh = rng.choice([1, 3, 7])
    seed = rng.choice(SEEDS)
    # the Spec oracle keeps the set as a characteristic vector (cost ~ capacity per position): the stream length is chosen so
    # that items * num_hashes * capacity stays within a budget
    cap = (num_bits + 63) // 64 * 64
    budget = 5 * 10**6 if tier == "quick" else 10**8
    top = max(4, min(13 if tier == "quick" else 16, (budget // (nh * cap)).bit_length() - 1))
    kind = rng.choice(["distinct", "repeated", "descending"])
    base = rng.randint(-10**9, 10**9)
    ops = [(0, [0, num_bits, nh, seed]), (9, [0]), (12, [0])]
    nxt = 1
    for i in range(1, (1 << top) + 1):
        x = {"distinct": base + i, "repeated": base + i % 17, "descending": base - i * 7919}[kind]
        h0, h1 = hashes(x, seed)
        ops.append((1, [0, x, h0, h1]))
        if i == nxt:
            ops.append((9, [0])); nxt *= 2
    ops += [(8, [0]), (12, [0]), (6, [0]), (9, [0]), (7, [0]), (9, [0])]
    return Case(cid, [NSLOTS], ops, tag="bloom-size")


def gen(rng, tier, n=None, focus=None):
    n = n or (150 if tier == "quick" else 1500)
    if focus == "codec":
        return [gen_codec_case(rng, i, tier) for i in range(n)]
    if focus == "malformed":
        cases = []
        for i in range(n):
            cases.append(gen_truncation_case(rng, i, tier) if i % 10 == 9 else
                         gen_boundary_case(rng, i, tier) if i % 10 == 4 else gen_malformed_case(rng, i, tier))
        return cases + [gen_bigalloc_case(rng, n + i, tier) for i in range(6)]
    if focus == "foreign":
        return [gen_foreign_case(rng, i, tier) for i in range(n)]
    if focus == "extremes":
        # every run starts with with_accuracy at each of its documented extremes (fpp = 1.0 exactly among them)
        na = len(ACCURACY_EXTREMES)
        return [gen_extremes_accuracy_case(rng, i, tier, i) for i in range(na)] + \
               [gen_extremes_builder_case(rng, na + i, tier) if i % 12 == 11 else gen_extremes_case(rng, na + i, tier) for i in range(max(0, n - na))]
    if focus == "extremes-huge":      # 2^20-bit filters: beyond the list-based Spec oracle, judged by the model and the no-panic oracle
        return [gen_extremes_case(rng, i, tier, huge_only=True) for i in range(n)]
    if focus == "size":
        return [gen_size_case(rng, i, tier) for i in range(n)]
    cases = []
    for i in range(n):
        k = i % 25
        if k == 7:
            cases.append(gen_incompatible(rng, i))
        elif k == 13:
            cases.append(gen_bad_new(rng, i))
        elif k == 19:
            cases.append(gen_fpp(rng, i))
        else:
            cases.append(gen_case(rng, i, tier, focus))
    return cases


def measure_fpp(case, obs):
    """(target p, measured fraction of never-inserted items reported as contained) of a bloom-fpp case"""
    for (c, a), ob in zip(case.ops, obs):
        if c == 14:
            p = struct.unpack("<d", struct.pack("<Q", a[2]))[0]
        if c == 15:
            return p, ob[0] / ((len(a) - 2) // 3)
    return None


def nontrivial(case, obs):
    """non-trivial: at least two distinct items inserted and at least one membership query or array dump; or a fork whose
    twins are then both operated on; or at least 3 parsed images of which one is accepted and one rejected; or a foreign
    image that is accepted and then queried"""
    items = {a[1] for (c, a) in case.ops if c in (1, 3)} | {tuple(a[1:2] + a[4:]) for (c, a) in case.ops if c in (20, 22)}
    if len(items) >= 2 and any(c in (2, 9, 21) for (c, a) in case.ops):
        return True
    if any(c == 16 for (c, a) in case.ops) and any(c in (1, 3, 4, 6) for (c, a) in case.ops):
        return True
    res = [o for (c, a), o in zip(case.ops, obs or []) if c in (11, 17)]
    if len(res) >= 3 and [1] in res and [-998] in res:
        return True
    return [1] in res and any(c == 2 for (c, a) in case.ops)


if __name__ == "__main__":
    # test only (no theorem): prints target vs measured false-positive rate of with_accuracy(n, p) filters
    import random
    import common
    rng = random.Random(int(os.environ.get("VERIF_SEED", "20260926")))
    cases = [gen_fpp(rng, i) for i in range(12)]
    wd = os.path.join(common.WORK, "C09"); os.makedirs(wd, exist_ok=True)
    with common.BuildLock():
        ok, out = common.harness_build(["release"], [FAMILY])
        res = common.run_harness(FAMILY, cases, "release", wd, "fpp") if ok else sys.exit(out[-2000:])
    for c in res:
        p, m = measure_fpp(c, c.obs)
        print("with_accuracy(n=%d, p=%g): capacity=%d num_hashes=%d measured fpp=%.4f" % (c.ops[0][1][1], p, c.obs[0][0], c.obs[0][1], m))
