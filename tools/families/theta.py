"""Case generator for the theta family (C04; theta legs of later properties).

Operations and observations: see coq/theories/Corr/Theta.v.  Hashes reach the crate three ways:
  op 1  update(item: i64)      -- the model gets the reference MurmurHash h1 (tools/pyref.py)
  op 2  verif_insert_hash(h)   -- hook: a chosen 63-bit (or any u64) hash
  op 3  update(x: u128)        -- public API again: x is the 16-byte MurmurHash3 PRE-IMAGE of a chosen
                                  h1 (murmur3_x64_128 is a bijection on one 16-byte block), so crafted hashes
                                  (collision chains, values straddling theta, 0, 2^63-1) also pass through the
                                  crate's own hash_and_screen.
A small KMV simulation (set + theta) is kept only to AIM the inputs (hashes around the current theta,
trim when n > k); verdicts never depend on it."""
import struct
from common import Case
import pyref

# The extracted model's list functions (map, ++, flat_map ...) are not tail recursive: an observation of a few
# hundred thousand integers (a compact sketch with 65536 entries and its images) needs more than the default 8 MiB
# stack in the OCaml driver.  Child processes inherit the limit of this process: raise the soft limit to the hard one.
try:
    import resource
    _soft, _hard = resource.getrlimit(resource.RLIMIT_STACK)
    if _soft != resource.RLIM_INFINITY and (_hard == resource.RLIM_INFINITY or _hard > _soft):
        resource.setrlimit(resource.RLIMIT_STACK, (_hard if _hard != resource.RLIM_INFINITY else resource.RLIM_INFINITY, _hard))
except Exception:
    pass

FAMILY = "theta"
CORR = "Theta"             # Coq module DS.Corr.Theta
FAMNUM = 5
ORACLES = {"kmv_ok": 0, "layout_ok": 1, "roundtrip_ok": 2, "layout12_ok": 3, "foreign_ok": 4, "no_panic": 5, "size_ok": 6}
GEN_MODULES = [("GenTheta", ["theta/hash_table.rs", "theta/serialization.rs", "theta/sketch.rs", "theta/bit_pack.rs"],
                ["MAX_THETA", "MIN_LG_K", "MAX_LG_K", "RESIZE_THRESHOLD", "REBUILD_THRESHOLD", "STRIDE_HASH_BITS", "STRIDE_MASK",
                 "UNCOMPRESSED_SERIAL_VERSION", "COMPRESSED_SERIAL_VERSION", "V2_PREAMBLE_EMPTY", "V2_PREAMBLE_PRECISE",
                 "V2_PREAMBLE_ESTIMATE", "BLOCK_WIDTH", "FLAGS_IS_READ_ONLY", "FLAGS_IS_EMPTY",
                 "FLAGS_IS_COMPACT", "FLAGS_IS_ORDERED",
                 "LIT_get_stride", "LIT_hash_and_screen", "LIT_find_in_entries", "LIT_try_insert", "LIT_rebuild", "LIT_resize",
                 "LIT_trim", "LIT_new", "LIT_starting_sub_multiple", "LIT_starting_theta_from_sampling_probability", "LIT_preamble_longs"],
                {"theta/hash_table.rs": ["get_stride", "hash_and_screen", "find_in_entries", "try_insert", "rebuild", "resize",
                                         "trim", "new", "starting_sub_multiple", "starting_theta_from_sampling_probability"],
                 "theta/sketch.rs": ["preamble_longs"]})]
OPNAMES = {1: "update", 2: "insert_hash", 3: "update_preimage", 4: "trim", 5: "reset", 6: "compact", 7: "dump",
           8: "layout", 9: "layout_exact", 10: "serialize", 11: "serialize_compressed", 12: "deserialize", 13: "reserialize",
           14: "roundtrip", 15: "roundtrip_slot", 16: "bounds", 17: "deserialize_with_seed", 18: "try_build"}
# seeds whose 16-bit seed hash is zero (unusable: seed() panics, documented; deserialize_with_seed returns Err)
ZERO_HASH_SEEDS = [50541, 104725, 110638, 144099]
CORR_MASK = [1, 2, 3, 4, 5, 6, 7, 9, 10]   # op 8 (raw layout at any time) is judged by the layout oracle only

M = (1 << 64) - 1
MAX_THETA = (1 << 63) - 1
C1 = 0x87c37b91114253d5
C2 = 0x4cf5ad432745937f
INV5 = pow(5, -1, 1 << 64)
INVC1 = pow(C1, -1, 1 << 64)
INVC2 = pow(C2, -1, 1 << 64)
INVM1 = pow(0xff51afd7ed558ccd, -1, 1 << 64)
INVM2 = pow(0xc4ceb9fe1a85ec53, -1, 1 << 64)


def rotr(x, r):
    return ((x >> r) | (x << (64 - r))) & M


def unfmix64(k):
    k ^= k >> 33; k = (k * INVM2) & M
    k ^= k >> 33; k = (k * INVM1) & M
    k ^= k >> 33
    return k


def murmur_preimage16(H1, H2, seed):
    """the unique 16-byte block (k1, k2) with murmur3_x64_128(le8(k1)+le8(k2), seed) == (H1, H2)"""
    f2 = (H2 - H1) & M; f1 = (H1 - f2) & M
    g1 = unfmix64(f1); g2 = unfmix64(f2)
    e2 = (g2 - g1) & M; e1 = (g1 - e2) & M
    d1 = e1 ^ 16; d2 = e2 ^ 16
    t2 = ((((d2 - 0x38495ab5) & M) * INV5) - d1) & M
    k2p = rotr(t2, 31) ^ (seed & M)
    k2 = (rotr((k2p * INVC1) & M, 33) * INVC2) & M
    t1 = ((((d1 - 0x52dce729) & M) * INV5) - seed) & M
    k1p = rotr(t1, 27) ^ (seed & M)
    k1 = (rotr((k1p * INVC2) & M, 31) * INVC1) & M
    assert pyref.murmur3_x64_128(pyref.le8(k1) + pyref.le8(k2), seed) == (H1, H2)
    return k1, k2


def f32_widened_bits(x):
    """bits of the f64 that equals (x as f32)"""
    f = struct.unpack("<f", struct.pack("<f", x))[0]
    return struct.unpack("<Q", struct.pack("<d", f))[0], f


class Sim:
    """KMV simulation used only to aim inputs"""
    def __init__(self, lg_k, theta0):
        self.k = 1 << lg_k
        self.cap = 15 * (1 << (lg_k + 1)) // 16
        self.theta0 = theta0
        self.reset()

    def reset(self):
        self.theta = self.theta0
        self.s = set()

    def offer(self, h):
        if 0 < h < self.theta and h not in self.s:
            self.s.add(h)
            if len(self.s) > self.cap:
                self.rebuild()

    def rebuild(self):
        srt = sorted(self.s)
        self.theta = srt[self.k]
        self.s = set(srt[:self.k])

    def trim(self):
        if len(self.s) > self.k:
            self.rebuild()


def gen_case(rng, cid, tier, lg_k=None, size_class=None, p_choices=None):
    if lg_k is None:
        if tier == "quick":
            lg_k = rng.choice([5, 5, 5, 6, 6, 7, 7, 8, 9, 10, 11, 12])
        else:
            lg_k = rng.choice([5, 5, 6, 6, 7, 7, 8, 8, 9, 10, 11, 12, 13, 14])
    rf = rng.choice([0, 1, 2, 3])
    # how far to go: below nominal (exact mode, resizes), well into estimation mode, or (sampling sketches)
    # a few updates that theta screens out: the sketch is not empty although it retains nothing
    size_class = size_class or rng.choice(["tiny", "exact", "est", "est", "deep", "screened"])
    pbits, p = f32_widened_bits(rng.choice(p_choices or [1.0, 1.0, 1.0, 0.5, 0.5, 1e-3, 0.999, 0.25, 2.0 ** -20]))
    if size_class == "screened" and not p_choices:
        pbits, p = f32_widened_bits(rng.choice([2.0 ** -20, 2.0 ** -30, 1e-3, 1e-20, 1e-30, 2.0 ** -63, 2.0 ** -64]))
    seed = rng.choice([9001, 9001, 0, 1, 2**64 - 1, rng.getrandbits(64)])
    if pyref.seed_hash(seed) == 0:
        seed = 9001       # the sketch of a case needs a usable seed (documented precondition of seed()); the unusable
                          # ones are exercised explicitly by ops 17 / 18 (seed_ops below)
    sh = pyref.seed_hash(seed)
    theta0 = MAX_THETA if p >= 1.0 else max(1, int((2.0 ** 63) * p))
    k = 1 << lg_k
    lg_max = lg_k + 1
    sim = Sim(lg_k, theta0)
    ops = [(7, [])]
    small = lg_k <= 8

    def h1_of_item(x):
        return pyref.murmur3_x64_128(pyref.le8(x), seed)[0]

    items = []       # items offered so far (for duplicates)
    hashes = []      # crafted hashes offered so far

    def op_item(x):
        h1 = h1_of_item(x)
        items.append(x)
        sim.offer(h1 >> 1)
        ops.append((1, [x, h1]))

    def op_hash(h, via=None):
        """offer the u64 value h as a hash: through the hook, or (63-bit values) through a pre-image"""
        via = via or (rng.choice(["hook", "hook", "pre"]) if h < (1 << 63) else "hook")
        hashes.append(h)
        if h < (1 << 63):
            sim.offer(h)
        if via == "hook":
            ops.append((2, [h]))
        else:
            h1 = (h << 1) | rng.getrandbits(1)
            k1, k2 = murmur_preimage16(h1, rng.getrandbits(64), seed)
            ops.append((3, [k1, k2, h1]))

    def scale(h):
        """bring a crafted hash below the initial theta when sampling is on (keeps the low bits)"""
        if theta0 >= MAX_THETA or h < theta0:
            return h
        nb = max(theta0.bit_length() - 1, lg_max + 8)
        return h & ((1 << nb) - 1)

    def chain(n):
        """n hashes with equal low bits and equal stride bits at every table size: one long probe chain"""
        low = rng.getrandbits(lg_max)
        sb = rng.choice([0, 0, 127, 1, 64, rng.getrandbits(7)])
        out = []
        for _ in range(n):
            hi = rng.getrandbits(63 - lg_max - 7)
            out.append(scale((hi << (lg_max + 7)) | (sb << lg_max) | low))
        return out

    def same_slot(n):
        """equal low bits, different strides"""
        low = rng.getrandbits(lg_max)
        return [scale((rng.getrandbits(63 - lg_max) << lg_max) | low) for _ in range(n)]

    def observe():
        r = rng.random()
        if r < 0.35:
            ops.append((7, []))
        elif r < 0.6:
            ops.append((6, [rng.getrandbits(1)]))
        elif r < 0.75:
            ops.append((10, [rng.getrandbits(1)]))
        elif r < 0.9:
            ops.append((8 if lg_k <= 9 else 7, []))
        else:
            ops.append((9 if lg_k <= 9 else 7, []))

    target = {"tiny": rng.randint(0, 12), "exact": rng.randint(k // 4, k), "est": rng.randint(2 * k, 4 * k),
              "deep": rng.randint(4 * k, 8 * k), "screened": rng.randint(1, 8)}[size_class]
    if lg_k >= 11:
        target = min(target, 5 * k // 2)
    if p < 1.0 and p < 0.01 and size_class != "screened":
        target = min(target * 4, 40000)      # most hashed items are screened out
    nphases = rng.choice([1, 2, 3])
    obs_every = max(8, target // rng.choice([3, 5, 8])) if not small else max(3, target // rng.choice([4, 10, 25]))
    p_trim = rng.choice([1.0, 2.0, 4.0]) / max(target, 20) / 4
    p_reset = rng.choice([0.0, 0.5, 1.0]) / max(target, 20)
    done = 0
    next_item = rng.choice([0, 1, -5, rng.getrandbits(63), -rng.getrandbits(62)])
    for ph in range(nphases):
        style = rng.choice(["items", "items", "mixed", "mixed", "crafted", "smallhash"]) if size_class != "screened" else "items"
        todo = target // nphases + 1
        while todo > 0:
            r = rng.random()
            if style == "items" or (style == "mixed" and r < 0.5):
                if items and rng.random() < 0.1:
                    op_item(rng.choice(items))          # duplicate
                else:
                    op_item(next_item); next_item += rng.choice([1, 1, 1, 7, -3]) or 1
                todo -= 1; done += 1
            elif style == "smallhash":
                # small hashes survive every rebuild; descending arrival forces theta to keep falling
                base = rng.randint(1, 1 << 20)
                op_hash(max(1, base + 4 * todo) if rng.random() < 0.8 else rng.randint(1, 1 << 12))
                todo -= 1; done += 1
            else:
                c = rng.random()
                if c < 0.35:
                    for h in chain(rng.randint(2, 40 if lg_k <= 7 else 120)):
                        op_hash(h); todo -= 1; done += 1
                elif c < 0.55:
                    for h in same_slot(rng.randint(2, 30)):
                        op_hash(h); todo -= 1; done += 1
                elif c < 0.75:
                    th = sim.theta
                    for h in [th - 1, th, th + 1, th - rng.randint(1, 1000), th + rng.randint(1, 1000)]:
                        if 0 <= h < (1 << 64):
                            op_hash(h); todo -= 1; done += 1
                elif c < 0.85:
                    op_hash(rng.choice([0, 1, MAX_THETA, MAX_THETA - 1, 1 << 63, M, (1 << 62), 2, 3]))
                    todo -= 1; done += 1
                elif c < 0.92 and hashes:
                    op_hash(rng.choice(hashes)); todo -= 1; done += 1   # duplicate crafted hash
                else:
                    op_hash(scale(rng.getrandbits(63))); todo -= 1; done += 1
            # re-offer the entry that became theta at the last rebuild, and its neighbours
            if sim.theta < theta0 and rng.random() < 0.02:
                op_hash(sim.theta); op_hash(sim.theta - 1)
            if done % obs_every == 0:
                observe()
            rr = rng.random()
            if rr < p_trim * (4 if len(sim.s) > k else 1):
                if small:
                    ops.append((7, []))
                ops.append((4, [])); sim.trim()
                ops.append((7, []) if small or rng.random() < 0.3 else (6, [1]))
            elif rr > 1 - p_reset:
                ops.append((5, [])); sim.reset(); items.clear(); hashes.clear()
                ops.append((7, []))
        observe()
    # closing sequence: everything is observed once more, trim, and again
    ops.append((7, []))
    ops.append((6, [0])); ops.append((6, [1])); ops.append((10, [1])); ops.append((10, [0]))
    if lg_k <= 10:
        ops.append((8, [])); ops.append((9, []))
    ops.append((4, [])); sim.trim()
    ops.append((7, [])); ops.append((6, [1]))
    if lg_k <= 10:
        ops.append((8, []))
    if rng.random() < 0.5:
        ops.append((5, [])); sim.reset()
        ops.append((7, [])); ops.append((6, [0])); ops.append((10, [0]))
        for _ in range(rng.randint(1, 40)):
            op_item(next_item); next_item += 1
        ops.append((7, [])); ops.append((6, [0])); ops.append((9 if lg_k <= 10 else 7, []))
    return Case(cid, [lg_k, rf, pbits, seed, sh], ops, tag="theta-lgk%d-rf%d" % (lg_k, rf))


# ---------------------------------------------------------------------------------------------------
# codec legs (C11, C12, C13, C14, C18 parts): see Corr/Theta.v ops 11..14
# ---------------------------------------------------------------------------------------------------
def cfg_of(rng, lg_k=None, p=None):
    lg_k = lg_k or rng.choice([5, 6, 7, 8, 10, 12])
    rf = rng.choice([0, 1, 2, 3])
    pbits, pf = f32_widened_bits(p if p is not None else rng.choice([1.0, 1.0, 0.5, 0.25]))
    seed = rng.choice([9001, 9001, 0, 1, 2**64 - 1, rng.getrandbits(64)])
    if pyref.seed_hash(seed) == 0:
        seed = 9001       # see gen_case
    theta0 = MAX_THETA if pf >= 1.0 else max(1, int((2.0 ** 63) * pf))
    return [lg_k, rf, pbits, seed, pyref.seed_hash(seed)], theta0


def crafted_entries(rng, n, width, limit):
    """n ascending distinct hashes below limit whose deltas need exactly `width` bits (when they fit)"""
    width = max(1, min(width, limit.bit_length() - 1))
    ds = []
    big = rng.randrange(n) if n else 0
    room = limit - 1
    for i in range(n):
        if i == big:
            d = (1 << (width - 1)) | rng.getrandbits(width - 1) if width > 1 else 1
        else:
            w = rng.randint(1, width)
            d = max(1, rng.getrandbits(w))
        ds.append(d)
    # scale down if the sum does not fit
    out, acc = [], 0
    for d in ds:
        if acc + d >= limit:
            d = 1
            if acc + d >= limit:
                break
        acc += d; out.append(acc)
    return out


def gen_big_codec_case(rng, cid, n):
    """a compact sketch with exactly n retained entries (entry-count byte width at a power of 256), obtained by
    deserializing a spec-encoded image, then forked through both writers (op 15)"""
    cfg, theta0 = cfg_of(rng, lg_k=5, p=1.0)
    theta = rng.choice([MAX_THETA, 1 << 50])
    es = crafted_entries(rng, n, rng.randint(2, 12), theta)
    assert len(es) == n
    # (serVer 4 and compressed forms only: the extracted model's list functions are not tail recursive, a 512 KiB
    #  uncompressed image would overflow the OCaml stack)
    img = enc_image(4, es, theta, cfg[4], True, False)
    ops = [(7, []), (12, img), (15, [1]), (13, [1])]
    return Case(cid, cfg, ops, tag="theta-codec-big%d" % n)


def gen_codec_case(rng, cid, tier):
    """a sketch built from crafted hashes (hook) or items, then serialized both ways, forked through the image"""
    kind = rng.choice(["crafted", "crafted", "crafted", "stream", "screened", "empty"])
    if kind == "crafted":
        n = rng.choice([0, 1, 2, 3, 7, 8, 9, 15, 16, 17, 23, 24, 25, 31, 63, 64, 65, 255, 256, 257, rng.randint(0, 300)])
        if tier == "thorough" and rng.random() < 0.1:
            n = rng.randint(300, 4100)
        if tier == "quick" and rng.random() < 0.03:
            n = rng.randint(2000, 4100)
        lg_k = 12 if n > 40 else rng.choice([6, 8, 12])
        cfg, theta0 = cfg_of(rng, lg_k=lg_k, p=rng.choice([1.0, 1.0, 0.5]))
        width = rng.randint(1, 63)
        es = crafted_entries(rng, n, width, theta0)
        rng.shuffle(es)
        ops = [(7, [])] + [(2, [h]) for h in es]
    elif kind == "stream":
        cfg, theta0 = cfg_of(rng, lg_k=rng.choice([5, 5, 6, 7]))
        k = 1 << cfg[0]
        n = rng.choice([k // 2, k, 2 * k, 5 * k])
        seed = cfg[3]
        ops = [(7, [])]
        x = rng.getrandbits(40)
        for i in range(n):
            ops.append((1, [x + i, pyref.murmur3_x64_128(pyref.le8(x + i), seed)[0]]))
        if rng.random() < 0.5:
            ops.append((4, []))
    elif kind == "screened":
        cfg, theta0 = cfg_of(rng, p=rng.choice([2.0 ** -20, 2.0 ** -30, 1e-20, 2.0 ** -63, 1e-38]))
        seed = cfg[3]
        ops = [(7, [])]
        for i in range(rng.randint(1, 5)):
            ops.append((1, [i, pyref.murmur3_x64_128(pyref.le8(i), seed)[0]]))
    else:
        cfg, theta0 = cfg_of(rng)
        ops = [(7, [])]
    ops.append((7, []))
    for ordered in (1, 0):
        ops.append((6, [ordered])); ops.append((10, [ordered])); ops.append((11, [ordered]))
        for compressed in (0, 1):
            ops.append((14, [ordered, compressed])); ops.append((13, [0])); ops.append((13, [1]))
    return Case(cid, cfg, ops, tag="theta-codec-" + kind)


# ---- the image formats, written from the format description (independent of the crate and of the Coq model)
def le(x, n):
    return list(int(x).to_bytes(n, "little"))


def bitstream(values, w):
    bits = []
    for v in values:
        bits += [(v >> (w - 1 - i)) & 1 for i in range(w)]
    while len(bits) % 8:
        bits.append(0)
    return [sum(bits[8 * j + t] << (7 - t) for t in range(8)) for j in range(len(bits) // 8)]


def enc_image(variant, entries, theta, seed_hash, ordered, empty, si_flag=False, long_pre=None, extra_flags=0):
    """variant 1..4; long_pre (serVer 3, non-empty only): write 2 or 3 preamble longs although fewer would do;
    extra_flags: undefined flag bits or-ed in (readers ignore them)"""
    n = len(entries); est = theta < MAX_THETA
    body = [b for e in entries for b in le(e, 8)]
    if variant == 1:
        return [3, 1, 3, 0, 0, 0, 0, 0] + le(n, 4) + [0] * 4 + le(theta, 8) + body
    if variant == 2:
        pre = 3 if est else (1 if empty else 2)
        out = [pre, 2, 3, 0, 0, 0] + le(seed_hash, 2)
        if pre > 1:
            out += le(n, 4) + [0] * 4
        if pre == 3:
            out += le(theta, 8)
        return out + body
    if variant == 3:
        single = n == 1 and not est and not empty
        pre = 1 if empty else (3 if est else (1 if single else 2))
        if long_pre and not empty and long_pre >= pre:
            pre = long_pre; single = False
        flags = 2 | 8 | (4 if empty else 0) | (16 if ordered else 0) | (32 if (si_flag and single) else 0) | extra_flags
        out = [pre, 3, 3, 0, 0, flags] + le(seed_hash, 2)
        if empty:
            return out
        if pre > 1:
            out += le(n, 4) + [0] * 4
        if pre == 3:
            out += le(theta, 8)
        return out + body
    # serVer 4
    ds = [e - p for e, p in zip(entries, [0] + entries[:-1])]
    ored = 0
    for d in ds:
        ored |= d
    w = ored.bit_length()
    neb = (n.bit_length() + 7) // 8
    out = [2 if est else 1, 4, 3, w, neb, 2 | 8 | 16 | extra_flags] + le(seed_hash, 2)
    if est:
        out += le(theta, 8)
    return out + le(n, neb) + bitstream(ds, w)


def random_abs(rng, variant, shape=None):
    """a random abstract compact sketch that the variant can express"""
    theta = rng.choice([MAX_THETA, MAX_THETA, rng.randint(2, MAX_THETA - 1), 1 << rng.randint(8, 62)])
    shape = shape or rng.choice(["empty", "single", "zero", "few", "few", "block", "many", "p256"])
    n = {"empty": 0, "single": 1, "zero": 0, "few": rng.randint(2, 7), "block": rng.choice([8, 16, 9, 15, 24]),
         "many": rng.randint(10, 90), "p256": rng.choice([255, 256, 257]), "p65536": rng.choice([65535, 65536, 65537])}[shape]
    if shape == "zero":
        theta = rng.choice([rng.randint(2, MAX_THETA - 1), 1 << rng.randint(8, 62)])    # estimating with zero entries
    if shape in ("p256", "p65536"):
        theta = max(theta, 1 << 40)
    if shape == "empty":
        theta = MAX_THETA
    n = min(n, theta - 1)
    es = crafted_entries(rng, n, rng.randint(1, 63) if n < 200 else rng.randint(1, 16), theta)
    ordered = True
    if variant == 3 and rng.random() < 0.4 and len(es) > 1:
        rng.shuffle(es); ordered = False
    empty = shape == "empty"
    if variant in (1, 2):
        empty = (len(es) == 0 and theta == MAX_THETA)
    if variant == 4:
        if len(es) == 0 or (len(es) == 1 and theta == MAX_THETA):
            es = crafted_entries(rng, 3, rng.randint(1, 62), theta) or [1]
            if len(es) == 1 and theta == MAX_THETA:
                theta = MAX_THETA - 1
        empty = False
    return es, theta, ordered, empty


def gen_foreign_case(rng, cid, tier, big=False):
    """C13: images of every format variant, written by the independent encoder, fed to deserialize"""
    cfg, _ = cfg_of(rng, lg_k=5)
    sh = cfg[4]
    ops = [(7, [])]
    # always: estimating images without entries (serVer 2 and 3: NOT empty), entry counts at powers of 256 (serVer 4)
    forced = [(2, "zero"), (3, "zero"), (4, "p256"), (rng.choice([1, 2, 3]), "p256"), (3, "single"), (3, "few")]
    if big:
        forced.append((4, "p65536"))
    for i in range(10 if tier == "quick" else 30):
        if i < len(forced):
            variant, shape = forced[i]
        else:
            variant, shape = rng.choice([1, 2, 3, 3, 4, 4]), None
        es, theta, ordered, empty = random_abs(rng, variant, shape)
        # serVer 3 with more preamble longs than necessary (forced for the single / few shapes, random otherwise);
        # undefined flag bits 6 and 7 (and SINGLE_ITEM on sketches that are not single) set at random: readers ignore them
        long_pre = None
        if variant == 3 and (i in (4, 5) or rng.random() < 0.2):
            long_pre = rng.choice([2, 3]) if theta == MAX_THETA else 3
        extra = rng.choice([0, 0, 64, 128, 192, 32]) if variant in (3, 4) else 0
        if extra == 32 and variant == 3 and len(es) == 1:
            extra = 0
        img = enc_image(variant, es, theta, sh, ordered, empty, si_flag=rng.random() < 0.5, long_pre=long_pre, extra_flags=extra)
        if shape == "p65536":
            ops.append((12, img)); ops.append((13, [1])); ops.append((15, [1]))     # compressed forms only (see above)
        else:
            ops.append((12, img)); ops.append((13, [0])); ops.append((13, [1])); ops.append((15, [rng.getrandbits(1)]))
    return Case(cid, cfg, ops, tag="theta-foreign")


def mutate(rng, img):
    b = list(img)
    for _ in range(rng.choice([1, 1, 1, 2, 3])):
        r = rng.random()
        if r < 0.22 and b:
            i = rng.randrange(min(len(b), 24)); b[i] = rng.choice([0, 1, 2, 3, 4, 5, 8, 9, 63, 64, 65, 127, 128, 255, rng.randrange(256)])
        elif r < 0.36 and b:
            i = rng.randrange(len(b)); b[i] ^= 1 << rng.randrange(8)
        elif r < 0.50:
            b = b[:rng.randrange(len(b) + 1)]
        elif r < 0.58:
            b += [rng.randrange(256) for _ in range(rng.randint(1, 16))]
        elif r < 0.68 and len(b) >= 12:
            # entry count field (serVer 1..3: u32 @8; serVer 4: after the preamble)
            v = rng.choice([0, 1, 2, 7, 8, 9, 255, 256, 65535, 2**24, 2**31, 2**32 - 1, len(b) // 8, len(b) // 8 + 1])
            off = (8 * b[0] if b[1] == 4 else 8)
            if off + 4 <= len(b):
                b[off:off + 4] = le(v, 4)
        elif r < 0.78 and len(b) >= 24:
            v = rng.choice([0, 1, 2, 3, 1 << 20, MAX_THETA, MAX_THETA - 1, MAX_THETA + 1, (1 << 64) - 1, rng.getrandbits(64)])
            off = 8 if b[1] == 4 else 16
            b[off:off + 8] = le(v, 8)
        elif r < 0.86 and len(b) >= 6:
            b[5] ^= 1 << rng.randrange(8)                      # flags
        elif r < 0.93 and len(b) >= 5:
            b[3] = rng.choice([0, 1, 7, 8, 62, 63, 64, 65, 200, 255])       # entry_bits (serVer 4)
            b[4] = rng.choice([0, 1, 2, 3, 4, 5, 8, 9, 255]) if rng.random() < 0.5 else b[4]
        elif len(b) > 16:
            i = rng.randrange(8, len(b)); v = rng.choice([0, 255])
            for j in range(i, min(i + 8, len(b))):
                b[j] = v
    return b


def swapped_image(rng, sh):
    """an image that says it is ordered although two adjacent entries (at an even or an odd index) are swapped"""
    variant = rng.choice([1, 2, 3, 3])
    theta = rng.choice([MAX_THETA, 1 << rng.randint(20, 62)])
    es = crafted_entries(rng, rng.randint(4, 12), rng.randint(2, 50), theta)
    if len(es) < 4:
        es = [10, 20, 30, 40]
    i = rng.randrange(len(es) - 1)
    es[i], es[i + 1] = es[i + 1], es[i]
    return enc_image(variant, es, theta, sh, True, False)


def flag_variant_image(rng, sh):
    """images whose flags contradict their content: EMPTY set although entries follow (serVer 3 and 4), ORDERED cleared in
    serVer 4, undefined bits; the reader must answer Err or a consistent value"""
    variant = rng.choice([3, 4, 4])
    es, theta, ordered, empty = random_abs(rng, variant, rng.choice(["few", "block", "single", "many"]))
    img = enc_image(variant, es, theta, sh, ordered, empty)
    kind = rng.choice(["empty", "empty", "unordered", "bits", "empty_badseed"])
    if kind in ("empty", "empty_badseed"):
        img[5] |= 4
        if kind == "empty_badseed":
            img[6] ^= 0x5a
    elif kind == "unordered":
        img[5] &= ~16 & 0xff
    else:
        img[5] |= rng.choice([1, 32, 64, 128, 0xe1])
    return img


def gen_malformed_case(rng, cid, tier):
    """C14: structure-aware mutations of valid images of every variant, and random bytes; Ok values are
    queried by the harness and re-serialized both ways"""
    cfg, _ = cfg_of(rng, lg_k=5)
    sh = cfg[4]
    ops = [(7, [])]
    for k in range(14 if tier == "quick" else 40):
        if k < 2 or rng.random() < 0.05:
            img = swapped_image(rng, sh)
            ops.append((12, img)); ops.append((13, [0])); ops.append((13, [1])); ops.append((15, [rng.getrandbits(1)]))
            continue
        if k < 5 or rng.random() < 0.08:
            img = flag_variant_image(rng, sh)
            ops.append((12, img)); ops.append((13, [0])); ops.append((13, [1])); ops.append((15, [rng.getrandbits(1)]))
            continue
        if rng.random() < 0.06:
            img = [rng.randrange(256) for _ in range(rng.randint(0, 40))]
            if len(img) > 2 and rng.random() < 0.7:
                img[2] = 3; img[1] = rng.choice([1, 2, 3, 4]); img[0] = rng.choice([1, 2, 3])
        else:
            variant = rng.choice([1, 2, 3, 3, 4, 4, 4])
            es, theta, ordered, empty = random_abs(rng, variant)
            img = mutate(rng, enc_image(variant, es, theta, sh, ordered, empty, si_flag=rng.random() < 0.3))
        # whatever is accepted is re-serialized both ways and forked through one writer (deserialize o serialize = id)
        ops.append((12, img)); ops.append((13, [0])); ops.append((13, [1])); ops.append((15, [rng.getrandbits(1)]))
    if cid % 3 == 0:
        ops += seed_ops(rng, sh)
    return Case(cid, cfg, ops, tag="theta-malformed")


def gen_size_trim_case(rng, cid, which):
    """C18 'k after trim': a never-rebuilt sketch (p = 1, theta still 1.0) holding a distinct count strictly between k and
    15/16 * 2k (k+1, 1.5k, cap-1, cap), with repeats mixed in, then trim(): retained must drop to exactly k"""
    lg_k = rng.choice([5, 5, 6, 7, 8])
    cfg, theta0 = cfg_of(rng, lg_k=lg_k, p=1.0)
    seed = cfg[3]
    k = 1 << lg_k; cap = 15 * 2 * k // 16
    n = [k + 1, 3 * k // 2, cap - 1, cap][which % 4]
    x0 = rng.getrandbits(40)
    ops = [(7, [])]
    for i in range(n):
        x = x0 + i
        ops.append((1, [x, pyref.murmur3_x64_128(pyref.le8(x), seed)[0]]))
        if i and rng.random() < 0.3:
            y = x0 + rng.randrange(i)                      # a repeat
            ops.append((1, [y, pyref.murmur3_x64_128(pyref.le8(y), seed)[0]]))
    ops += [(7, []), (10, [1]), (4, []), (7, []), (10, [1]), (11, [1]), (4, []), (7, [])]
    return Case(cid, cfg, ops, tag="theta-size-trim")


def gen_size_case(rng, cid, tier, big=False):
    """C18: a long stream; retained count and image sizes observed after every power-of-two prefix"""
    lg_k = rng.choice([5, 5, 6, 7, 8])
    cfg, theta0 = cfg_of(rng, lg_k=lg_k, p=rng.choice([1.0, 1.0, 0.5]))
    seed = cfg[3]
    # (thorough: the one big stream had 2^22 updates; its single parsed case - every 64-bit hash is a 65-constructor positive -
    #  exceeded the driver's 12 GB limit ("Fatal error: out of memory", observed 2026-10-02), so it is 2^20 now)
    top = (17 if big else rng.choice([10, 12, 13])) if tier == "quick" else (20 if big else rng.choice([12, 14, 16]))
    style = rng.choice(["distinct", "distinct", "repeated", "descending"])
    ops = [(7, [])]
    x0 = rng.getrandbits(40)
    nxt = 1
    for i in range(1, (1 << top) + 1):
        if style == "distinct":
            x = x0 + i
        elif style == "repeated":
            x = x0 + (i % 1000) * 7919 % (1 << (top - 2) if top > 4 else 4)
        else:
            x = x0 - i
        ops.append((1, [x, pyref.murmur3_x64_128(pyref.le8(x), seed)[0]]))
        if i == nxt:
            nxt *= 2
            ops.append((7, [])); ops.append((10, [1])); ops.append((11, [1]))
    ops.append((4, [])); ops.append((7, [])); ops.append((10, [1])); ops.append((11, [1]))
    return Case(cid, cfg, ops, tag="theta-size")


def seed_ops(rng, sh_case):
    """ops with an explicit seed: the builder with usable and unusable seeds (op 18), deserialize_with_seed of valid images
    (empty, serVer 1/3/4 non-empty) under an unusable reader seed, a usable but wrong one, and the right one (op 17)"""
    ops = []
    for s in [rng.choice(ZERO_HASH_SEEDS), 9001, rng.getrandbits(64)]:
        ops.append((18, [s, pyref.seed_hash(s)]))
    for _ in range(3):
        variant = rng.choice([1, 3, 3, 4])
        es, theta, ordered, empty = random_abs(rng, variant, rng.choice(["empty", "single", "few", "block"]))
        wseed = rng.choice([9001, 7, rng.getrandbits(64)])
        if pyref.seed_hash(wseed) == 0:
            wseed = 9001
        img = enc_image(variant, es, theta, pyref.seed_hash(wseed), ordered, empty)
        for rs in [rng.choice(ZERO_HASH_SEEDS), wseed, wseed + 1]:
            ops.append((17, [rs, pyref.seed_hash(rs)] + img))
            ops.append((13, [rng.getrandbits(1)]))
    return ops


def gen_extreme_case(rng, cid, tier):
    """C17: valid API histories at the documented extremes (lg_k 5, the smallest and largest sampling probabilities, every
    resize factor, trim/reset/compact interleaved), with the confidence bounds and both serializers called along the way"""
    lg_k = rng.choice([5, 5, 5, 6, 12])
    ps = rng.choice([[1.0], [1.0], [0.5], [1e-38], [2.0 ** -64], [2.0 ** -63], [2.0 ** -62], [1e-20], [2.0 ** -149], [0.99999994]])
    size_class = "screened" if ps[0] < 1e-6 else rng.choice(["tiny", "exact", "est", "deep"])
    c = gen_case(rng, cid, tier, lg_k=lg_k, size_class=size_class, p_choices=ps)
    ops = []
    for code, a in c.ops:
        ops.append((code, a))
        if code == 7:
            ops.append((16, []))
            if rng.random() < 0.5:
                o = rng.getrandbits(1)
                ops.append((11, [o])); ops.append((14, [o, rng.getrandbits(1)]))
    if cid % 4 == 0:
        ops += seed_ops(rng, c.cfg[4])
    return Case(cid, c.cfg, ops, tag="theta-extreme")


def gen(rng, tier, n=None, focus=None):
    n = n or (120 if tier == "quick" else 1500)
    if focus in ("codec", "layout"):
        bigs = [65536] if tier == "quick" else [65535, 65536, 65537]
        return [gen_big_codec_case(rng, i, bigs[i]) if i < len(bigs) else gen_codec_case(rng, i, tier) for i in range(n)]
    if focus == "foreign":
        return [gen_foreign_case(rng, i, tier, big=(i == 0)) for i in range(n)]
    if focus == "malformed":
        return [gen_malformed_case(rng, i, tier) for i in range(n)]
    if focus == "size":
        # the last third (at least four) of the cases: trim() on never-rebuilt sketches holding between k and 15/16*2k entries
        nt = max(4, n // 3)
        return [gen_size_case(rng, i, tier, big=(i == 0)) for i in range(n - nt)] + \
               [gen_size_trim_case(rng, n - nt + j, j) for j in range(nt)]
    if focus == "extremes":
        return [gen_extreme_case(rng, i, tier) for i in range(n)]
    cases = []
    for i in range(n):
        if tier == "thorough" and i % 150 == 149:
            cases.append(gen_case(rng, i, tier, lg_k=rng.choice([15, 16]), size_class=rng.choice(["exact", "est"])))
        else:
            cases.append(gen_case(rng, i, tier))
    return cases


def nontrivial(case, obs):
    """some observation of the retained set, and either at least 3 distinct hashes offered with a retained entry at
    some point, or a sketch that saw updates which theta screened out"""
    hs = set()
    for c, a in case.ops:
        if c == 1:
            hs.add(a[1] >> 1)
        elif c == 2:
            hs.add(a[0])
        elif c == 3:
            hs.add(a[2] >> 1)
    seen = any(c in (6, 7) for c, a in case.ops)
    nonempty = any(o and o[0] > 0 for (c, a), o in zip(case.ops, obs or []) if c in (1, 2, 3))
    # a sampling sketch whose updates were all screened out: not empty although it retains nothing
    screened = any(o and len(o) > 3 and o[3] == 0 for (c, a), o in zip(case.ops, obs or []) if c == 7)
    codec = any(c in (12, 14, 15, 17) for c, a in case.ops)
    return (seen and ((len(hs) >= 3 and nonempty) or (len(hs) >= 1 and screened))) or codec
