"""Case generator for the theta family (C04; theta legs of later properties)."""
FAMILY = "theta"
CORR = "Theta"
FAMNUM = 5
ORACLES = {"kmv_ok": 0, "layout_ok": 1}
GEN_MODULES = [("GenTheta", ["theta/hash_table.rs", "theta/serialization.rs"],
                ["MAX_THETA", "MIN_LG_K", "MAX_LG_K", "RESIZE_THRESHOLD", "REBUILD_THRESHOLD", "STRIDE_HASH_BITS", "STRIDE_MASK",
                 "UNCOMPRESSED_SERIAL_VERSION", "COMPRESSED_SERIAL_VERSION", "FLAGS_IS_READ_ONLY", "FLAGS_IS_EMPTY",
                 "FLAGS_IS_COMPACT", "FLAGS_IS_ORDERED",
                 "LIT_get_stride", "LIT_hash_and_screen", "LIT_find_in_entries", "LIT_try_insert", "LIT_rebuild", "LIT_resize",
                 "LIT_trim", "LIT_new", "LIT_starting_sub_multiple", "LIT_starting_theta_from_sampling_probability"],
                {"theta/hash_table.rs": ["get_stride", "hash_and_screen", "find_in_entries", "try_insert", "rebuild", "resize",
                                         "trim", "new", "starting_sub_multiple", "starting_theta_from_sampling_probability"]})]
OPNAMES = {}


def gen(rng, tier, n=None, focus=None):
    return []


def nontrivial(case, obs):
    return True
