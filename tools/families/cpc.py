"""Case generator for the CPC sketch family (C05; later the CPC legs of C11/C12/C17/C18).

Every stream stays inside the documented domain of the sketch (DESIGN.md Appendix B.6):
  * 8*C < 475*K, so that the window offset never exceeds 56;
  * at most 24*K surprising values (PairTable::rebuild asserts lg_size + 1 <= lg_k + 6);
  * rows < K, cols <= 63, never the code u32::MAX.
The generator keeps its own exact bit matrix to enforce this (it is not used as an oracle)."""
from common import Case
import pyref

FAMILY = "cpc"
CORR = "Cpc"               # Coq module DS.Corr.Cpc
FAMNUM = 7
ORACLES = {"prop_ok": 0, "union_ok": 1, "extremes_ok": 2, "layout_ok": 3, "malformed_ok": 4, "malformed_tie_ok": 5}
GEN_MODULES = [("GenCpc",
                ["cpc/mod.rs", "cpc/sketch.rs", "cpc/pair_table.rs", "cpc/kxp_byte_lookup.rs", "common/inv_pow2_table.rs"],
                ["MIN_LG_K", "MAX_LG_K", "KXP_BYTE_TABLE", "INVERSE_POWERS_OF_2",
                 "LIT_update", "LIT_row_col_update", "LIT_update_hip", "LIT_update_sparse",
                 "LIT_promote_sparse_to_windowed", "LIT_update_windowed", "LIT_move_window", "LIT_refresh_kxp",
                 "LIT_build_bit_matrix", "LIT_determine_flavor", "LIT_determine_correct_offset",
                 "LIT_rebuild", "LIT_maybe_insert", "UPSIZE_NUMERATOR", "UPSIZE_DENOMINATOR"],
                {"cpc/mod.rs": ["determine_flavor", "determine_correct_offset"],
                 "cpc/pair_table.rs": ["rebuild", "maybe_insert"],
                 "cpc/sketch.rs": ["update", "row_col_update", "update_hip", "update_sparse", "promote_sparse_to_windowed",
                                   "update_windowed", "move_window", "refresh_kxp", "build_bit_matrix"]}),
               ("GenCpcPhase", ["cpc/compression.rs"], ["LIT_determine_pseudo_phase"],
                {"cpc/compression.rs": ["determine_pseudo_phase"]}),
               ("GenCpcSer", ["cpc/serialization.rs"],
                ["SERIAL_VERSION", "FLAG_COMPRESSED", "FLAG_HAS_HIP", "FLAG_HAS_TABLE", "FLAG_HAS_WINDOW",
                 "LIT_make_preamble_ints"], {"cpc/serialization.rs": ["make_preamble_ints"]}),
               ("GenCpcTables", ["cpc/compression_data.rs"],
                ["LENGTH_LIMITED_UNARY_ENCODING_TABLE65", "LENGTH_LIMITED_UNARY_DECODING_TABLE65",
                 "COLUMN_PERMUTATIONS_FOR_ENCODING", "COLUMN_PERMUTATIONS_FOR_DECODING",
                 "ENCODING_TABLES_FOR_HIGH_ENTROPY_BYTE", "DECODING_TABLES_FOR_HIGH_ENTROPY_BYTE"], {}),
               ("GenCpcUnion", ["cpc/union.rs"],
                ["LIT_to_sketch", "LIT_reduce_k", "LIT_or_window_into_matrix", "LIT_or_table_into_matrix",
                 "LIT_or_matrix_into_matrix", "LIT_walk_table_updating_sketch"],
                {"cpc/union.rs": ["to_sketch", "reduce_k", "or_window_into_matrix", "or_table_into_matrix",
                                  "or_matrix_into_matrix", "walk_table_updating_sketch"]})]
OPNAMES = {0: "new", 1: "update", 2: "row_col", 3: "dump", 4: "validate", 5: "matrix", 6: "flavor_of", 7: "offset_of",
           8: "estimate", 9: "phase_of", 18: "roundtrip", 19: "ser", 17: "sk_ser", 30: "big", 32: "max_bytes", 40: "deser", 41: "mut_deser", 10: "sk_new", 11: "sk_rc", 12: "sk_item", 13: "sk_dump", 14: "sk_validate", 15: "sk_matrix",
           16: "sk_roundtrip", 24: "sk_reread", 20: "un_new", 21: "un_update", 22: "un_state", 23: "un_result"}
U32MAX = 2**32 - 1
PANIC_OBS = [-999]


def correct_offset(lgk, c):
    k = 1 << lgk
    return 0 if 8 * c < 19 * k else (8 * c - 19 * k) // (8 * k)


class Sim:
    """exact bit matrix + per-column counts, only to keep the stream inside the domain"""
    def __init__(self, lgk):
        self.lgk, self.k = lgk, 1 << lgk
        self.rows = {}
        self.cols = [0] * 64
        self.c = 0

    def has(self, rc):
        return (self.rows.get(rc >> 6, 0) >> (rc & 63)) & 1

    def surprises_after(self, rc):
        """(C, number of surprising values) after adding rc"""
        col = rc & 63
        new = 0 if self.has(rc) else 1
        c = self.c + new
        if 32 * c < 3 * self.k:
            return c, c
        off = correct_offset(self.lgk, c)
        n = 0
        for j in range(64):
            cj = self.cols[j] + (new if j == col else 0)
            if j < off:
                n += self.k - cj
            elif j >= off + 8:
                n += cj
        return c, n

    def cap(self):
        """capacity of the surprising-value table: PairTable::rebuild asserts lg_size <= 26 and lg_size + 1 <= lg_k + 6,
        maybe_insert grows at 4 n > 3 * 2^lg_size"""
        return 3 * (1 << min(26, self.lgk + 5)) // 4

    def load_at(self, rc, off):
        """number of surprising values at window offset [off] once rc is in the matrix"""
        col = rc & 63
        new = 0 if self.has(rc) else 1
        n = 0
        for j in range(64):
            cj = self.cols[j] + (new if j == col else 0)
            if j < off:
                n += self.k - cj
            elif j >= off + 8:
                n += cj
        return n

    def overflows(self, rc):
        """would offering rc make the table outgrow its capacity (the crate panics, the model is Stuck)?"""
        if self.has(rc):
            return False
        c = self.c + 1
        if 32 * self.c < 3 * self.k:                       # the insert happens in sparse mode
            return c > self.cap()
        off = correct_offset(self.lgk, self.c)
        if (rc & 63) >= off + 8 and self.load_at(rc, off) > self.cap():
            return True
        return 8 * c >= (27 + 8 * off) * self.k and self.load_at(rc, off + 1) > self.cap()

    def ok(self, rc):
        if rc == U32MAX or (rc >> 6) >= self.k:
            return False
        c, n = self.surprises_after(rc)
        return 8 * c < 475 * self.k and not self.overflows(rc)

    def add(self, rc):
        if not self.has(rc):
            self.rows[rc >> 6] = self.rows.get(rc >> 6, 0) | (1 << (rc & 63))
            self.cols[rc & 63] += 1
            self.c += 1

    def offset(self):
        return correct_offset(self.lgk, self.c)


def pair_of_item(item, seed, lgk):
    h1, h2 = pyref.murmur3_x64_128(pyref.le8(item), seed)
    col = min(63, 64 - h2.bit_length())
    rc = ((h1 & ((1 << lgk) - 1)) << 6) | col
    if rc == U32MAX:
        rc ^= 1 << 6
    return h1, h2, rc


class Builder:
    def __init__(self, rng, lgk, seed, dump_budget):
        self.rng, self.lgk, self.seed = rng, lgk, seed
        self.sim = Sim(lgk)
        self.ops = [(0, [])]
        self.dump_budget = dump_budget      # how many full observations may still be emitted
        self.last_off = 0
        self.last_windowed = False
        # rough cost of replaying the case on the extracted model (list-based table and window):
        # every update walks the table and half of the window
        self.cost = 0
        self.cost_budget = 30_000_000
        self.codec = False          # focus="codec": serialize (op 19) and round trip (op 18) at the observation points

    def charge(self, rc):
        c, n = self.sim.surprises_after(rc)
        self.cost += n + (self.sim.k // 2 if 32 * c >= 3 * self.sim.k else 0)
        return self.cost <= self.cost_budget

    def observe(self, full=True):
        if self.dump_budget <= 0:
            return
        self.dump_budget -= 1
        self.ops.append((3, []))
        if self.lgk <= 13:
            self.ops.append((4, []))
            if full:
                self.ops.append((5, []))
        self.ops.append((8, []))
        if self.codec:
            self.ops.append((19, [pyref.seed_hash(self.seed)]))
            if self.rng.random() < 0.6:
                self.ops.append((18, []))
                self.ops.append((3, []))
                if self.lgk <= 13:
                    self.ops.append((4, []))

    def after(self):
        off = self.sim.offset()
        win = 32 * self.sim.c >= 3 * self.sim.k
        if off != self.last_off or win != self.last_windowed:
            self.last_off, self.last_windowed = off, win
            self.observe()
        elif self.rng.random() < 0.002:
            self.observe()

    def rc(self, rc):
        if not self.sim.ok(rc) or not self.charge(rc):
            return False
        self.sim.add(rc)
        self.ops.append((2, [rc]))
        self.after()
        return True

    def item(self, item):
        h1, h2, rc = pair_of_item(item, self.seed, self.lgk)
        if not self.sim.ok(rc) or not self.charge(rc):
            return False
        self.sim.add(rc)
        self.ops.append((1, [item, h1, h2]))
        self.after()
        return True


def geometric_col(rng, boost):
    """column with P(col = j) ~ 2^-(j+1), optionally boosted towards the far right"""
    if rng.random() < boost:
        return rng.randint(0, 63)
    c = 0
    while c < 63 and rng.random() < 0.5:
        c += 1
    return c


def stream_colfill(b, rng, max_off, holes, far_ones):
    """fill column by column; leave [holes] zeros per column (surprising zeros once the window has passed)
    and sprinkle ones far to the right; later plug some of the holes (early-zone deletes)"""
    k = b.sim.k
    pending = []
    for col in range(0, 64):
        rows = list(range(k))
        rng.shuffle(rows)
        skip = set(rows[:rng.randint(0, holes)]) if holes else set()
        for r in rows:
            if b.sim.offset() >= max_off:
                break
            if r in skip:
                pending.append((r << 6) | col)
                continue
            b.rc((r << 6) | col)
            if far_ones and rng.random() < far_ones:
                b.rc((rng.randrange(k) << 6) | rng.randint(min(63, col + 8), 63))
            if rng.random() < 0.05:
                b.rc((rng.randrange(k) << 6) | rng.randint(0, 63))          # duplicates / window hits / anything
            if pending and rng.random() < 0.03:
                b.rc(pending.pop(rng.randrange(len(pending))))              # plug a hole (maybe in the early zone)
        if b.sim.offset() >= max_off:
            break
    rng.shuffle(pending)
    for rc in pending[:len(pending) // 2]:
        b.rc(rc)


def stream_random(b, rng, n, boost):
    k = b.sim.k
    for _ in range(n):
        b.rc((rng.randrange(k) << 6) | geometric_col(rng, boost))


def stream_hashed(b, rng, n):
    base = rng.choice([0, 1, -5, rng.getrandbits(64) - 2**63, 2**63 - 1 - n])
    for i in range(n):
        b.item(base + i if rng.random() < 0.9 else rng.getrandbits(64) - 2**63)


def stream_right_to_left(b, rng, ncols):
    """columns from the far right: every coupon is a surprising one, the early zone is all surprising zeros"""
    k = b.sim.k
    for col in range(63, 63 - ncols, -1):
        rows = list(range(k))
        rng.shuffle(rows)
        for r in rows:
            b.rc((r << 6) | col)


def stream_probe_runs(b, rng):
    """long probe runs in a small surprising-value table, then deletions in the middle of a run.
    Rows are grouped so that their pairs share a home slot (home = high bits of (row << 6 | col)); a block of
    adjacent rows (also wrapping from row K-1 to row 0) keeps surprising zeros in the first columns; once the
    window has moved past them the table holds [zeros of the block] and, added afterwards, surprising ones of the
    same and the neighbouring rows (inserted behind entries that sit in their home slots).  Then the zeros are
    plugged one by one (maybe_delete with its run repair) and after every deletion every surprising one is offered
    again (a duplicate must be found where it is) and new ones are added."""
    k = b.sim.k
    nblock = rng.randint(2, min(5, k // 2))
    start = rng.choice([0, k - nblock, k - nblock + 1, k - 2, k - 1, rng.randrange(k)])
    block = [(start + i) % k for i in range(nblock)]
    zero_cols = rng.randint(1, 3)
    holes = []
    for r in block:
        cols = rng.sample(range(zero_cols + 1), rng.randint(1, zero_cols + 1))
        holes += [(r << 6) | c for c in cols]
    rng.shuffle(holes)
    holeset = set(holes)
    want_off = rng.randint(zero_cols + 1, zero_cols + 4)
    col = 0
    while b.sim.offset() < want_off and col < 40:
        rows = list(range(k)); rng.shuffle(rows)
        for r in rows:
            rc = (r << 6) | col
            if rc not in holeset:
                b.rc(rc)
        col += 1
    b.observe()
    ones = []
    neigh = sorted(set(block) | {(block[0] - 1) % k, (block[-1] + 1) % k, (block[-1] + 2) % k})

    def add_one():
        for _ in range(20):
            rc = (rng.choice(neigh) << 6) | rng.randint(min(63, b.sim.offset() + 8), 63)
            if not b.sim.has(rc):
                if b.rc(rc):
                    ones.append(rc)
                return
    for _ in range(rng.randint(2, 3 * nblock)):
        add_one()
    while holes:
        h = holes.pop()
        if (h & 63) < b.sim.offset():
            b.rc(h)                                    # maybe_delete in the middle of a run
        else:
            b.rc(h)
        for rc in ones:
            b.rc(rc)                                   # duplicates: must be no-ops
        for hh in rng.sample(holes, min(len(holes), 2)):
            pass
        if rng.random() < 0.6:
            add_one()
        if rng.random() < 0.15:
            b.observe()
    for rc in ones:
        b.rc(rc)
    b.observe()


def probes(lgk):
    k = 1 << lgk
    cs = {0, 1, 2}
    for t in (3 * k // 32, k // 2, 27 * k // 8):
        cs |= {max(0, t - 1), t, t + 1}
    for w in range(0, 58):
        t = (19 + 8 * w) * k // 8
        cs |= {max(0, t - 1), t, t + 1}
    return sorted(c for c in cs if c < 2**32)


def gen_case(rng, cid, tier, kind, lgk, codec=False):
    seed = rng.choice([9001, 9001, 1, 12345, rng.getrandbits(64)])
    if pyref.seed_hash(seed) == 0:
        seed = 9001
    k = 1 << lgk
    b = Builder(rng, lgk, seed, dump_budget=(70 if lgk <= 6 else 24 if lgk <= 9 else 6))
    b.codec = codec
    if codec:
        b.observe()                 # the empty sketch: 8-byte image, round trip
    if tier != "quick":
        b.cost_budget *= 5
    if kind == "colfill":
        max_off = 57 if lgk <= 6 else (20 if lgk <= 8 else (6 if lgk <= 10 else 2))
        stream_hashed(b, rng, rng.choice([0, 3, k // 8]))
        stream_colfill(b, rng, max_off, holes=rng.choice([0, 1, 3, max(1, k // 8)]), far_ones=rng.choice([0, 0.02, 0.1]))
    elif kind == "random":
        n = rng.choice([k // 4, k, 4 * k, 8 * k]) if lgk <= 9 else rng.choice([k // 4, k, 3 * k])
        stream_random(b, rng, n, boost=rng.choice([0.0, 0.05, 0.3]))
    elif kind == "hashed":
        n = rng.choice([1, k // 16, k // 2, 2 * k, 5 * k]) if lgk <= 10 else rng.choice([k // 16, k // 2, 2 * k])
        stream_hashed(b, rng, max(1, n))
    elif kind == "hashed_long":         # plain updates only, long enough to cross every flavor and many window moves
        b.cost_budget *= 20
        n = {4: 100000, 5: 60000, 6: 40000, 7: 30000}.get(lgk, 20000)
        base = rng.getrandbits(62)
        for i in range(n):
            b.item(base + i)
    elif kind == "overflow":
        # beyond the table capacity: columns from the far right make every coupon a surprising one and every
        # early-zone position a surprising zero; the first pair the table cannot hold must panic on both sides
        stream_hashed(b, rng, rng.choice([0, 2, k // 4]))
        cols = list(range(63, 20, -1))
        if rng.random() < 0.5:
            rng.shuffle(cols)
        done = False
        for col in cols:
            rows = list(range(k)); rng.shuffle(rows)
            for r in rows:
                rc = (r << 6) | col
                if 8 * (b.sim.c + 1) >= 475 * k:
                    done = True; break
                if b.sim.overflows(rc):
                    b.ops.append((2, [rc]))          # expected: PANIC (model Stuck, crate assert in PairTable::rebuild)
                    done = True; break
                b.rc(rc)
            if done:
                break
    elif kind == "probe_runs":
        for _ in range(3):
            stream_probe_runs(b, rng)
            if b.sim.offset() > 40:
                break
    elif kind == "fullcols":            # complete columns only: pinned / sliding sketches WITHOUT surprising values
        stream_colfill(b, rng, 57 if lgk <= 6 else 12, holes=0, far_ones=0)
    elif kind == "rtl":
        stream_right_to_left(b, rng, rng.choice([1, 3, 12, 24]))
        stream_random(b, rng, k, boost=0.2)
    elif kind == "sparse_big":          # lg_k 21 / 26: sparse flavor only (the model's lists are K long otherwise)
        n = rng.choice([50, 400, 1500])
        for _ in range(n):
            r = rng.random()
            if r < 0.5:
                b.item(rng.getrandbits(64) - 2**63)
            elif r < 0.9:
                b.rc((rng.choice([0, 1, k - 1, k - 2, rng.randrange(k)]) << 6) | geometric_col(rng, 0.3))
            else:
                b.rc((rng.choice([k - 1, k - 2]) << 6) | rng.choice([62, 63, 63]))
    if kind != "overflow":
        b.dump_budget = max(b.dump_budget, 1)
        b.observe()
    ops = b.ops
    # dense threshold probes of the pure functions
    for l in ([lgk] + [rng.randint(4, 26)]) if kind != "overflow" else []:
        for c in rng.sample(probes(l), 12):
            ops.append((6, [l, c]))
            ops.append((7, [l, c]))
    return Case(cid, [lgk, seed], ops, tag="cpc-%s%s-lg%d" % ("codec-" if codec else "", kind, lgk))


def plan(tier):
    """(kind, lg_k) list"""
    p = []
    if tier == "quick":
        for lgk in (4, 4, 5, 5, 6, 7, 8):
            p.append(("colfill", lgk))
        p += [("colfill", 9), ("colfill", 10), ("colfill", 11), ("colfill", 12)]
        for lgk in range(4, 13):
            p.append(("random", lgk))
            p.append(("hashed", lgk))
        for lgk in (4, 5, 6, 7, 8, 10):
            p.append(("rtl", lgk))
        p += [("random", 4), ("random", 5), ("hashed", 4), ("hashed", 6)]
        p += [("hashed_long", 4), ("hashed_long", 5), ("hashed_long", 6), ("hashed_long", 7)]
        for rep in range(4):
            for lgk in (4, 5, 6):
                p.append(("probe_runs", lgk))
        p += [("probe_runs", 7), ("probe_runs", 8)]
    else:
        for rep in range(6):
            for lgk in (4, 4, 5, 5, 6, 6, 7, 8):
                p.append(("colfill", lgk))
        for rep in range(2):
            p += [("colfill", 9), ("colfill", 10), ("colfill", 11), ("colfill", 12)]
        for rep in range(4):
            for lgk in range(4, 13):
                p.append(("random", lgk))
                p.append(("hashed", lgk))
                p.append(("rtl", lgk))
        for lgk in (13, 14, 16):
            p.append(("hashed", lgk))
        for rep in range(3):
            for lgk in (4, 5, 6, 7):
                p.append(("hashed_long", lgk))
        for rep in range(30):
            for lgk in (4, 5, 6, 7, 8):
                p.append(("probe_runs", lgk))
        for rep in range(4):
            p += [("sparse_big", 21), ("sparse_big", 26)]
    return p


# ------------------------------------------------------------------------------------------------
# C06: CpcUnion cases (focus="union")
FLAVORS = ["empty", "sparse", "hybrid", "pinned", "sliding"]


def flavor_target(rng, lgk, flavor):
    """a coupon count inside the flavor's range (None if the range is empty at this lg_k)"""
    k = 1 << lgk
    lo = {"empty": 0, "sparse": 1, "hybrid": -(-3 * k // 32), "pinned": k // 2, "sliding": -(-27 * k // 8)}[flavor]
    hi = {"empty": 0, "sparse": -(-3 * k // 32) - 1, "hybrid": k // 2 - 1, "pinned": -(-27 * k // 8) - 1,
          "sliding": min(8 * k, 59 * k)}[flavor]
    if hi < lo:
        return None
    r = rng.random()
    if r < 0.25:
        return lo
    if r < 0.45:
        return hi if flavor != "sliding" else rng.randint(lo, lo + k)
    return rng.randint(lo, hi)


class UBuilder:
    """builds the op list of a union case; keeps exact matrices only to steer the streams (not an oracle)"""
    def __init__(self, rng, seed):
        self.rng, self.seed = rng, seed
        self.ops = []
        self.nslot = 0
        self.sims = {}          # slot -> Sim
        self.cost = 0

    def sketch(self, lgk, flavor, style):
        rng = self.rng
        slot = self.nslot; self.nslot += 1
        self.ops.append((10, [slot, lgk]))
        sim = Sim(lgk); self.sims[slot] = sim
        target = flavor_target(rng, lgk, flavor)
        if target is None:
            target = 1
        k = 1 << lgk
        guard = 0
        while sim.c < target and guard < 40 * k + 100:
            guard += 1
            if style == "hashed":
                item = rng.getrandbits(64) - 2**63
                h1, h2, rc = pair_of_item(item, self.seed, lgk)
                if not sim.ok(rc):
                    continue
                sim.add(rc); self.ops.append((12, [slot, item, h1, h2]))
            else:
                if style == "cols":        # few distinct columns, far right included: dense rows after folding
                    col = rng.choice([0, 1, 2, 3, 9, 17, 40, 63])
                else:
                    col = geometric_col(rng, 0.08)
                rc = (rng.randrange(k) << 6) | col
                if not sim.ok(rc):
                    continue
                sim.add(rc); self.ops.append((11, [slot, rc]))
            self.cost += 1 + (k // 4 if 32 * sim.c >= 3 * k else sim.c // 2)
        return slot

    def observe_sketch(self, slot, full=True):
        self.ops.append((13, [slot]))
        self.ops.append((14, [slot]))
        if full:
            self.ops.append((15, [slot]))
        if self.rng.random() < 0.5:
            self.ops.append((17, [slot, pyref.seed_hash(self.seed)]))   # image checked by the layout decoder (C12)


def union_matrix(lg, mats):
    """(lg_min, rows) of the OR of folded matrices; only for domain steering"""
    live = [(l, m) for (l, m) in mats if any(m.values())]
    lgm = min([lg] + [l for l, _ in live])
    out = {}
    for l, m in live:
        for r, w in m.items():
            out[r & ((1 << lgm) - 1)] = out.get(r & ((1 << lgm) - 1), 0) | w
    return lgm, out


def gen_union_case(rng, cid, tier, big):
    seed = rng.choice([9001, 9001, 1, 12345, rng.getrandbits(64)])
    if pyref.seed_hash(seed) == 0:
        seed = 9001
    b = UBuilder(rng, seed)
    lo, hi = (4, 8) if not big else (9, 11)
    lg_u = rng.choice([rng.randint(lo, hi), rng.randint(lo, hi + 1), 4, 12 if big else 8])
    n_in = rng.choice([0, 1, 2, 2, 3, 3, 4, 5, 6])
    inputs = []
    for i in range(n_in):
        lgk = rng.choice([lg_u, lg_u, rng.randint(lo, hi), max(4, lg_u - rng.randint(1, 3)), min(12, lg_u + rng.randint(1, 3))])
        if big:
            flavor = rng.choice(["empty", "sparse", "sparse", "hybrid", "pinned"])
        else:
            flavor = rng.choice(FLAVORS + ["sparse", "sliding"])
        slot = b.sketch(lgk, flavor, rng.choice(["geo", "geo", "hashed", "cols"]))
        if rng.random() < 0.35:
            b.ops.append((16, [slot]))                 # deserialize(serialize(.))
        if rng.random() < 0.3:
            b.observe_sketch(slot, full=(lgk <= 8))
        inputs.append(slot)
    mats = [(b.sims[s].lgk, b.sims[s].rows) for s in inputs]

    def in_domain(lg, ms):
        lgm, rows = union_matrix(lg, ms)
        km = 1 << lgm
        c = sum(bin(w).count("1") for w in rows.values())
        if not 8 * c < 475 * km:
            return False
        cap = 3 * (1 << min(26, lgm + 5)) // 4
        if 32 * c < 3 * km:
            return c <= cap
        # every intermediate accumulator walk and the final table stay far below the capacity: bound the
        # surprising values at every offset up to the final one by the crude count (zeros of the final matrix below
        # the final offset) + (all coupons)
        off = correct_offset(lgm, c)
        zeros = sum(km - sum((rows.get(r, 0) >> j) & 1 for r in range(km)) for j in range(off))
        return zeros + c <= cap

    orders = [list(range(n_in))]
    if n_in >= 2:
        orders.append(list(reversed(range(n_in))))
        o = list(range(n_in)); rng.shuffle(o); o = o + [rng.choice(o)]     # a repetition: idempotence
        orders.append(o)
    res_slot = b.nslot; b.nslot += 1
    ucount = 0
    for oi, order in enumerate(orders):
        u = ucount; ucount += 1
        b.ops.append((20, [u, lg_u]))
        b.ops.append((23, [u, res_slot]))              # result of the empty union
        fed = []
        for i in order:
            if not in_domain(lg_u, fed + [mats[i]]):
                continue
            fed.append(mats[i])
            b.ops.append((21, [u, inputs[i]]))
            if oi == 0 or rng.random() < 0.3:
                b.ops.append((22, [u]))
                b.ops.append((23, [u, res_slot]))      # to_sketch after every step
                b.observe_sketch(res_slot, full=True)
        b.ops.append((22, [u]))
        b.ops.append((23, [u, res_slot]))
        b.observe_sketch(res_slot, full=True)
        if oi == 0 and rng.random() < 0.5 and fed:
            # the result (possibly after a round trip) is itself an input of another union
            keep = b.nslot; b.nslot += 1
            b.ops.append((23, [u, keep]))
            if rng.random() < 0.5:
                b.ops.append((16, [keep]))
            u2 = ucount; ucount += 1
            lg2 = rng.choice([lg_u, max(4, lg_u - 1), min(12, lg_u + 2)])
            b.ops.append((20, [u2, lg2]))
            extra = b.sketch(rng.randint(lo, hi), rng.choice(["sparse", "hybrid", "pinned"]), "geo")
            lgm, rows = union_matrix(lg_u, fed)
            for src, mat in rng.sample([(keep, (lgm, rows)), (extra, (b.sims[extra].lgk, b.sims[extra].rows))], 2):
                b.ops.append((21, [u2, src]))
                b.ops.append((22, [u2]))
                b.ops.append((23, [u2, res_slot]))
                b.observe_sketch(res_slot, full=True)
    return Case(cid, [lg_u, seed], b.ops, tag="cpcunion-lg%d-n%d" % (lg_u, n_in))


def gen_union(rng, tier, n):
    if n is None:
        n = 60 if tier == "quick" else 500
    out = []
    for i in range(n):
        out.append(gen_union_case(rng, i, tier, big=(i % 12 == 11)))
    return out


# ------------------------------------------------------------------------------------------------
# C17 (CPC part): configuration extremes (focus="extremes")
PHASE_RATIOS = [(1000, 2375), (4, 3), (10, 11), (100, 132), (3, 5), (1000, 1965), (1000, 2275)]


def extreme_counts(rng, lgk):
    """coupon counts around every threshold of determine_flavor / determine_pseudo_phase / determine_correct_offset,
    the u32 overflow points of the pre-repair code, and random u32 values"""
    k = 1 << lgk
    cs = {0, 1, 2, 2**32 - 1, 2**32 - 2, 2**31, 2**27 - 1, 2**27, 2**27 + 1, 2**29 - 1, 2**29, 2**29 + 1,
          4294967, 4294968, 4294966, 64 * k, 64 * k - 1}
    for t in (3 * k // 32, k // 2, 27 * k // 8):
        cs |= {max(0, t - 1), t, t + 1}
    for a, b in PHASE_RATIOS:
        t = b * k // a
        cs |= {max(0, t - 1), t, t + 1, t + 2}
        cs |= {(b * k + j * 2**32) // a for j in (1, 2)}          # where the u32 product b*k or a*c wraps
    for w in range(0, 58, 5):
        t = (19 + 8 * w) * k // 8
        cs |= {max(0, t - 1), t, t + 1}
    for _ in range(6):
        cs.add(rng.getrandbits(32)); cs.add(rng.randrange(0, 64 * k + 1)); cs.add(2**27 + rng.randrange(0, 7 * 2**20))
    return sorted(c for c in cs if 0 <= c < 2**32)


def gen_extremes(rng, tier, n):
    cases = []
    # 1. the pure threshold functions for every lg_k
    for lgk in range(4, 27):
        ops = []
        for c in extreme_counts(rng, lgk):
            ops.append((6, [lgk, c]))
            ops.append((9, [lgk, c]))
            if c <= 64 * (1 << lgk) and 8 * c < 475 * (1 << lgk):
                ops.append((7, [lgk, c]))
        cases.append(Case(len(cases), [lgk, 9001], ops, tag="cpc-extreme-thresholds-lg%d" % lgk))
    # 2. scripted large sketches: serialize + deserialize where the k-scaled products used to overflow
    big = [(4, 40, 3), (5, 0, 17), (12, 10, 100), (16, 3, 77),
           (21, 0, (1 << 20) + 1000),            # pinned at lg_k 21: 2375 * k >= 2^32
           (17, 33, 74000),                      # 4.4 M coupons: 1000 * C >= 2^32
           (22, 0, 3 * (1 << 22) // 32 + 5)]     # hybrid at lg_k 22
    if tier != "quick":
        big += [(26, 2, 0),                      # C = 2^27 at lg_k 26: num_coupons << 5 used to wrap to 0
                (26, 0, 3 * (1 << 26) // 32 + 1), (24, 5, 17), (21, 3, 12345), (20, 4, 99)]
    for (lgk, full, extra) in big:
        cases.append(Case(len(cases), [lgk, 9001], [(30, [lgk, full, extra])], tag="cpc-extreme-big-lg%d" % lgk))
    # 3. the smallest configuration through every window offset, and sparse sketches at lg_k 21 / 26
    for kind, lgk in [("colfill", 4), ("colfill", 4), ("rtl", 4), ("random", 4), ("sparse_big", 21), ("sparse_big", 26),
                      ("hashed_long", 4), ("hashed_long", 5), ("hashed_long", 6), ("probe_runs", 4), ("probe_runs", 5),
                      ("probe_runs", 6), ("fullcols", 4), ("fullcols", 5)]:
        c = gen_case(rng, len(cases), tier, kind, lgk)
        cases.append(c)
    if n is not None:
        cases = cases[:n]
    return cases


def gen_codec(rng, tier, n):
    """C11 / C12: serialize, decode with the independent layout decoder, round trip and keep updating"""
    p = []
    for lgk in (4, 5, 6, 7):
        p += [("fullcols", lgk), ("colfill", lgk), ("hashed", lgk), ("random", lgk), ("rtl", lgk)]
    for lgk in (8, 9, 10, 11, 12):
        p += [("hashed", lgk), ("colfill", lgk), ("random", lgk)]
    p += [("fullcols", 8), ("hashed_long", 4), ("hashed_long", 6), ("sparse_big", 21)]
    if tier != "quick":
        p = p * 5 + [("hashed", 13), ("hashed", 14), ("hashed", 16), ("sparse_big", 26)]
    if n is not None:
        rng.shuffle(p)
        p = p[:n]
    return [gen_case(rng, i, tier, kind, lgk, codec=True) for i, (kind, lgk) in enumerate(p)]


# ------------------------------------------------------------------------------------------------
# C14 (CPC part): malformed images (focus="malformed")
def mutations(rng, count):
    """recipes [kind, pos, val] applied by the harness to the current sketch's own image"""
    out = []
    for _ in range(count):
        kind = rng.choice([0, 0, 1, 1, 2, 3, 3, 4, 5])
        pos = rng.choice([rng.randrange(0, 48), rng.randrange(0, 48), rng.randrange(0, 1 << 16)])
        if kind == 3:
            pos = rng.choice([2, 2, 3, 3, 4, 5, 8, 9, rng.randrange(0, 64)])
            val = rng.choice([0, 1, 2, 3, 0xffffffff, 0x80000000, 1 << 27, 7600, 950, 60 << 10, rng.getrandbits(32),
                              rng.randrange(0, 4096)])
        elif kind == 1:
            val = rng.choice([0, 1, 2, 4, 16, 26, 27, 63, 64, 127, 128, 255, rng.randrange(256)])
        else:
            val = rng.getrandbits(16)
        out.append((41, [kind, pos, val]))
    return out


def gen_malformed_case(rng, cid, tier, kind, lgk):
    c = gen_case(rng, cid, tier, kind, lgk)
    ops = []
    per = 5 if tier == "quick" else 40      # (quick: the model's invariant check on every accepted dump dominates the run time)
    for (code, a) in c.ops:
        if code in (6, 7):
            continue
        ops.append((code, a))
        if code == 3:                      # at every observation point: mutate the current image
            ops += mutations(rng, per)
    ops += mutations(rng, 3 * per)
    return Case(cid, c.cfg, ops, tag="cpc-malformed-%s-lg%d" % (kind, lgk))


def gen_edge_image_case(rng, cid, tier, lgk, variant):
    """C14: the sketch's own, unmodified image (mutation 'append 0 bytes') of a state next to the edge of the domain:
    'offset': full columns up to C = (475K - 1) / 8 - j (the next updates push the window offset beyond 56);
    'table' : the surprising-value table within a few pairs of its capacity.  deserialize accepts these valid images; whether
    the 40 further updates / the union of the harness then panic is decided by the model (oracle malformed_tie_ok)"""
    k = 1 << lgk
    b = Builder(rng, lgk, 9001, dump_budget=0)
    b.cost_budget *= 40
    ident = (41, [4, 0, 0])
    if variant == "offset":
        cmax = (475 * k - 1) // 8
        stops = sorted({cmax - j for j in (0, 1, 3, 20, 39, 40, 45, 200)})
        for col in range(64):
            rows = list(range(k)); rng.shuffle(rows)
            for r in rows:
                if not b.rc((r << 6) | col):
                    break
                if b.sim.c in stops:
                    b.ops += [(3, []), ident]
    else:
        cols = list(range(63, 20, -1))
        left = rng.choice([0, 1, 5, 30, 60])
        done = False
        for col in cols:
            rows = list(range(k)); rng.shuffle(rows)
            for r in rows:
                rc = (r << 6) | col
                if 8 * (b.sim.c + 1) >= 475 * k or b.sim.overflows(rc):
                    done = True; break
                b.rc(rc)
                c, nsv = b.sim.surprises_after(rc)
                if b.sim.cap() - nsv <= left:
                    done = True; break
            if done:
                break
        b.ops += [(3, []), ident]
    return Case(cid, [lgk, 9001], b.ops, tag="cpc-malformed-edge-%s-lg%d" % (variant, lgk))


# the reviewer's replay: lg_k 4, columns 5..63 full + rows 0..4 of column 4, C = 949 (8C = 7592 < 7600): accepted, validate() true
EDGE_IMAGE_949 = bytes.fromhex(
    "0a011004001ecc93b50300004b0000000000000000b02e40eed3812ba7968e400600000007000000ffffffffffffffffffffffffffffffffffffffff"
    "ffffffff00000000aa54a952a54a55aa5295aa54a52a55a94a55aa5215000000")


def gen_malformed_edge(rng, tier, n):
    cases = []
    for lgk, variant in [(4, "offset"), (5, "offset"), (4, "table"), (4, "table"), (5, "table"), (6, "table")]:
        cases.append(gen_edge_image_case(rng, len(cases), tier, lgk, variant))
    cases.append(Case(len(cases), [4, 9001], [(40, list(EDGE_IMAGE_949))], tag="cpc-malformed-edge-image949"))
    return cases


def gen_malformed(rng, tier, n):
    cases = gen_malformed_edge(rng, tier, n)
    plan_m = [("colfill", 4), ("colfill", 5), ("fullcols", 4), ("fullcols", 6), ("hashed", 4), ("hashed", 6), ("hashed", 8),
              ("hashed", 10), ("random", 5), ("random", 7), ("random", 9), ("rtl", 4), ("rtl", 6), ("colfill", 8), ("hashed", 12)]
    if tier != "quick":
        plan_m = plan_m * 4
    else:
        # quick tier: small sketches only (lg_k <= 8); the larger ones run in the thorough tier
        plan_m = [(k, l) for (k, l) in plan_m if l <= 8] + [("hashed", 9)]
    for kind, lgk in plan_m:
        cases.append(gen_malformed_case(rng, len(cases), tier, kind, lgk))
    # raw byte strings: random, and hand-made headers with every flag combination and short lengths
    ops = []
    for _ in range(150 if tier == "quick" else 1500):
        ln = rng.choice([0, 1, 7, 8, 9, 12, 16, 20, 24, 40, rng.randrange(0, 80)])
        b = [rng.randrange(256) for _ in range(ln)]
        if ln >= 8 and rng.random() < 0.8:
            b[0] = rng.choice([2, 4, 6, 8, 10, rng.randrange(256)]); b[1] = 1; b[2] = 16
            # (lg_k 26 is left out: an accepted lg_k 26 image costs the model's invariant check minutes)
            b[3] = rng.choice([4, 5, 10, 12, 13, 27, 3, 63, 255])
            b[4] = rng.choice([0, 0, 1, 63, 64])
            b[5] = 2 | (rng.randrange(8) << 2)
            sh = pyref.seed_hash(9001); b[6] = sh & 255; b[7] = sh >> 8
            if ln >= 12 and rng.random() < 0.7:
                c = rng.choice([0, 1, 2, 5, 100, 1 << 20, 0xffffffff])
                b[8:12] = [(c >> (8 * i)) & 255 for i in range(4)]
        ops.append((40, b))
    cases.append(Case(len(cases), [4, 9001], ops, tag="cpc-malformed-raw"))
    if n is not None:
        cases = cases[:n]
    return cases


def gen_size(rng, tier, n):
    """C18: max_serialized_bytes over the whole lg_k range (incl. the out-of-range panics), and serialized sketches"""
    ops = [(32, [l]) for l in range(4, 27)]
    cases = [Case(0, [4, 9001], ops, tag="cpc-size-table")]
    for c in gen_codec(rng, tier, 16 if tier == "quick" else 60):
        c.cid = len(cases); cases.append(c)
    return cases


def gen_overflow(rng, tier, n):
    """C05 boundary leg: the surprising-value table's capacity; the last op of every case must panic on both sides"""
    p = [("overflow", 4)] * 4 + [("overflow", 5)] * 3 + [("overflow", 6)]
    if tier != "quick":
        p = p * 4 + [("overflow", 7)]
    return [gen_case(rng, i, tier, kind, lgk) for i, (kind, lgk) in enumerate(p)]


def gen_union_edge(rng, tier, n):
    """C06 boundary leg: unions of valid sketches that leave the domain of the union code (model Stuck = crate panic):
    (a) a sparse lg_k 13 source with few rows and far-right columns walked into a lg_k 4 accumulator (case A / reduce_k):
        the accumulator's table outgrows its capacity in the middle of the walk;
    (b) two lg_k 4 sketches of disjoint far-right columns: the updates are fine (bit matrix), to_sketch cannot store the
        surprising values (ones right of the window + zeros left of it);
    (c) two lg_k 4 sketches whose union holds >= 59.375 K coupons: to_sketch returns a sketch with offset > 56 whose own
        image the crate's deserialize rejects (op sk_reread answers [0])."""
    cases = []

    def feed(b, slot, sim, rcs):
        for rc in rcs:
            if sim.has(rc):
                continue
            if not sim.ok(rc):
                return False
            sim.add(rc); b.ops.append((11, [slot, rc]))
        return True

    def sketch_of(b, lgk, rcs, roundtrip):
        slot = b.nslot; b.nslot += 1
        b.ops.append((10, [slot, lgk]))
        sim = Sim(lgk); b.sims[slot] = sim
        ok = feed(b, slot, sim, rcs)
        if roundtrip:
            b.ops.append((16, [slot]))
        return slot, ok

    reps = 2 if tier == "quick" else 8
    for rep in range(reps):
        # (a)
        for lg_src, lg_u in [(13, 4), (13, 5), (12, 4)]:
            b = UBuilder(rng, 9001)
            nrows = 1 << lg_u
            c0 = rng.choice([40, 36, 30])
            rcs = [(((r + nrows * rng.randrange(1 << (lg_src - lg_u))) << 6) | col) for col in range(c0, 64) for r in range(nrows)]
            rng.shuffle(rcs)
            rcs = rcs[:(3 * (1 << lg_src)) // 32 - 1]           # the source stays sparse
            slot, ok = sketch_of(b, lg_src, rcs, rep % 2 == 0)
            b.ops += [(20, [0, lg_u]), (21, [0, slot]), (22, [0]), (23, [0, b.nslot])]
            cases.append(Case(len(cases), [lg_u, 9001], b.ops, tag="cpcunion-edge-a-lg%d" % lg_src))
        # (b)
        for lgk in (4, 5):
            k = 1 << lgk
            b = UBuilder(rng, 9001)
            lo = rng.choice([40, 38, 44])
            mid = (lo + 64) // 2
            sl = []
            for cols in (range(lo, mid), range(mid, 64)):
                rcs = [((r << 6) | col) for col in cols for r in range(k)]
                rng.shuffle(rcs)
                slot, ok = sketch_of(b, lgk, rcs, rep % 2 == 1)
                sl.append(slot)
            res = b.nslot
            b.ops += [(20, [0, lgk]), (21, [0, sl[0]]), (21, [0, sl[1]]), (22, [0]), (23, [0, res]), (13, [res])]
            cases.append(Case(len(cases), [lgk, 9001], b.ops, tag="cpcunion-edge-b-lg%d" % lgk))
        # (c)
        for lgk in (4, 5):
            k = 1 << lgk
            b = UBuilder(rng, 9001)
            split = rng.choice([59, 58, 57])
            miss = rng.choice([0, 0, 3, k])                       # pairs missing from the full matrix
            allrc = [((r << 6) | col) for col in range(64) for r in range(k)]
            left = [rc for rc in allrc if (rc & 63) < split]
            right = [rc for rc in allrc if (rc & 63) >= split]
            if miss:
                left = left[:-miss]
            rng.shuffle(right)
            s1, _ = sketch_of(b, lgk, left, False)
            s2, _ = sketch_of(b, lgk, right, rep % 2 == 0)
            res = b.nslot
            b.ops += [(20, [0, lgk]), (21, [0, s1]), (21, [0, s2]), (22, [0]), (23, [0, res]), (24, [res]), (13, [res])]
            cases.append(Case(len(cases), [lgk, 9001], b.ops, tag="cpcunion-edge-c-lg%d" % lgk))
    if n is not None:
        cases = cases[:n]
    return cases


# ---------------------------------------------------------------------------------------------- known-finding matchers
def _sim_of_dump(d):
    """exact matrix of a float-free dump [lg_k; C; off; fic; flavor; merge; |win|; win..; |tab|; tab..]"""
    lgk, c, off = d[0], d[1], d[2]
    nwin = d[6]
    win = d[7:7 + nwin]
    tab = d[8 + nwin:]
    sim = Sim(lgk)
    k = 1 << lgk
    if nwin == 0:
        for rc in tab:
            sim.add(rc)
        return sim
    sv = set(tab)
    for r in range(k):
        for col in range(64):
            if col < off:
                bit = 0 if ((r << 6) | col) in sv else 1
            elif col < off + 8:
                bit = (win[r] >> (col - off)) & 1
            else:
                bit = 1 if ((r << 6) | col) in sv else 0
            if bit:
                sim.add((r << 6) | col)
    return sim


def use_pairs(lgk):
    k = 1 << lgk
    out = []
    for i in range(40):
        row = (i * 37 + 11) % k
        col = (63 - i % 5) if i % 4 == 3 else (i * 5) % 9
        rc = (row << 6) | col
        if rc != U32MAX:
            out.append(rc)
    return out


def _matrix_overflows(sim):
    """a sketch of exactly this matrix cannot be built: offset > 56, or more surprising values than the table holds"""
    if 8 * sim.c >= 475 * sim.k:
        return True
    if 32 * sim.c < 3 * sim.k:
        return sim.c > sim.cap()
    off = sim.offset()
    n = sum((sim.k - sim.cols[j]) if j < off else (sim.cols[j] if j >= off + 8 else 0) for j in range(64))
    return n > sim.cap()


def _may_overflow(sim):
    """necessary for a table overflow on the way to this matrix, in whatever order its pairs arrive: all coupons plus all
    positions left of the final window exceed the capacity (or the matrix is beyond offset 56)"""
    return 8 * sim.c >= 475 * sim.k or sim.c + sim.offset() * sim.k > sim.cap()


def kf_image_at_domain_edge(case):
    """known finding C14-cpc-image-at-domain-edge: every accepted image of the case whose use phase failed is a VALID image
    whose state is next to the edge of the sketch's domain: replayed on the exact matrix of the dump, the 40 pairs of the
    harness push the window offset beyond 56 (8C >= 475K) or the surprising values beyond the table's capacity, resp. the union
    of the value with its updated copy does.  Anything else (wrapper disagreement, a panic far from the edge) is not matched."""
    hits = 0
    for (code, a), o in zip(case.ops, case.obs or []):
        if code not in (40, 41) or o[:1] != [1] or len(o) < 12:
            continue
        w, up, un = o[1], o[2], o[3]
        if (up, un) == (1, 1):
            continue
        if w != 1:
            return False
        sim = _sim_of_dump(o[4:])
        leaves = False
        for rc in use_pairs(sim.lgk):
            if (rc >> 6) < sim.k and not sim.has(rc):
                if not sim.ok(rc):
                    leaves = True
                    break
                sim.add(rc)
        if up == 0 and not leaves:
            return False
        if up == 1 and leaves:
            return False
        if un == 0 and not (_matrix_overflows(sim) or _may_overflow(sim)):
            return False
        hits += 1
    return hits > 0


def kf_union_capacity(case):
    """known findings c06-cpc-union-table-capacity / c06-cpc-union-result-outside-domain: the first failing op of the case
    is a union op on a union whose exact OR-of-folded-matrices (recomputed here from the offered pairs) is in the
    capacity situation: un_update (op 21) panics and the new union matrix may overflow a table on the way (all coupons +
    all positions left of the window > capacity, or 8C >= 475K); un_result (op 23) panics and the matrix cannot be stored
    (exact); sk_reread (op 24) answers [0] or sk_validate (14) panics on a result with 8C >= 475K."""
    sks, uns = {}, {}
    obs = case.obs or []
    for i, (code, a) in enumerate(case.ops):
        o = obs[i] if i < len(obs) else PANIC_OBS
        bad = (o == PANIC_OBS)
        if code == 10:
            sks[a[0]] = Sim(a[1])
        elif code == 11 and a[0] in sks:
            if bad:
                return False
            sks[a[0]].add(a[1])
        elif code == 12:
            return False                       # hashed items are not used by the boundary leg
        elif code == 20:
            uns[a[0]] = Sim(a[1])
        elif code == 21 and a[0] in uns and a[1] in sks:
            u, s = uns[a[0]], sks[a[1]]
            if s.c:
                lg = min(u.lgk, s.lgk)
                nu = Sim(lg)
                for src in (u, s):
                    for r, wd in src.rows.items():
                        for col in range(64):
                            if (wd >> col) & 1:
                                nu.add(((r & ((1 << lg) - 1)) << 6) | col)
                uns[a[0]] = nu
            if bad:
                return _may_overflow(uns[a[0]])
        elif code == 23 and a[0] in uns:
            if bad:
                return _matrix_overflows(uns[a[0]])
            sks[a[1]] = uns[a[0]]
        elif code == 24 and a[0] in sks:
            if bad or o == [0]:
                return 8 * sks[a[0]].c >= 475 * sks[a[0]].k
        elif code == 14 and a[0] in sks:
            if bad:
                return 8 * sks[a[0]].c >= 475 * sks[a[0]].k
        elif bad:
            return False
    return False


def gen(rng, tier, n=None, focus=None):
    if focus == "union_edge":
        return gen_union_edge(rng, tier, n)
    if focus == "malformed_edge":
        return gen_malformed_edge(rng, tier, n)
    if focus == "overflow":
        return gen_overflow(rng, tier, n)
    if focus == "size":
        return gen_size(rng, tier, n)
    if focus == "malformed":
        return gen_malformed(rng, tier, n)
    if focus == "codec":
        return gen_codec(rng, tier, n)
    if focus == "union":
        return gen_union(rng, tier, n)
    if focus == "extremes":
        return gen_extremes(rng, tier, n)
    p = plan(tier)
    if n is not None and n < len(p):
        rng.shuffle(p)
        p = p[:n]
    elif n is not None:
        while len(p) < n:
            p.append((rng.choice(["colfill", "random", "hashed", "rtl"]), rng.randint(4, 9)))
    return [gen_case(rng, i, tier, kind, lgk) for i, (kind, lgk) in enumerate(p)]


def nontrivial(case, obs):
    """C05: at least two distinct pairs were offered and the state was observed at least once;
    C06: at least two union updates and one result were taken"""
    if any(c in (9, 30, 32, 40, 41) for (c, a) in case.ops):
        return True
    if (case.tag or '').startswith('cpcunion-edge'):
        return True
    if any(c == 20 for (c, a) in case.ops):
        return sum(1 for (c, a) in case.ops if c == 21) >= 2 and any(c == 23 for (c, a) in case.ops)
    pairs = {tuple(a[-2:]) for (c, a) in case.ops if c in (1, 2)}
    return len(pairs) >= 2 and any(c in (3, 5) for (c, a) in case.ops)
