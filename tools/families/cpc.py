"""Case generator for the CPC sketch family (C05; later the CPC legs of C11/C12/C17/C18)."""
from common import Case
import pyref

FAMILY = "cpc"
CORR = "Cpc"               # Coq module DS.Corr.Cpc
FAMNUM = 7
ORACLES = {"prop_ok": 0}
GEN_MODULES = [("GenCpc",
                ["cpc/mod.rs", "cpc/sketch.rs", "cpc/pair_table.rs", "cpc/kxp_byte_lookup.rs", "common/inv_pow2_table.rs"],
                ["MIN_LG_K", "MAX_LG_K", "KXP_BYTE_TABLE", "INVERSE_POWERS_OF_2",
                 "LIT_update", "LIT_row_col_update", "LIT_update_hip", "LIT_update_sparse",
                 "LIT_promote_sparse_to_windowed", "LIT_update_windowed", "LIT_move_window", "LIT_refresh_kxp",
                 "LIT_build_bit_matrix", "LIT_determine_flavor", "LIT_determine_correct_offset"],
                {"cpc/mod.rs": ["determine_flavor", "determine_correct_offset"],
                 "cpc/sketch.rs": ["update", "row_col_update", "update_hip", "update_sparse", "promote_sparse_to_windowed",
                                   "update_windowed", "move_window", "refresh_kxp", "build_bit_matrix"]})]
OPNAMES = {0: "new", 1: "update", 2: "row_col", 3: "dump", 4: "validate", 5: "matrix", 6: "flavor_of", 7: "offset_of"}


def gen(rng, tier, n=None, focus=None):
    return []


def nontrivial(case, obs):
    return True
