"""Reference hash implementations (plain Python big-int code, written from the public
MurmurHash3_x64_128 and XXH64 algorithms).  Used by the case generators to derive
buckets / coupons / positions for the sketch models.  They are cross-checked against
the Coq model and the crate on every C16 run."""
M = (1 << 64) - 1

def rotl(x, r): return ((x << r) | (x >> (64 - r))) & M

def fmix64(k):
    k ^= k >> 33; k = (k * 0xff51afd7ed558ccd) & M
    k ^= k >> 33; k = (k * 0xc4ceb9fe1a85ec53) & M
    k ^= k >> 33
    return k

def murmur3_x64_128(data: bytes, seed: int):
    c1 = 0x87c37b91114253d5; c2 = 0x4cf5ad432745937f
    h1 = seed & M; h2 = seed & M
    n = len(data); nb = n // 16
    for i in range(nb):
        k1 = int.from_bytes(data[16*i:16*i+8], "little")
        k2 = int.from_bytes(data[16*i+8:16*i+16], "little")
        k1 = (k1 * c1) & M; k1 = rotl(k1, 31); k1 = (k1 * c2) & M; h1 ^= k1
        h1 = rotl(h1, 27); h1 = (h1 + h2) & M; h1 = (h1 * 5 + 0x52dce729) & M
        k2 = (k2 * c2) & M; k2 = rotl(k2, 33); k2 = (k2 * c1) & M; h2 ^= k2
        h2 = rotl(h2, 31); h2 = (h2 + h1) & M; h2 = (h2 * 5 + 0x38495ab5) & M
    tail = data[16*nb:]
    k1 = 0; k2 = 0
    if len(tail) > 8:
        k2 = int.from_bytes(tail[8:], "little")
        k2 = (k2 * c2) & M; k2 = rotl(k2, 33); k2 = (k2 * c1) & M; h2 ^= k2
    if len(tail) > 0:
        k1 = int.from_bytes(tail[:8], "little")
        k1 = (k1 * c1) & M; k1 = rotl(k1, 31); k1 = (k1 * c2) & M; h1 ^= k1
    h1 ^= n; h2 ^= n
    h1 = (h1 + h2) & M; h2 = (h2 + h1) & M
    h1 = fmix64(h1); h2 = fmix64(h2)
    h1 = (h1 + h2) & M; h2 = (h2 + h1) & M
    return h1, h2

P1 = 0x9E3779B185EBCA87; P2 = 0xC2B2AE3D27D4EB4F; P3 = 0x165667B19E3779F9
P4 = 0x85EBCA77C2B2AE63; P5 = 0x27D4EB2F165667C5

def _round(acc, inp):
    acc = (acc + inp * P2) & M; acc = rotl(acc, 31); return (acc * P1) & M

def _merge(acc, v):
    acc ^= _round(0, v); return (acc * P1 + P4) & M

def xxh64(data: bytes, seed: int):
    n = len(data); i = 0
    if n >= 32:
        v1 = (seed + P1 + P2) & M; v2 = (seed + P2) & M; v3 = seed & M; v4 = (seed - P1) & M
        while i + 32 <= n:
            v1 = _round(v1, int.from_bytes(data[i:i+8], "little"))
            v2 = _round(v2, int.from_bytes(data[i+8:i+16], "little"))
            v3 = _round(v3, int.from_bytes(data[i+16:i+24], "little"))
            v4 = _round(v4, int.from_bytes(data[i+24:i+32], "little"))
            i += 32
        h = (rotl(v1, 1) + rotl(v2, 7) + rotl(v3, 12) + rotl(v4, 18)) & M
        h = _merge(h, v1); h = _merge(h, v2); h = _merge(h, v3); h = _merge(h, v4)
    else:
        h = (seed + P5) & M
    h = (h + n) & M
    while i + 8 <= n:
        k = _round(0, int.from_bytes(data[i:i+8], "little"))
        h ^= k; h = (rotl(h, 27) * P1 + P4) & M; i += 8
    if i + 4 <= n:
        h ^= (int.from_bytes(data[i:i+4], "little") * P1) & M
        h = (rotl(h, 23) * P2 + P3) & M; i += 4
    while i < n:
        h ^= (data[i] * P5) & M; h = (rotl(h, 11) * P1) & M; i += 1
    h ^= h >> 33; h = (h * P2) & M; h ^= h >> 29; h = (h * P3) & M; h ^= h >> 32
    return h

def le8(x): return (x & M).to_bytes(8, "little")

def seed_hash(seed): return murmur3_x64_128(le8(seed), 0)[0] & 0xffff

def i64_item_bytes(x): return le8(x)
def str_item_bytes(s: bytes): return s + b"\xff"

if __name__ == "__main__":
    assert murmur3_x64_128(b"The quick brown fox jumps over the lazy dog", 0) == (0xe34bbc7bbc071b6c, 0x7a433ca9c49a9347)
    assert murmur3_x64_128(b"The quick brown fox jumps over t", 0) == (0xdf6af91bb29bdacf, 0x91a341c58df1f3a6)
    assert xxh64(b"", 0) == 0xEF46DB3751D8E999
    buf = bytearray(101); g = 0x9E3779B1
    for i in range(101):
        buf[i] = (g >> 56) & 0xff; g = (g * 0x9E3779B185EBCA8D) & M
    assert xxh64(bytes(buf[:1]), 0) == 0xE934A84ADB052768
    assert xxh64(bytes(buf[:32]), 0) == 0x18B216492BB44B70
    assert xxh64(bytes(buf[:33]), 0) == 0x55C8DC3E578F5B59
    assert xxh64(bytes(buf[:100]), 0) == 0x4BFE019CD91D9EA4
    assert xxh64(bytes(buf[:100]), 0x9E3779B1) == 0x4853706DC9625CAE
    print("pyref ok", seed_hash(9001))
