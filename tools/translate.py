#!/usr/bin/env python3
"""Translator: regenerates coq/theories/Gen/*.v from the Rust sources under /repo on
every run.  It transcribes *data* (constants, flag masks, thresholds, numeric tables)
and the straight-line bit expressions of theta/bit_pack.rs; control flow is modelled by
hand and tied by the correspondence check (DESIGN.md section 2.3).

Every Gen file is written only when its content changes, so `make` stays incremental,
and a changed constant re-checks every proof that depends on it.
"""
import os, re, struct, sys, hashlib

REPO = os.environ.get("VERIF_REPO", "/repo")
SRC = os.path.join(REPO, "datasketches", "src")
OUT = os.path.join(os.path.dirname(os.path.abspath(__file__)), "..", "coq", "theories", "Gen")

INT_TYPES = {"u8", "u16", "u32", "u64", "usize", "i8", "i16", "i32", "i64", "isize", "u128", "i128"}


def strip_comments(s):
    s = re.sub(r"//[^\n]*", "", s)
    s = re.sub(r"/\*.*?\*/", "", s, flags=re.S)
    return s


def f64_bits(x):
    return struct.unpack("<Q", struct.pack("<d", x))[0]


def parse_float(tok):
    # std::f64::consts used by the crate (exact binary64 values of the std constants)
    STD = {"LN_2": 0.6931471805599453, "std::f64::consts::LN_2": 0.6931471805599453, "f64::consts::LN_2": 0.6931471805599453}
    if tok.strip() in STD:
        return STD[tok.strip()]
    tok = tok.replace("_", "")
    tok = re.sub(r"f64$", "", tok)
    try:
        return float(tok)
    except ValueError:
        # constant expression over float literals, e.g. `15.0 / 16.0` (binary64 arithmetic, as rustc's const eval)
        if re.fullmatch(r"[0-9eE.+\-*/()\s]+", tok) and re.search(r"\d", tok):
            return float(eval(tok, {"__builtins__": {}}, {}))
        raise


class ConstEnv:
    def __init__(self):
        self.ints = {}
        self.floats = {}

    def eval_int(self, expr):
        e = expr.strip()
        e = re.sub(r"\bas\s+(u8|u16|u32|u64|usize|i8|i16|i32|i64|isize|u128)\b", "", e)
        e = re.sub(r"(?<=[0-9a-fA-F])_(?=[0-9a-fA-F])", "", e)
        e = re.sub(r"\b(0x[0-9a-fA-F]+|\d+)(u8|u16|u32|u64|usize|i8|i16|i32|i64|isize)\b", r"\1", e)
        e = re.sub(r"\b(u8|u16|u32|u64|usize|i8|i16|i32|i64)::MAX\b",
                   lambda m: str({"u8": 2**8 - 1, "u16": 2**16 - 1, "u32": 2**32 - 1, "u64": 2**64 - 1,
                                  "usize": 2**64 - 1, "i8": 127, "i16": 32767, "i32": 2**31 - 1,
                                  "i64": 2**63 - 1}[m.group(1)]), e)
        e = re.sub(r"\b(?:Self|self|super|crate)::", "", e)
        names = set(re.findall(r"\b[A-Z][A-Z0-9_]*\b", e))
        for n in names:
            if n in self.ints:
                e = re.sub(r"\b%s\b" % n, "(%d)" % self.ints[n], e)
        if not re.fullmatch(r"[0-9a-fA-Fx\s()+\-*/<>|&^%]+", e):
            return None
        e = e.replace("/", "//")
        try:
            return int(eval(e, {"__builtins__": {}}, {}))
        except Exception:
            return None


def find_consts(text):
    """yield (name, type, expr) for `const NAME: TYPE = EXPR;` and `static NAME: TYPE = EXPR;` items
    (any visibility); TYPE may be an array type `[T; N]` (the `;` inside brackets is allowed)."""
    for m in re.finditer(r"\b(?:const|static)\s+([A-Z][A-Z0-9_]*)\s*:\s*((?:[^=;\[]|\[[^=]*\])+?)\s*=\s*(.*?);", text, re.S):
        yield m.group(1), m.group(2).strip(), m.group(3).strip()


def coq_int(v):
    return ("%d" % v) if v >= 0 else ("(%d)" % v)


def split_top(s):
    """split a bracketed array body on top-level commas."""
    out, depth, cur = [], 0, []
    for ch in s:
        if ch in "[(":
            depth += 1
        elif ch in "])":
            depth -= 1
        if ch == "," and depth == 0:
            out.append("".join(cur).strip()); cur = []
        else:
            cur.append(ch)
    t = "".join(cur).strip()
    if t:
        out.append(t)
    return out


def parse_array(env, ty, expr):
    """returns (kind, pythonvalue) where kind in int/float/nested; or None"""
    m = re.fullmatch(r"\[\s*(.+?)\s*;\s*([^\];]+)\]", ty, re.S)
    if not m or not expr.startswith("["):
        return None
    inner_ty = m.group(1).strip()
    body = expr[1:expr.rindex("]")]
    items = split_top(body)
    if inner_ty in INT_TYPES:
        vals = []
        for it in items:
            v = env.eval_int(it)
            if v is None:
                return None
            vals.append(v)
        return ("int", vals)
    if inner_ty == "f64":
        try:
            return ("float", [parse_float(it) for it in items])
        except Exception:
            return None
    if inner_ty.startswith("["):
        rows = []
        kind = None
        for it in items:
            r = parse_array(env, inner_ty, it)
            if r is None:
                return None
            kind = r[0]
            rows.append(r[1])
        return ("nested_" + kind, rows)
    return None


def emit_value(kind, v):
    if kind == "int":
        return "[" + "; ".join(coq_int(x) for x in v) + "]"
    if kind == "float":
        # floats are emitted as their IEEE-754 binary64 bit patterns (exact)
        return "[" + "; ".join("%d" % f64_bits(x) for x in v) + "]"
    if kind.startswith("nested_"):
        return "[" + ";\n   ".join(emit_value(kind[7:], r) for r in v) + "]"
    raise ValueError(kind)


def coq_type(kind):
    if kind in ("int", "float"):
        return "list Z"
    return "list (" + coq_type(kind[7:]) + ")"


def gen_module(modname, files, required=(), extra=None):
    env = ConstEnv()
    lines = ["(* GENERATED by tools/translate.py from %s -- do not edit. *)" % ", ".join(files),
             "From Coq Require Import List ZArith.", "Import ListNotations.", "Open Scope Z_scope.", ""]
    found = set()
    for f in files:
        path = os.path.join(SRC, f)
        text = strip_comments(open(path).read())
        # drop #[cfg(test)] modules
        text = re.split(r"#\[cfg\(test\)\]", text)[0]
        lines.append("(* ---- %s ---- *)" % f)
        for name, ty, expr in find_consts(text):
            if name in found:
                continue
            if ty in INT_TYPES:
                v = env.eval_int(expr)
                if v is None:
                    lines.append("(* skipped %s : %s = %s *)" % (name, ty, expr.replace("*)", "* )")[:80]))
                    continue
                env.ints[name] = v
                lines.append("Definition %s : Z := %s." % (name, coq_int(v)))
                found.add(name)
            elif ty == "f64":
                try:
                    x = parse_float(expr)
                except Exception:
                    lines.append("(* skipped %s : f64 = %s *)" % (name, expr[:60]))
                    continue
                lines.append("Definition %s_bits : Z := %d. (* %r *)" % (name, f64_bits(x), x))
                found.add(name)
            elif ty.startswith("["):
                r = parse_array(env, ty, expr)
                if r is None:
                    lines.append("(* skipped array %s : %s *)" % (name, ty[:40]))
                    continue
                kind, v = r
                lines.append("Definition %s : %s :=\n  %s." % (name, coq_type(kind), emit_value(kind, v)))
                found.add(name)
        if extra:
            for l in extra(f, text, env, found):
                lines.append(l)
    missing = [r for r in required if r not in found]
    if missing:
        raise SystemExit("translate.py: %s: required items not found in the Rust source: %s" % (modname, missing))
    lines.append("")
    lines.append("(* items: %s *)" % " ".join(sorted(found)))
    write_if_changed(os.path.join(OUT, modname + ".v"), "\n".join(lines) + "\n")
    return found


def write_if_changed(path, content):
    os.makedirs(os.path.dirname(path), exist_ok=True)
    if os.path.exists(path) and open(path).read() == content:
        return False
    open(path, "w").write(content)
    return True


def fn_body(text, name):
    """source text of `fn name(...) {...}` (first match), braces balanced"""
    m = re.search(r"\bfn\s+%s\s*(<[^>]*>)?\s*\(" % re.escape(name), text)
    if not m:
        return None
    i = text.index("{", m.end())
    depth, j = 0, i
    while j < len(text):
        if text[j] == "{":
            depth += 1
        elif text[j] == "}":
            depth -= 1
            if depth == 0:
                return text[i:j + 1]
        j += 1
    return None


def fn_literals(text, name):
    """integer literals appearing in the body of fn `name`, in source order"""
    b = fn_body(text, name)
    if b is None:
        return None
    out = []
    for t in re.findall(r"(?<![\w.])(0x[0-9a-fA-F_]+|\d[\d_]*)(?:u8|u16|u32|u64|usize|i32|i64)?(?![\w.])", b):
        out.append(int(t.replace("_", ""), 0))
    return out


def literal_extra(fnames):
    """extra-emitter: LIT_<fn> : list Z for each listed function of the file"""
    def go(f, text, env, found):
        out = []
        for fn in fnames.get(f, []):
            lits = fn_literals(text, fn)
            if lits is None:
                raise SystemExit("translate.py: %s: fn %s not found" % (f, fn))
            out.append("Definition LIT_%s : list Z := [%s]." % (fn, "; ".join(str(x) for x in lits)))
            found.add("LIT_" + fn)
        return out
    return go


def static_extra(statics, float_fns):
    """extra-emitter (hll family): `static NAME: [T; N] = [...]` / `static NAME: &[T] = &[...]` numeric tables
    (anywhere in the file, including inside fn bodies) as NAME : list Z (f64 as bit patterns), and
    FLIT_<fn> : list Z = bit patterns of the float literals (d.d form) in the body of fn, in source order"""
    def go(f, text, env, found):
        out = []
        for name in statics.get(f, []):
            if name in found:
                continue   # already emitted by the generic const/static scan
            m = re.search(r"\bstatic\s+%s\s*:\s*(&?)\[\s*(\w+)\s*(?:;[^\]]*)?\]\s*=\s*&?\[(.*?)\]\s*;" % re.escape(name), text, re.S)
            if not m:
                raise SystemExit("translate.py: %s: static %s not found" % (f, name))
            ty, items = m.group(2), split_top(m.group(3))
            if ty == "f64":
                vals = [f64_bits(parse_float(it)) for it in items]
            elif ty in INT_TYPES:
                vals = [env.eval_int(it) for it in items]
                if any(v is None for v in vals):
                    raise SystemExit("translate.py: %s: static %s: cannot evaluate an item" % (f, name))
            else:
                raise SystemExit("translate.py: %s: static %s: unsupported element type %s" % (f, name, ty))
            out.append("Definition %s : list Z :=\n  [%s]." % (name, "; ".join(coq_int(v) for v in vals)))
            found.add(name)
        for fn in float_fns.get(f, []):
            b = fn_body(text, fn)
            if b is None:
                raise SystemExit("translate.py: %s: fn %s not found" % (f, fn))
            lits = re.findall(r"(?<![\w.])(\d[\d_]*\.\d[\d_]*(?:[eE][+-]?\d+)?)(?:f64)?(?![\w.])", b)
            out.append("Definition FLIT_%s : list Z := [%s]." % (fn, "; ".join(str(f64_bits(parse_float(t))) for t in lits)))
            found.add("FLIT_" + fn)
        return out
    return go


def spec_extra(spec):
    """GEN_MODULES entry = (module, files, required[, {file: [fns]} integer literals[, {file: [statics]}[, {file: [fns]} float literals]]])"""
    emitters = [literal_extra(spec[3])]
    if len(spec) > 4:
        emitters.append(static_extra(spec[4], spec[5] if len(spec) > 5 else {}))
    def go(f, text, env, found):
        out = []
        for e in emitters:
            out += e(f, text, env, found)
        return out
    return go


def family_extra(f, text, env, found):
    out = []
    if f.endswith("codec/family.rs"):
        for m in re.finditer(r"pub const ([A-Z]+): Family = Family \{\s*id:\s*(\d+),\s*name:\s*\"[A-Z]+\",\s*"
                             r"min_pre_longs:\s*(\d+),\s*max_pre_longs:\s*(\d+),\s*\}", text):
            n = m.group(1)
            out.append("Definition FAMILY_%s_ID : Z := %s." % (n, m.group(2)))
            out.append("Definition FAMILY_%s_MIN_PRE_LONGS : Z := %s." % (n, m.group(3)))
            out.append("Definition FAMILY_%s_MAX_PRE_LONGS : Z := %s." % (n, m.group(4)))
            found.add("FAMILY_%s_ID" % n)
    return out


# --------------------------------------------------------------------------------------
# theta/bit_pack.rs : 63 pack_bits_N and 63 unpack_bits_N as deep-embedded expressions
# --------------------------------------------------------------------------------------
def bp_tokenize(s):
    return re.findall(r"values|bytes|as|u8|u64|0x[0-9a-fA-F_]+|\d+|>>|<<|[()\[\]&|]", s)


class BP:
    def __init__(s, t): s.t = t; s.i = 0
    def peek(s): return s.t[s.i] if s.i < len(s.t) else None
    def eat(s, x=None):
        v = s.t[s.i]
        if x is not None and v != x:
            raise ValueError("bit_pack parse: expected %r got %r" % (x, v))
        s.i += 1; return v
    def expr(s):
        e = s.andl()
        while s.peek() == "|": s.eat(); e = ("Or", e, s.andl())
        return e
    def andl(s):
        e = s.shift()
        while s.peek() == "&":
            s.eat(); m = s.shift()
            if m[0] != "Const": raise ValueError("mask is not a constant")
            e = ("And", e, m[1])
        return e
    def shift(s):
        e = s.cast()
        while s.peek() in ("<<", ">>"):
            op = s.eat(); n = s.cast()
            if n[0] != "Const": raise ValueError("shift amount is not a constant")
            e = (("Shl" if op == "<<" else "Shr"), e, n[1])
        return e
    def cast(s):
        e = s.atom()
        while s.peek() == "as":
            s.eat(); ty = s.eat(); e = ("Cast8" if ty == "u8" else "Cast64", e)
        return e
    def atom(s):
        t = s.eat()
        if t == "(":
            e = s.expr(); s.eat(")"); return e
        if t in ("values", "bytes"):
            s.eat("["); i = int(s.eat()); s.eat("]"); return ("Var", i)
        return ("Const", int(t.replace("_", ""), 0))


def bp_coq(e):
    k = e[0]
    if k == "Var": return "(Var %d)" % e[1]
    if k == "Const": raise ValueError("bare constant in bit_pack expression")
    if k in ("Shl", "Shr"): return "(%s %s %d)" % (k, bp_coq(e[1]), e[2])
    if k == "And": return "(And %s %d)" % (bp_coq(e[1]), e[2])
    if k == "Or": return "(Or %s %s)" % (bp_coq(e[1]), bp_coq(e[2]))
    return "(%s %s)" % (k, bp_coq(e[1]))


def gen_bitpack():
    src = strip_comments(open(os.path.join(SRC, "theta", "bit_pack.rs")).read())
    out = ["(* GENERATED by tools/translate.py from theta/bit_pack.rs -- do not edit. *)",
           "From Coq Require Import List NArith.", "Import ListNotations.",
           "From DS Require Import Base.BitExp.", "Open Scope N_scope.", ""]
    for kind in ("pack", "unpack"):
        for w in range(1, 64):
            m = re.search(r"fn %s_bits_%d\(.*?\) \{(.*?)\n\}" % (kind, w), src, re.S)
            if not m:
                raise SystemExit("translate.py: bit_pack.rs: fn %s_bits_%d not found" % (kind, w))
            stmts = [x.strip() for x in m.group(1).split(";") if x.strip()]
            res = {}
            for st in stmts:
                mm = re.match(r"\s*(values|bytes)\[(\d+)\]\s*(\|?=)\s*(.*)$", st, re.S)
                if not mm:
                    raise SystemExit("translate.py: bit_pack.rs: cannot parse statement %r in %s_bits_%d" % (st[:60], kind, w))
                idx = int(mm.group(2)); p = BP(bp_tokenize(mm.group(4))); e = p.expr()
                if p.i != len(p.t):
                    raise SystemExit("translate.py: bit_pack.rs: trailing tokens in %s_bits_%d" % (kind, w))
                if mm.group(3) == "|=":
                    if idx not in res:
                        raise SystemExit("translate.py: |= before = in %s_bits_%d" % (kind, w))
                    e = ("Or", res[idx], e)
                res[idx] = e
            n = len(res)
            if sorted(res) != list(range(n)):
                raise SystemExit("translate.py: bit_pack.rs: non-contiguous outputs in %s_bits_%d" % (kind, w))
            out.append("Definition %s_%d : list exp := [%s]." % (kind, w, "; ".join(bp_coq(res[i]) for i in range(n))))
    # dispatch tables: which function pack_bits_block / unpack_bits_block call for each width
    for kind in ("pack", "unpack"):
        m = re.search(r"fn %s_bits_block\(.*?\{(.*?)\n\}" % kind, src, re.S)
        disp = {}
        if m:
            for mm in re.finditer(r"(\d+)\s*=>\s*%s_bits_(\d+)\(" % kind, m.group(1)):
                disp[int(mm.group(1))] = int(mm.group(2))
        if sorted(disp) != list(range(1, 64)):
            raise SystemExit("translate.py: bit_pack.rs: %s_bits_block dispatch table incomplete" % kind)
        out.append("Definition %s_tbl : list (nat * list exp) := [%s]." %
                   (kind, "; ".join("(%d%%nat, %s_%d)" % (w, kind, disp[w]) for w in range(1, 64))))
    write_if_changed(os.path.join(OUT, "GenBitPack.v"), "\n".join(out) + "\n")


def main():
    gen_module("GenCodec", ["codec/family.rs"], required=["FAMILY_HLL_ID", "FAMILY_COUNTMIN_ID"], extra=family_extra)
    gen_module("GenHash", ["hash/mod.rs", "hash/murmurhash.rs", "hash/xxhash.rs"],
               required=["C1", "C2", "P1", "P2", "P3", "P4", "P5", "DEFAULT_UPDATE_SEED"],
               extra=literal_extra({"hash/mod.rs": ["compute_seed_hash"],
                                    "hash/murmurhash.rs": ["finish128", "update", "write", "fmix64"],
                                    "hash/xxhash.rs": ["with_seed", "finish64", "hash_u64", "round", "merge_round", "finalize"]}))
    for spec in family_gen_modules():
        gen_module(spec[0], spec[1], required=spec[2] if len(spec) > 2 else (),
                   extra=spec_extra(spec) if len(spec) > 3 else None)
    if os.path.exists(os.path.join(OUT, "..", "Base", "BitExp.v")):
        gen_bitpack()
    # digest of everything generated, for the evidence files
    h = hashlib.sha256()
    for fn in sorted(os.listdir(OUT)):
        if fn.endswith(".v"):
            h.update(open(os.path.join(OUT, fn), "rb").read())
    print("translate.py: Gen digest", h.hexdigest()[:16])


def family_gen_modules():
    """each tools/families/<fam>.py may declare GEN_MODULES = [(module name, [rust files], [required items])]"""
    import importlib.util
    out = []
    here = os.path.dirname(os.path.abspath(__file__))
    sys.path.insert(0, here); sys.path.insert(0, os.path.join(here, "families"))
    for fn in sorted(os.listdir(os.path.join(here, "families"))):
        if fn.endswith(".py"):
            spec = importlib.util.spec_from_file_location("fam_" + fn[:-3], os.path.join(here, "families", fn))
            m = importlib.util.module_from_spec(spec)
            spec.loader.exec_module(m)
            out += list(getattr(m, "GEN_MODULES", []))
    return out


if __name__ == "__main__":
    main()
