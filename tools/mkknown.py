#!/usr/bin/env python3
"""Merges known_findings.d/*.json into known_findings.json (the committed known-findings file)."""
import json, os
here = os.path.join(os.path.dirname(os.path.abspath(__file__)), "..")
d = os.path.join(here, "known_findings.d")
items = []
for fn in sorted(os.listdir(d)):
    if fn.endswith(".json"):
        items.append(json.load(open(os.path.join(d, fn))))
lines = []
for it in items:
    if it.get("status") == "fixed":
        lines.append("fixed: property=%s %s %s" % (it["property"], it.get("commit", "?"), it["what"]))
json.dump({"findings": items, "fixed_lines": lines}, open(os.path.join(here, "known_findings.json"), "w"), indent=1)
print("known_findings.json:", len(items), "entries")
