#!/bin/bash
# try_mutant.sh <patch.diff> <tier> <prop> [<prop> ...]
# Runs the registered checks against a scratch copy of /repo with the patch applied (so that /repo itself and
# concurrent work are not disturbed); prints one line per property: <prop> exit=<code> <VIOLATION/KNOWN lines>.
# (Equivalent to: git -C /repo apply patch; run checks; git -C /repo checkout -- .)
set -u
PATCH=$(realpath "$1"); TIER=$2; shift 2
TAG=mut-$$
ROOT=/tmp/$TAG
mkdir -p $ROOT
git -C /repo worktree add -q --detach $ROOT/repo HEAD || exit 3
( cd $ROOT/repo && ( git apply "$PATCH" || git apply --3way "$PATCH" ) ) || { echo "patch does not apply"; git -C /repo worktree remove --force $ROOT/repo; rm -rf $ROOT; exit 3; }
rsync -a --exclude harness/target --exclude .git --exclude '.work/*/cases*' /verif/ $ROOT/verif/
sed -i "s#/repo/datasketches#$ROOT/repo/datasketches#" $ROOT/verif/harness/Cargo.toml
cp $ROOT/repo/Cargo.lock $ROOT/verif/harness/Cargo.lock 2>/dev/null
for P in "$@"; do
  ( cd $ROOT/verif && VERIF_REPO=$ROOT/repo timeout 3000 python3 tools/check.py $P --tier $TIER > $ROOT/$P.out 2> $ROOT/$P.err; echo $? > $ROOT/$P.rc )
  echo "$P exit=$(cat $ROOT/$P.rc) $(grep -E '^(VIOLATION|KNOWN-FINDING)' $ROOT/$P.out | tr '\n' ';' | cut -c1-400)"
  grep -E "PROOF-BROKEN|MODEL-BUILD-FAILED|HARNESS-BUILD-FAILED|MODEL-EVAL" $ROOT/$P.err | cut -c1-600 | head -5
  for f in $(grep -oE 'replay=[^ ]+' $ROOT/$P.out | cut -d= -f2); do
     [ -f "$ROOT/verif/$f" ] && f="$ROOT/verif/$f"
     [ -f "$f" ] && { echo "--- replay $f"; head -c 1500 "$f"; echo; }
  done
done
git -C /repo worktree remove --force $ROOT/repo
rm -rf $ROOT
