#!/bin/bash
# confirm.sh <seed-dir> <i> <pid>   -- independent confirmation of a seeded change:
#   1. the change applies and builds, 2. the existing suite passes exactly as on HEAD, 3. the demonstration passes on HEAD
#   and fails with the change.  Writes <seed-dir>/out/confirm<i>.txt and, when confirmed, /verif/seeded/<pid>-<i>/.
set -u
D=$1; I=$2; PID=$3
WT=/tmp/confirm-$$
OUT=$D/out/confirm$I.txt
git -C /repo worktree add -q --detach $WT HEAD || exit 3
export CARGO_NET_OFFLINE=true CARGO_TARGET_DIR=/tmp/confirm-target
run_suite() { (cd $WT && cargo test --workspace --no-fail-fast --offline 2>&1 | grep -E "^test .* \.\.\. (ok|FAILED|ignored)" | sed 's/ - should panic//; s/(line [0-9]*)//' | sort -u); }
name=$(basename $D)
cp $D/out/demo$I.rs $WT/datasketches/tests/zz_demo_$I.rs
(cd $WT && cargo test --offline -p datasketches --test zz_demo_$I 2>&1 | grep -E "^test result|^test .*FAILED|error" | head -5) > $OUT.demo_head
rm $WT/datasketches/tests/zz_demo_$I.rs
BASE=/tmp/confirm-base-$(git -C /repo rev-parse --short HEAD).txt
if [ ! -f $BASE ]; then run_suite > $BASE; fi
(cd $WT && (git apply $D/out/change$I.diff || git apply --3way $D/out/change$I.diff)) || { echo "APPLY-FAILED" > $OUT; git -C /repo worktree remove --force $WT; exit 1; }
(cd $WT && cargo build --offline -p datasketches 2>&1 | grep -E "^(warning|error)" | sort | uniq -c) > $OUT.build
run_suite > $OUT.suite
cp $D/out/demo$I.rs $WT/datasketches/tests/zz_demo_$I.rs
(cd $WT && cargo test --offline -p datasketches --test zz_demo_$I 2>&1 | grep -E "^test result|^test .*FAILED|error" | head -5) > $OUT.demo_mut
{
  echo "suite identical to HEAD: $(diff -q $BASE $OUT.suite >/dev/null && echo yes || echo NO)"
  echo "passing tests HEAD: $(grep -c '\.\.\. ok' $BASE)  with change: $(grep -c '\.\.\. ok' $OUT.suite)"
  echo "demo on HEAD:"; cat $OUT.demo_head
  echo "demo with change:"; cat $OUT.demo_mut
  echo "build messages:"; cat $OUT.build
} > $OUT
rm -f $OUT.suite $OUT.demo_head $OUT.demo_mut $OUT.build
git -C /repo worktree remove --force $WT
if grep -q "suite identical to HEAD: yes" $OUT && sed -n '/demo on HEAD/,/demo with change/p' $OUT | grep -q "test result: ok" && sed -n '/demo with change/,$p' $OUT | grep -q "FAILED"; then
  S=/verif/seeded/$PID-$I; mkdir -p $S
  cp $D/out/change$I.diff $S/patch.diff; cp $D/out/demo$I.rs $S/demo.rs; cp $OUT $S/confirmed.txt
  python3 - <<PY
import json
m=json.load(open("$D/out/meta$I.json"))
m["confirmed"]="tools/seeding/confirm.sh: applied at /repo HEAD $(git -C /repo rev-parse --short HEAD) in a scratch worktree; cargo test --workspace --no-fail-fast --offline gives the same per-test results as HEAD; the demonstration passes on HEAD and fails with the change"
json.dump(m, open("$S/meta.json","w"), indent=1)
PY
  echo CONFIRMED $PID-$I
else
  echo NOT-CONFIRMED $PID-$I; cat $OUT
fi
