#!/usr/bin/env python3
"""prints the prompt given to a fresh seeding sub-agent for one property (only the property text and a scratch worktree)"""
import json, sys
pid = sys.argv[1]; n = sys.argv[2] if len(sys.argv) > 2 else "2"
prop = next(json.loads(l) for l in open('/verif/properties.jsonl') if json.loads(l)['id'] == pid)
print(f"""You are helping to test a verification effort by seeding realistic defects. You work ONLY inside the scratch directory /tmp/seed-{pid}/ : /tmp/seed-{pid}/wt is a git worktree (detached HEAD) of the Rust project apache/datasketches-rust (a Rust port of Apache DataSketches; the library crate is in wt/datasketches). Do not read or touch /verif or /repo, and do not look anywhere outside /tmp/seed-{pid}/ (apart from the Rust toolchain). No network: always use `cargo ... --offline`.

Here is a semantic property the library is supposed to satisfy (JSON):

{json.dumps(prop, indent=1)}

Task: produce {n} DIFFERENT, independent small source changes to the library (each a separate patch against the worktree's HEAD) such that each change
 (a) BREAKS the property above (for some input / operation sequence / configuration the property quantifies over),
 (b) still compiles without new warnings-as-errors, and
 (c) still passes the existing test suite: run `cd /tmp/seed-{pid}/wt && cargo test --workspace --no-fail-fast --offline 2>&1 | grep -E "^test result|FAILED|failed"`; compare with the same command on the unchanged HEAD — exactly the same tests must pass (a fixed set of ~36 serialization-compatibility tests fail on the unchanged tree too because their data files are absent: that is expected and they must simply fail the same way), and
 (d) is REALISTIC and SUBTLE: the kind of slip a maintainer could make in a refactor or optimisation (an off-by-one in a boundary, a wrong comparison direction in a rare branch, a lost carry/flag, a mis-handled mode transition, two cooperating sites that each look fine alone), which needs something specific to manifest — a particular multi-step sequence of operations, an unusual configuration or input, a rare branch, a boundary size — NOT something any ordinary use would expose at once, and not a change to tests, docs or public signatures. Do not touch code behind the cargo feature `verif-hooks` or the file datasketches/src/verif.rs, and do not add dependencies.
For each change also write a DEMONSTRATION: a self-contained Rust integration test file (to be dropped into wt/datasketches/tests/) that uses only the public API, FAILS with your change applied and PASSES on the unchanged HEAD. Verify both yourself.

Deliverables, for i = 1..{n}, in /tmp/seed-{pid}/out/ :
  change<i>.diff   — `git diff` of the library change only (no test file), applicable with `git apply` at HEAD
  demo<i>.rs       — the demonstration test file
  meta<i>.json     — {{"property": "{pid}", "summary": "...what was changed...", "needs": "...what it needs in order to manifest (sequence/config/input)...", "files": [...], "ran": ["commands you ran and their outcomes"]}}
After producing them, restore the worktree to a clean HEAD (`git checkout -- . && git clean -fdq` inside wt, keep wt/target if you like). Your final message: a short list of the changes and what each needs to manifest.""")
