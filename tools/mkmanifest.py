#!/usr/bin/env python3
"""Writes MANIFEST.json from tools/registry.py (so the two never drift)."""
import json, os, sys
sys.path.insert(0, os.path.dirname(os.path.abspath(__file__)))
import registry

READY0 = {l.strip() for l in open(os.path.join(os.path.dirname(os.path.abspath(__file__)), 'ready.txt')) if l.strip() and not l.startswith('#')}
ALL = ["C%02d" % i for i in range(1, 19)]
hooks_commits = registry.HOOK_COMMITS
m = {
    "version": 1,
    "setup_cmd": "python3 tools/check.py --setup",
    "hooks": {
        "guard": "cargo feature verif-hooks (default off) of the datasketches crate",
        "enable": "the harness crate /verif/harness depends on /repo/datasketches with features = [\"verif-hooks\"]",
        "baseline_off_cmd": "cd /repo && cargo test --workspace --no-fail-fast --offline",
        "source_commits": hooks_commits,
        "add_only": True,
    },
    "engines": [
        {"name": "coq", "path": "coq/", "serves_properties": sorted(p for p in registry.PROPS if p in READY0),
         "kind_free_text": "Coq 8.16.1 development: executable Gallina models, specs, theorems (Props/Cxx.v), regenerated Gen/*.v"},
        {"name": "correspondence", "path": "harness/ ocaml/ tools/", "serves_properties": sorted(p for p in registry.PROPS if p in READY0),
         "kind_free_text": "Rust harness on the real crate vs extracted model (OCaml) and vm_compute sample, same generated cases"},
    ],
    "checks": [],
    "not_applicable": [],
    "notes": "All checks: python3 tools/check.py <id> --tier quick|thorough. Exit 0 held (KNOWN-FINDING lines allowed), 1 VIOLATION line printed "
             "(a proof, translator, model or harness build that breaks during a check is reported as VIOLATION ... no-failing-input-found), "
             "2 setup failure / unknown id / internal exception of check.py. "
             "Known findings: known_findings.json. See DESIGN.md.",
}
# families each cross-cutting property names (from the anchors of properties.jsonl); a family with neither a theorem nor a
# correspondence leg in a claimed part is stated as NOT covered in the level_note, so that the claim never exceeds the parts
FAMILIES_OF = {
    "C11": ["hll", "theta", "cpc", "bloom", "countmin", "freq", "tdigest"],
    "C12": ["hll", "theta", "cpc", "bloom", "countmin", "freq", "tdigest"],
    "C13": ["hll", "theta", "bloom", "countmin", "freq", "tdigest"],
    "C14": ["hll", "theta", "cpc", "bloom", "countmin", "freq", "tdigest"],
    "C17": ["hll", "theta", "cpc", "bloom", "countmin", "freq", "tdigest"],
    "C18": ["hll", "theta", "cpc", "freq", "tdigest", "bloom", "countmin"],
}
FAMILY_NAME = {"freq": "Frequent Items", "cpc": "CPC", "hll": "HLL", "theta": "Theta", "bloom": "Bloom", "countmin": "Count-Min",
               "tdigest": "t-digest"}


def coverage_note(pid, sp):
    if pid not in FAMILIES_OF:
        return ""
    covered = {l["family"] for l in sp["legs"]}
    files = sp.get("props_files", [sp["props_file"]])
    missing = [FAMILY_NAME[f] for f in FAMILIES_OF[pid] if f not in covered]
    note = " Statement files: " + ", ".join("Props/%s.v" % f for f in files) + "."
    if missing:
        note += (" NOT covered (no theorem and no correspondence leg in this property yet, although the property text names the family): "
                 + ", ".join(missing) + ".")
    return note


# statement files whose theorems depend on axioms (Print Assumptions on every theorem, audited in every run against the allow-list
# of tools/common.py; the per-theorem lists are in the evidence file; see DESIGN.md section 10)
AXIOM_FILES = {"C01": True, "C04": True, "C11_theta": False, "C17_theta": False, "C18_theta": False}   # True: also Uint63 axioms


def axioms_note(pid, sp):
    files = sp.get("props_files", [sp["props_file"]])
    ax = [f for f in files if f in AXIOM_FILES]
    if not ax:
        return (" Axioms: none - every theorem of the statement files is closed under the global context (Print Assumptions, "
                "audited every run; kernel primitives for floats / 63-bit integers are listed in the evidence file).")
    u = [f for f in ax if AXIOM_FILES[f]]
    return (" Axioms (Print Assumptions, audited every run; per-theorem lists in the evidence file): theorems of %s depend on the "
            "standard-library axioms Classical_Prop.classic, ClassicalDedekindReals.sig_forall_dec, ClassicalDedekindReals.sig_not_dec, "
            "FunctionalExtensionality.functional_extensionality_dep (through Flocq / Reals) and the primitive-float specification axioms "
            "FloatAxioms.{Prim2SF_valid, SF2Prim_Prim2SF, Prim2SF_SF2Prim, *_spec}%s; none is declared by this development; the other "
            "statement files of this property are closed under the global context."
            % (", ".join("Props/%s.v" % f for f in ax),
               (" and (%s) the Uint63 specification axioms Uint63.{of_to_Z, eqb_refl, eqb_correct, *_spec}" % ", ".join(u)) if u else ""))


READY = {l.strip() for l in open(os.path.join(os.path.dirname(os.path.abspath(__file__)), 'ready.txt')) if l.strip() and not l.startswith('#')}
for pid in ALL:
    if pid in registry.PROPS and pid in READY:
        sp = registry.PROPS[pid]
        m["checks"].append({
            "property_id": pid,
            "quick_cmd": "python3 tools/check.py %s --tier quick" % pid,
            "thorough_cmd": "python3 tools/check.py %s --tier thorough" % pid,
            "evidence_file": "evidence/%s.json" % pid,
            "replay_cmd_template": "python3 tools/check.py %s --replay {path}" % pid,
            "engine": "coq",
            "level_claimed": {"category": "proof",
                              "text": sp["level_text"] + ((" The scope differs per family: what is proved for each family (and what is "
                                                          "only checked by the correspondence run, e.g. the CPC compressed codec and reader, "
                                                          "which have no Coq model) is stated part by part under 'Parts merged' in "
                                                          "level_note; a part marked PARTIAL limits the sentence above for that family.")
                                                         if pid in FAMILIES_OF else ""),
                              "design_ref": sp.get("design_ref", "DESIGN.md section 5 and section 11")},
            "level_note": sp["level_note"] + ((" Parts merged: " + "; ".join(sp["covers"]) + ".") if sp.get("covers") else "")
                          + coverage_note(pid, sp) + axioms_note(pid, sp),
            "technique": sp.get("technique", "machine-checked proof in Coq (Rocq) about an executable model + checked correspondence to the crate"),
        })
    else:
        m["not_applicable"].append({"property_id": pid, "reason": registry.NOT_CLAIMED.get(pid, "check not built yet (work in progress; the technique applies, see DESIGN.md section 5)")})
json.dump(m, open(os.path.join(os.path.dirname(os.path.abspath(__file__)), "..", "MANIFEST.json"), "w"), indent=1)
print("MANIFEST.json written:", len(m["checks"]), "checks")
