#!/usr/bin/env python3
"""check.py <property> [--tier quick|thorough] [--replay path]   |   check.py --setup

Decides one property on /repo's current working tree (DESIGN.md sections 2.4 and 7):
  1. translator  (Rust constants/tables -> coq/theories/Gen/*.v)
  2. proofs      (make theories/Props/<id>.vo: every theorem about the model re-checked, audit of axioms)
  3. tie         (correspondence: extracted OCaml model == crate on generated cases, debug + release; a sample re-run in Coq)
  4. oracle      (the property itself, evaluated on the crate's observations)
  5. report      (evidence file; VIOLATION / KNOWN-FINDING lines; exit code)
"""
import argparse, importlib, json, os, random, sys, time, traceback

sys.path.insert(0, os.path.dirname(os.path.abspath(__file__)))
sys.path.insert(0, os.path.join(os.path.dirname(os.path.abspath(__file__)), "families"))
import common
from common import Case, log
import registry


def load_family(name):
    return importlib.import_module(name)


def classify_known(pid, leg, case, kind, known):
    """returns the known-finding entry matching this failing case, if any"""
    for k in known:
        if k.get("status") != "known" or k.get("property") != pid:
            continue
        m = k.get("match", {})
        if m.get("family") and m["family"] != leg["family"]:
            continue
        if m.get("kind") and m["kind"] != kind:
            continue
        if m.get("tag") and not (case.tag or "").startswith(m["tag"]):
            continue
        if m.get("panic_loc") and not (case.panic and m["panic_loc"] in case.panic):
            continue
        if m.get("oracle") and m["oracle"] != getattr(case, "failed_oracle", None):
            continue
        if m.get("pred"):
            # a predicate of the family module deciding whether this failing case is exactly the recorded finding
            fn = getattr(load_family(leg["family"]), m["pred"], None)
            if fn is None or not fn(case):
                continue
        return k
    return None


def eval_leg(pid, leg, cases, tier, workdir, name):
    """runs the crate (both profiles when asked) and the model on the cases.
    returns dict with per-profile results"""
    fam = load_family(leg["family"])
    out = {}
    for profile in leg.get("profiles", ["debug"]):
        t0 = time.time()
        cs = common.run_harness(leg["family"], cases, profile, workdir, name)
        t1 = time.time()
        corr_fail, orc_fail, err = common.run_model(fam, cs, leg.get("mask"), leg.get("oracles", []) + leg.get("tie_oracles", []), workdir,
                                                    "%s_%s" % (name, profile), coq_sample=(leg.get("coq_sample", 4) if profile == "debug" else 0),
                                                    nshards=(leg.get("shards_thorough", common.NCPU) if tier == "thorough" else common.NCPU))
        log("timing %s %s/%s %s: crate %.1fs, model+oracles %.1fs (%d cases)" % (pid, leg["family"], leg.get("focus"), profile,
                                                                               t1 - t0, time.time() - t1, len(cases)))
        out[profile] = dict(cases=cs, corr_fail=corr_fail, orc_fail=orc_fail, err=err)
    return out


def main():
    ap = argparse.ArgumentParser()
    ap.add_argument("prop", nargs="?")
    ap.add_argument("--tier", default=os.environ.get("VERIF_TIER", "quick"))
    ap.add_argument("--replay")
    ap.add_argument("--setup", action="store_true")
    args = ap.parse_args()
    seed = int(os.environ.get("VERIF_SEED", "20260926"))

    if args.setup:
        return setup()
    pid = args.prop
    if pid not in registry.PROPS:
        print("unknown property", pid); return 2
    spec = registry.PROPS[pid]
    tier = args.tier if args.tier in ("quick", "thorough") else "quick"
    t0 = time.time()
    workdir = os.path.join(common.WORK, pid)
    os.makedirs(workdir, exist_ok=True)
    # two runs of the SAME property share this work directory (driver, staged harness, case files): serialise them
    import fcntl
    prop_lock = open(workdir + ".lock", "w")
    fcntl.flock(prop_lock, fcntl.LOCK_EX)
    known = common.load_known()
    violations, known_hits, notes = [], [], []
    ev = {"property_id": pid, "tier": tier, "seed": seed, "level": "proof", "coverage": {}, "assumptions": [], "wall_s": 0.0,
          "violations": 0}
    cov = ev["coverage"]

    with common.BuildLock() as build_lock:
        # ---- 1. translator
        ok_tr, tr_out = common.translate()
        cov["translator"] = tr_out.strip().splitlines()[-1] if tr_out.strip() else ""
        # ---- 2. model + correspondence drivers must build (they depend on Gen, never on proofs)
        corr_targets = sorted({"theories/Corr/%s.vo" % load_family(l["family"]).CORR for l in spec["legs"]})
        ok_corr_build, corr_log = (False, tr_out) if not ok_tr else common.coq_make(corr_targets)
        if ok_corr_build:
            ok_corr_build, corr_log = common.build_driver([load_family(f) for f in sorted({l["family"] for l in spec["legs"]})], workdir)
        if not ok_corr_build:
            notes.append("MODEL-BUILD-FAILED: " + extract_coq_error(corr_log))
        # ---- 3. proofs
        props_files = spec.get("props_files", [spec["props_file"]])
        props_target = " ".join("theories/Props/%s.vo" % f for f in props_files)
        ok_proof, proof_log = (False, tr_out) if not ok_tr else common.coq_make(props_target.split())
        thms = [t for f in props_files for t in common.props_theorems(f)]
        forb = common.forbidden_scan()
        ok_audit, assumptions, audit_raw, audit_bad = (True, {}, "", []) if ok_proof else (False, {}, "", [])
        if ok_proof:
            for f in props_files:
                ok1, as1, raw1, bad1 = common.print_assumptions(f)
                ok_audit = ok_audit and ok1; assumptions.update(as1); audit_raw += raw1; audit_bad = audit_bad + bad1
        coqchk_out = None
        if ok_proof and tier == "thorough" and spec.get("coqchk", True):
            rc, coqchk_out = common.sh("timeout 1500 coqchk -silent -o -Q theories DS %s 2>&1 | tail -40" % " ".join("DS.Props.%s" % f for f in props_files),
                                       cwd=common.COQ, timeout=1600)
            if rc != 0:
                ok_audit = False; audit_bad = audit_bad + ["coqchk failed"]
        cov["obligations"] = len(thms)
        if ok_proof and ok_audit and not forb:
            cov["discharged"] = len(thms)
        else:
            # count the theorems of those statement files that this run's make did compile (measured per file)
            done = 0
            for f in props_files:
                vo = os.path.join(common.COQ, "theories", "Props", f + ".vo")
                v = os.path.join(common.COQ, "theories", "Props", f + ".v")
                if (not forb) and os.path.exists(vo) and os.path.getmtime(vo) >= os.path.getmtime(v) and \
                        common.coq_make(["-q", "theories/Props/%s.vo" % f])[0]:
                    done += len(common.props_theorems(f))
            cov["discharged"] = done
        cov["theorems"] = thms
        cov["checker_cmd"] = "cd coq && make -j16 %s (coqc 8.16.1, full .vo build) ; coqc audit (Print Assumptions per theorem)%s" % (
            props_target, " ; coqchk -o" if coqchk_out is not None else "")
        allax = sorted({a for axs in assumptions.values() for a in axs})
        # PrimFloat.* / PrimInt63.* are the kernel's primitive types and operations; everything else (FloatAxioms.*, the
        # Uint63 specification axioms such as Uint63.of_to_Z / eqb_refl / *_spec, classical and extensionality axioms) is an
        # axiom declared by the standard library
        prims = [a for a in allax if a.startswith(("PrimFloat.", "PrimInt63."))]
        axioms = [a for a in allax if a not in prims]
        cov["trusted_base"] = [
            "Coq 8.16.1 kernel incl. vm_compute (no native_compute)",
            "axioms reported by Print Assumptions (all declared by the standard library; none by this development): " +
            (", ".join(axioms) if axioms else "none (closed under the global context)"),
            "kernel primitives reported by Print Assumptions (primitive floats / 63-bit integers, not axioms): " +
            (", ".join(prims) if prims else "none"),
            "tools/translate.py (constants/tables from the Rust sources into Gen/*.v)",
            "correspondence check: harness/ (Rust), tools/*.py, the model extracted to OCaml (ocaml/Extract.v.in: ExtrOcamlBasic, "
            "ExtrOCamlFloats, ExtrOCamlInt63; ocaml/driver.ml; ocamlfind ocamlopt 4.13.1 linked with coq-core.kernel) and evaluated "
            "on the same cases; a sample of up to 4 cases per leg is re-evaluated inside Coq by vm_compute",
        ] + spec.get("trusted", [])
        if coqchk_out is not None:
            cov["coqchk"] = coqchk_out.strip().splitlines()[-12:]
        proof_broken = not (ok_proof and ok_audit and not forb)
        if proof_broken:
            notes.append("PROOF-BROKEN: " + (("forbidden: %s; " % forb) if forb else "") + ("audit: %s; " % audit_bad if audit_bad else "") +
                         (extract_coq_error(proof_log) if not ok_proof else ""))
        # ---- 4. harness
        ok_h, h_log = common.harness_build(sorted({p for l in spec["legs"] for p in l.get("profiles", ["debug"])}),
                                           sorted({l["family"] for l in spec["legs"]}))
        if not ok_h:
            # the crate (with hooks) no longer builds against the harness: the tie cannot be evaluated
            notes.append("HARNESS-BUILD-FAILED: " + h_log[-1500:])
        else:
            common.stage_harness(workdir, sorted({p for l in spec["legs"] for p in l.get("profiles", ["debug"])}))
        # everything that is shared between checks has been built; case evaluation uses only the work directory
        build_lock.release()

        # ---- replay mode
        if args.replay:
            return do_replay(pid, spec, args.replay, workdir, known)

        # ---- 5. correspondence + oracle on generated cases
        total_cases = 0; nontrivial = set(); samples = []; corr_broken = []; dist = {}
        traces = 0
        if ok_h and ok_corr_build:
            rounds = [("main", seed)]
            for li, leg in enumerate(spec["legs"]):
                fam = load_family(leg["family"])
                rng = random.Random("%d/%s/%d" % (seed, pid, li))
                cases = []
                # corpus first
                cdir = os.path.join(common.VERIF, "corpus", pid)
                if os.path.isdir(cdir):
                    for fn in sorted(os.listdir(cdir)):
                        d = json.load(open(os.path.join(cdir, fn)))
                        if d.get("family") == leg["family"]:
                            c = Case.from_json(d["case"]); c.cid = "corpus%d" % len(cases); c.tag = d["case"].get("tag", "")
                            cases.append(c)
                n = leg.get("n_%s" % tier)
                gen_cases = fam.gen(rng, tier, n=n, focus=leg.get("focus"))
                for i, c in enumerate(gen_cases):
                    c.cid = "g%d" % i
                cases += gen_cases
                res = eval_leg(pid, leg, cases, tier, workdir, "leg%d" % li)
                for profile, r in res.items():
                    if r["err"]:
                        notes.append("MODEL-EVAL-ERROR leg=%s: %s" % (leg["family"], r["err"][-800:]))
                        corr_broken.append((leg, profile, None, "model evaluation failed"))
                        continue
                    cs = r["cases"]
                    total_cases += len(cs); traces += len(cs)
                    for c in cs:
                        key = common.hashlib.sha256(c.to_text().encode()).hexdigest()
                        if fam.nontrivial(c, c.obs):
                            nontrivial.add(key)
                        for code, _ in c.ops[:len(c.obs)]:
                            nm = "%s.%s" % (leg["family"], fam.OPNAMES.get(code, str(code)))
                            dist[nm] = dist.get(nm, 0) + 1
                    if cs and len(samples) < 3:
                        c0 = cs[min(len(cs) - 1, 3)]
                        samples.append({"family": leg["family"], "profile": profile, "cfg": c0.cfg,
                                        "ops": [[c, a[:12]] for c, a in c0.ops[:12]], "obs": [o[:12] for o in c0.obs[:12]]})
                    # oracle failures on the crate's own observations: the property is violated
                    for o, idxs in r["orc_fail"].items():
                        if o in leg.get("tie_oracles", []):
                            # a tie oracle compares the model's functions with the crate's on values only the crate can
                            # supply (e.g. bounds as a function of the crate's own estimate): a failure is a broken
                            # correspondence, not yet a violation of the property
                            for i in idxs:
                                if not any(i in v for oo, v in r["orc_fail"].items() if oo not in leg.get("tie_oracles", [])):
                                    corr_broken.append((leg, profile, cs[i], "model != crate (tie oracle %s)" % o))
                            continue
                        for i in idxs:
                            c = cs[i]; c.failed_oracle = o
                            handle_failure(pid, leg, profile, c, "oracle", o, known, violations, known_hits, workdir)
                    # panics count against the property only when the leg says so
                    if leg.get("panic_is_violation"):
                        for c in cs:
                            if c.panic:
                                handle_failure(pid, leg, profile, c, "panic", None, known, violations, known_hits, workdir)
                    for i in r["corr_fail"]:
                        if not any(i in idxs for idxs in r["orc_fail"].values()):
                            corr_broken.append((leg, profile, cs[i], "model != crate"))
        else:
            corr_broken.append((None, None, None, "harness or model build failed"))

        # ---- 6. the tie or a proof is broken but no oracle failed yet: search, then report
        if (proof_broken or corr_broken) and not violations:
            # every broken correspondence that matches a known finding is reported as such (and needs no search)
            remaining = []
            for leg, profile, c, why in corr_broken:
                k = classify_known(pid, leg, c, "corr", known) if (leg and c) else None
                if k:
                    known_hits.append(k)
                else:
                    remaining.append((leg, profile, c, why))
            found = False
            if (proof_broken or remaining) and ok_h and ok_corr_build:
                budget = 60 if tier == "quick" else 300
                found = search(pid, spec, seed, tier, workdir, known, violations, known_hits, budget)
            if not found and not violations:
                if proof_broken or remaining:
                    payload = {"property": pid, "no_failing_input_found": True,
                               "broken_proof": notes if proof_broken else None,
                               "broken_correspondence": [
                                   {"family": leg["family"] if leg else None, "profile": profile, "why": why,
                                    "case": c.to_json() if c else None,
                                    "first_difference(model,crate)": common.model_diff(load_family(leg["family"]), c, workdir, "diff") if (c and leg) else None}
                                   for leg, profile, c, why in remaining[:3]]}
                    path = common.write_replay(pid, payload)
                    violations.append((path, "no-failing-input-found"))

        cov["evaluations"] = total_cases
        cov["distinct_nontrivial"] = len(nontrivial)
        cov["traces_validated_against_impl"] = traces
        cov["rule"] = spec.get("rule", "cases are generated from one PRNG state (VERIF_SEED); distinct = distinct case text; "
                                       "non-trivial per the family's rule (see tools/families/*.py: nontrivial)")
        cov["samples"] = samples or [{"note": "no case was evaluated"}]
        cov["input_distribution"] = dist
        for sk in common.SKIPPED:
            notes.append("MODEL-EVAL-TIMEOUT " + sk)
        cov["notes"] = notes

    # ---- 7. report
    seen = set()
    for k in known_hits:
        if k["id"] not in seen:
            seen.add(k["id"])
            print("KNOWN-FINDING: property=%s %s" % (pid, k["what"]))
    cov["known_findings_hit"] = sorted(seen)
    for path, extra in violations:
        print("VIOLATION property=%s replay=%s%s" % (pid, path, (" " + extra) if extra else ""))
    ev["violations"] = len(violations)
    ev["wall_s"] = round(time.time() - t0, 2)
    ev["assumptions"] = spec.get("assumptions", [])
    common.write_evidence(pid, ev)
    for n in notes:
        log(n[:3000])
    log("%s tier=%s cases=%d nontrivial=%d violations=%d wall=%.1fs" % (pid, tier, cov.get("evaluations", 0),
                                                                        cov.get("distinct_nontrivial", 0), len(violations), ev["wall_s"]))
    return 1 if violations else 0


def extract_coq_error(logtxt):
    lines = logtxt.splitlines()
    for i, l in enumerate(lines):
        if l.startswith("File ") and i + 1 < len(lines):
            return "\n".join(lines[i:i + 12])
    return logtxt[-1200:]


def handle_failure(pid, leg, profile, c, kind, oracle, known, violations, known_hits, workdir):
    k = classify_known(pid, leg, c, kind, known)
    if k:
        known_hits.append(k)
        return
    fam = load_family(leg["family"])

    had_empty = any(o == [-996] for o in (c.obs or []))

    def still_fails(c2):
        cs = common.run_harness(leg["family"], [c2], profile, workdir, "shrink")
        if not had_empty and any(o == [-996] for o in (cs[0].obs or [])):
            return False     # removing the op that created a sketch leaves ops on an empty slot: not the same failure
        if kind == "panic":
            return cs[0].panic is not None
        _, orc, err = common.run_model(fam, cs, leg.get("mask"), [oracle], workdir, "shrink", nshards=1)
        return (not err) and bool(orc[oracle])

    # one report per (family, kind, oracle): a violation in one family must not hide one in another; only the first
    # report of the run is minimised (the others keep the generated case)
    key = (leg["family"], kind, oracle)
    seen = getattr(handle_failure, "_seen", None)
    if seen is None or seen[0] is not violations:
        seen = (violations, set()); handle_failure._seen = seen
    if key not in seen[1] and len(violations) < 6:
        seen[1].add(key)
        small = c
        if len(violations) < 1:
            try:
                small = common.shrink(c, still_fails, budget_s=25)
                cs = common.run_harness(leg["family"], [small], profile, workdir, "shrunk")
                small = cs[0]
            except Exception as e:
                small = c
        payload = {"property": pid, "family": leg["family"], "profile": profile, "kind": kind, "oracle": oracle,
                   "panic": small.panic, "case": small.to_json(), "opnames": fam.OPNAMES,
                   "how_to_replay": "tools/check.py %s --replay <this file>" % pid}
        path = common.write_replay(pid, payload)
        violations.append((path, ""))


def search(pid, spec, seed, tier, workdir, known, violations, known_hits, budget):
    """looks for a concrete input on which the property's oracle fails on the crate"""
    t0 = time.time(); rnd = 0
    while time.time() - t0 < budget and not violations:
        rnd += 1
        for li, leg in enumerate(spec["legs"]):
            if rnd > 1 and time.time() - t0 >= budget:
                break
            fam = load_family(leg["family"])
            rng = random.Random("%d/%s/%d/search%d" % (seed, pid, li, rnd))
            # a leg may name a generator focus and extra (statistical) oracles that are used only while searching
            sfocus = leg.get("search_focus") if (rnd % 2 == 1 and leg.get("search_focus")) else leg.get("focus")
            cases = fam.gen(rng, "thorough" if rnd > 1 else tier, n=leg.get("n_search", 200), focus=sfocus)
            for i, c in enumerate(cases):
                c.cid = "s%d_%d" % (rnd, i)
            profs = leg.get("profiles", ["debug"])
            if sfocus and sfocus == leg.get("search_focus") and "release" in profs:
                profs = ["release"]          # statistical search cases are heavy: optimised build only
            for profile in profs:
                cs = common.run_harness(leg["family"], cases, profile, workdir, "search%d" % li)
                _, orc, err = common.run_model(fam, cs, leg.get("mask"), leg.get("oracles", []) + leg.get("search_oracles", []),
                                               workdir, "search%d" % li)
                if err:
                    continue
                for o, idxs in orc.items():
                    for i in idxs:
                        cs[i].failed_oracle = o
                        handle_failure(pid, leg, profile, cs[i], "oracle", o, known, violations, known_hits, workdir)
                if leg.get("panic_is_violation"):
                    for c in cs:
                        if c.panic:
                            handle_failure(pid, leg, profile, c, "panic", None, known, violations, known_hits, workdir)
            if violations:
                break
    return bool(violations)


def do_replay(pid, spec, path, workdir, known):
    d = json.load(open(path))
    if d.get("no_failing_input_found"):
        print("replay file names a broken proof/correspondence, not an input:")
        print(json.dumps({k: d[k] for k in ("broken_proof", "broken_correspondence")}, indent=1)[:4000])
        return 1
    leg = next(l for l in spec["legs"] if l["family"] == d["family"])
    fam = load_family(leg["family"])
    c = Case.from_json(d["case"])
    cs = common.run_harness(leg["family"], [c], d.get("profile", "debug"), workdir, "replay")
    print("crate observations:", json.dumps(cs[0].obs)[:2000], "panic:", cs[0].panic)
    bad = False
    if d["kind"] == "panic":
        bad = cs[0].panic is not None
    else:
        _, orc, err = common.run_model(fam, cs, leg.get("mask"), [d["oracle"]], workdir, "replay", nshards=1)
        bad = bool(err) or bool(orc[d["oracle"]])
    if bad:
        print("VIOLATION property=%s replay=%s" % (pid, path))
        return 1
    print("replay: property holds on this input now")
    return 0


def setup():
    t0 = time.time()
    with common.BuildLock():
        ok, out = common.translate()
        print(out)
        if not ok:
            return 2
        # build what the registered checks need (a file still being written for a property that is not
        # claimed yet must not break or delay setup)
        ready = [l.strip() for l in open(os.path.join(common.VERIF, "tools", "ready.txt")) if l.strip() and not l.startswith("#")]
        targets = []
        for pid in ready:
            sp = registry.PROPS.get(pid)
            if pid not in registry.PROPS:
                continue
            targets += ["theories/Props/%s.vo" % f for f in sp.get("props_files", [sp["props_file"]])]
            targets += ["theories/Corr/%s.vo" % load_family(l["family"]).CORR for l in sp["legs"]]
        ok, out = common.coq_make(sorted(set(targets)), timeout=7000)
        print(out[-3000:])
        if not ok:
            return 2
        fams = sorted({l["family"] for pid in ready if pid in registry.PROPS for l in registry.PROPS[pid]["legs"]})
        ok, out = common.harness_build(families=fams)
        print(out[-1500:])
        if not ok:
            return 2
    print("setup done in %.0fs" % (time.time() - t0))
    return 0


if __name__ == "__main__":
    try:
        sys.exit(main())
    except SystemExit:
        raise
    except Exception:
        traceback.print_exc()
        sys.exit(2)
