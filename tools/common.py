"""Shared machinery of the checks: locking, translator, Coq build and audit, harness build,
case files, Coq shards for the correspondence check, evidence and violation reporting.
See DESIGN.md sections 2.3, 2.4, 6, 7."""
import fcntl, hashlib, json, os, random, re, subprocess, sys, time, shutil
from concurrent.futures import ThreadPoolExecutor

# the extracted models use non-tail-recursive list functions: large observations (65536-entry tables, register files of
# lg_k 21) overflow OCaml's default 8 MiB stack.  Raise the soft stack limit to the hard limit for every child process.
try:
    import resource
    _soft, _hard = resource.getrlimit(resource.RLIMIT_STACK)
    resource.setrlimit(resource.RLIMIT_STACK, (_hard, _hard))
except Exception:
    pass

VERIF = os.path.abspath(os.path.join(os.path.dirname(os.path.abspath(__file__)), ".."))
REPO = os.environ.get("VERIF_REPO", "/repo")
COQ = os.path.join(VERIF, "coq")
WORK = os.path.join(VERIF, ".work")
HARNESS = os.path.join(VERIF, "harness")
EVID = os.path.join(VERIF, "evidence")
NCPU = 16

PANIC, ERR = -999, -998
ALL_FAMILIES = ["countmin", "hashes", "bloom", "freq", "theta", "hll", "cpc", "tdigest", "bounds"]
FORBIDDEN = re.compile(r"\b(Admitted|admit|Axiom|Axioms|Parameter|Parameters|Conjecture|Conjectures|"
                       r"Unset\s+Guard|bypass_check|Admit\s+Obligations|type-in-type|impredicative-set|"
                       r"Unset\s+Universe\s+Checking|Unset\s+Positivity)\b")

# axioms of the Coq standard library that a theorem may depend on (DESIGN.md section 10)
ALLOWED_AXIOMS = {
    "ClassicalDedekindReals.sig_forall_dec", "ClassicalDedekindReals.sig_not_dec",
    "FunctionalExtensionality.functional_extensionality_dep", "Classical_Prop.classic",
    "Eqdep.Eq_rect_eq.eq_rect_eq", "JMeq.JMeq_eq", "ProofIrrelevance.proof_irrelevance",
    "PropExtensionality.propositional_extensionality",
}
ALLOWED_AXIOM_PREFIXES = ("FloatAxioms.", "Uint63.", "PrimFloat.", "PrimInt63.", "Coq.Floats.", "Coq.Numbers.Cyclic.Int63.",
                          "Uint63Axioms.", "FloatOps.", "SpecFloat.")


class Case:
    def __init__(self, cid, cfg, ops, tag=""):
        self.cid, self.cfg, self.ops, self.tag = cid, list(cfg), list(ops), tag
        self.obs = None       # list of observations (lists of ints), filled from the harness
        self.panic = None     # panic location/message if the crate panicked

    def to_text(self):
        lines = ["case %s %s" % (self.cid, " ".join(str(x) for x in self.cfg))]
        for code, a in self.ops:
            lines.append("%d %s" % (code, " ".join(str(x) for x in a)))
        lines.append("end")
        return "\n".join(lines) + "\n"

    def to_json(self):
        return {"id": self.cid, "tag": self.tag, "cfg": self.cfg, "ops": [[c, a] for c, a in self.ops],
                "obs": self.obs, "panic": self.panic}

    @staticmethod
    def from_json(d):
        c = Case(d["id"], d["cfg"], [(o[0], o[1]) for o in d["ops"]], d.get("tag", ""))
        return c


def log(*a):
    print(*a, file=sys.stderr, flush=True)


class BuildLock:
    def __enter__(self):
        os.makedirs(WORK, exist_ok=True)
        self.f = open(os.path.join(VERIF, ".build.lock"), "w")
        fcntl.flock(self.f, fcntl.LOCK_EX)
        return self

    def release(self):
        """the builds are done and the executables staged in the property's work directory: let other checks build"""
        if self.f is not None:
            fcntl.flock(self.f, fcntl.LOCK_UN)
            self.f.close()
            self.f = None

    def __exit__(self, *a):
        self.release()


def sh(cmd, cwd=None, timeout=None, env=None):
    e = dict(os.environ)
    e.update({"CARGO_NET_OFFLINE": "true"})
    if env:
        e.update(env)
    p = subprocess.run(cmd, cwd=cwd, shell=isinstance(cmd, str), stdout=subprocess.PIPE, stderr=subprocess.STDOUT,
                       timeout=timeout, env=e, text=True, errors="replace")
    return p.returncode, p.stdout


# ------------------------------------------------------------------ translator + Coq build
def translate():
    rc, out = sh([sys.executable, os.path.join(VERIF, "tools", "translate.py")], timeout=300)
    return rc == 0, out


def coq_files():
    out = []
    for root, _, files in os.walk(os.path.join(COQ, "theories")):
        for f in files:
            if f.endswith(".v"):
                out.append(os.path.relpath(os.path.join(root, f), COQ))
    return sorted(out)


def coq_makefile():
    files = coq_files()
    proj = ("-Q theories DS\n-arg -w -arg -notation-overridden,-deprecated-hint-without-locality,"
            "-deprecated-instance-without-locality,-deprecated-hint-rewrite-without-locality\n" + "\n".join(files) + "\n")
    pj = os.path.join(COQ, "_CoqProject")
    if not os.path.exists(pj) or open(pj).read() != proj or not os.path.exists(os.path.join(COQ, "Makefile")):
        open(pj, "w").write(proj)
        rc, out = sh("coq_makefile -f _CoqProject -o Makefile", cwd=COQ, timeout=120)
        if rc != 0:
            raise RuntimeError("coq_makefile failed:\n" + out)


def coq_make(targets, timeout=3000):
    """full .vo build of the given targets (never -vos). returns (ok, log)"""
    coq_makefile()
    t = " ".join(targets)
    # a single coqc that needs more than 16 GB of address space is a runaway proof search or computation: fail it
    rc, out = sh("ulimit -v 16000000 2>/dev/null; timeout %d make -j%d %s 2>&1" % (timeout, NCPU, t), cwd=COQ, timeout=timeout + 60)
    return rc == 0, out


def forbidden_scan():
    bad = []
    for f in coq_files():
        if f.startswith("theories/Gen/"):
            continue
        txt = open(os.path.join(COQ, f)).read()
        txt_nc = strip_coq_comments(txt)
        for m in FORBIDDEN.finditer(txt_nc):
            bad.append("%s: %s" % (f, m.group(0)))
        # Variable / Hypothesis outside a section
        depth = 0
        for line in txt_nc.splitlines():
            s = line.strip()
            if re.match(r"Section\s+\w+", s):
                depth += 1
            elif re.match(r"End\s+\w+", s) and depth > 0:
                depth -= 1
            elif depth == 0 and re.match(r"(Variable|Variables|Hypothesis|Hypotheses|Context)\b", s):
                bad.append("%s: %s outside a section" % (f, s[:40]))
    return bad


def strip_coq_comments(s):
    out, depth, i = [], 0, 0
    while i < len(s):
        if s.startswith("(*", i):
            depth += 1; i += 2
        elif s.startswith("*)", i) and depth > 0:
            depth -= 1; i += 2
        else:
            if depth == 0:
                out.append(s[i])
            i += 1
    return "".join(out)


def props_theorems(pid):
    """names of the theorems stated in Props/<pid>.v"""
    path = os.path.join(COQ, "theories", "Props", pid + ".v")
    txt = strip_coq_comments(open(path).read())
    return re.findall(r"^\s*(?:Theorem|Lemma|Corollary)\s+([A-Za-z_][\w']*)", txt, re.M)


def print_assumptions(pid):
    """run Print Assumptions on every theorem of Props/<pid>.v; returns (ok, {thm: [axioms]}, raw)"""
    thms = props_theorems(pid)
    os.makedirs(WORK, exist_ok=True)
    f = os.path.join(WORK, "audit_%s.v" % pid)
    with open(f, "w") as fh:
        fh.write("From DS Require Import Props.%s.\n" % pid)
        for t in thms:
            fh.write('Goal True. idtac "@@THM %s". Abort.\nPrint Assumptions %s.\n' % (t, t))
    rc, out = sh("coqc -noglob -Q theories DS -o %s %s" % (os.path.join(WORK, "audit_%s.vo" % pid), f), cwd=COQ, timeout=600)
    res, cur = {}, None
    for line in out.splitlines():
        m = re.match(r"@@THM (\S+)", line.strip())
        if m:
            cur = m.group(1); res[cur] = []
            continue
        if cur is None:
            continue
        if line.strip() in ("Axioms:", "Closed under the global context"):
            continue
        # an assumption is printed as "Name : type" or, when the type is long, as "Name" with "  : type" on the next lines
        m = re.match(r"^([A-Za-z_][\w'.]*)\s*(:|$)", line)
        if m and not line.startswith(" "):
            res[cur].append(m.group(1))
    bad = []
    for t, axs in res.items():
        for a in axs:
            if a in ALLOWED_AXIOMS or a.startswith(ALLOWED_AXIOM_PREFIXES):
                continue
            # primitive types/operations are reported too; they live in PrimFloat/PrimInt63/Uint63
            bad.append("%s depends on %s" % (t, a))
    ok = rc == 0 and not bad and set(res) == set(thms)
    return ok, res, (out if not ok else ""), bad


# ------------------------------------------------------------------ harness
def harness_build(profiles=("debug", "release"), families=None):
    logs = []
    feats = ",".join("fam_" + f for f in (families or ALL_FAMILIES))
    for p in profiles:
        cmd = "cargo build --offline --features %s" % feats + (" --release" if p == "release" else "")
        rc, out = sh(cmd, cwd=HARNESS, timeout=1800)
        logs.append(out)
        if rc != 0:
            return False, "\n".join(logs)
    return True, "\n".join(logs)


def harness_bin(profile, workdir=None):
    if workdir:
        staged = os.path.join(workdir, "harness-" + profile)
        if os.path.exists(staged):
            return staged
    return os.path.join(HARNESS, "target", profile, "verif-harness")


def stage_harness(workdir, profiles):
    """copies the freshly built harness executables into the property's work directory (run from there, so that a
    concurrent check building the harness with other family features cannot replace them mid-run)"""
    for p in profiles:
        src = os.path.join(HARNESS, "target", p, "verif-harness")
        if os.path.exists(src):
            dst = os.path.join(workdir, "harness-" + p)
            tmp = dst + ".tmp"
            shutil.copy2(src, tmp)
            os.replace(tmp, dst)


def run_harness(family, cases, profile, workdir, name):
    """replays the cases on the crate; fills case.obs / case.panic; returns list of (ops, obs) aligned"""
    cf = os.path.join(workdir, "%s.%s.cases" % (name, profile))
    of = os.path.join(workdir, "%s.%s.obs" % (name, profile))
    with open(cf, "w") as fh:
        for c in cases:
            fh.write(c.to_text())
    rc, out = sh([harness_bin(profile, workdir), family, cf, of], timeout=3000)
    if rc != 0:
        raise RuntimeError("harness failed (rc=%s): %s" % (rc, out[-2000:]))
    res = {}
    cur, obs, panic = None, None, None
    for line in open(of):
        if line.startswith("case "):
            cur = line.split()[1]; obs = []; panic = None
        elif line.startswith("o"):
            obs.append([int(x) for x in line.split()[1:]])
        elif line.startswith("# panic"):
            panic = line[2:].strip()
        elif line.startswith("end"):
            res[cur] = (obs, panic)
    out_cases = []
    for c in cases:
        obs, panic = res[str(c.cid)]
        c2 = Case(c.cid, c.cfg, c.ops, c.tag)
        c2.obs, c2.panic = obs, panic
        out_cases.append(c2)
    return out_cases


# ------------------------------------------------------------------ Coq shards
def zlit(x):
    return str(x) if x >= 0 else "(%d)" % x


def coq_case(c):
    nobs = len(c.obs)
    ops = c.ops[:nobs]   # the harness stops a case at its first panic
    s_ops = "; ".join("(%s, [%s])" % (zlit(code), "; ".join(zlit(x) for x in a)) for code, a in ops)
    s_obs = "; ".join("[%s]" % "; ".join(zlit(x) for x in ob) for ob in c.obs)
    return "mkCase [%s] [%s] [%s]" % ("; ".join(zlit(x) for x in c.cfg), s_ops, s_obs)


def run_shard(args):
    corr, cases, mask, oracles, path = args
    with open(path, "w") as fh:
        fh.write("From DS Require Import Base.Prelude Corr.%s.\nOpen Scope Z_scope.\n" % corr)
        fh.write("Definition cs : list case := [\n%s\n].\n" % ";\n".join(coq_case(c) for c in cases))
        m = "(fun c => true)" if mask is None else "(fun c => existsb (Z.eqb c) [%s])" % "; ".join(str(x) for x in mask)
        fh.write('Goal True. idtac "@@CORR". Abort.\n')
        fh.write("Eval vm_compute in (failures (corr_ok_masked %s Corr.%s.run) cs).\n" % (m, corr))
        for o in oracles:
            fh.write('Goal True. idtac "@@ORACLE %s". Abort.\n' % o)
            fh.write("Eval vm_compute in (failures Corr.%s.%s cs).\n" % (corr, o))
    t0 = time.time()
    rc, out = sh("coqc -noglob -Q theories DS -o %s %s" % (path + "o", path), cwd=COQ, timeout=3000)
    if rc != 0:
        return {"error": out[-3000:]}
    res, cur = {}, None
    buf = {}
    for line in out.splitlines():
        m = re.match(r"\s*@@(CORR|ORACLE \S+)", line)
        if m:
            cur = m.group(1); buf[cur] = ""
        elif cur:
            buf[cur] += line + " "
    for k, v in buf.items():
        v = v.split(":")[0]
        res[k] = [int(x) for x in re.findall(r"\d+", v)]
    res["time"] = time.time() - t0
    return res


OCAML = os.path.join(VERIF, "ocaml")


def build_driver(fams, workdir):
    """extracts the models of the given families (ExtrOcamlBasic + ExtrOCamlFloats + ExtrOCamlInt63
    only) and links the OCaml driver into workdir/driver.  fams: list of family modules."""
    os.makedirs(workdir, exist_ok=True)
    gen = os.path.join(workdir, "gen")
    os.makedirs(gen, exist_ok=True)
    ex = open(os.path.join(OCAML, "Extract.v.in")).read()
    reqs = "".join("From DS Require Corr.%s.\n" % f.CORR for f in fams)
    table = ";\n    ".join("(%d, (Corr.%s.run, Corr.%s.oracles))" % (f.FAMNUM, f.CORR, f.CORR) for f in fams)
    ex = ex.replace("@@REQUIRES@@", reqs).replace("@@FAMILIES@@", table)
    exf = os.path.join(workdir, "Extract.v")
    drv = os.path.join(workdir, "driver")
    deps = [os.path.join(OCAML, "Extract.v.in"), os.path.join(OCAML, "driver.ml")]
    for sub in ("Base", "Gen", "Model", "Corr"):
        d = os.path.join(COQ, "theories", sub)
        deps += [os.path.join(d, f) for f in os.listdir(d) if f.endswith(".vo")]
    if os.path.exists(exf) and open(exf).read() == ex and os.path.exists(drv) and \
            all(os.path.getmtime(x) <= os.path.getmtime(drv) for x in deps):
        return True, ""
    open(exf, "w").write(ex)
    # large translated tables (composite x-arrays, Huffman tables) make extraction and ocamlopt recurse deeply
    rc, out = sh("ulimit -s unlimited 2>/dev/null; coqc -Q %s DS -o %s ../Extract.v" % (os.path.join(COQ, "theories"), os.path.join(workdir, "Extract.vo")), cwd=gen, timeout=900)
    if rc != 0:
        return False, out
    shutil.copy(os.path.join(OCAML, "driver.ml"), os.path.join(workdir, "driver.ml"))
    if os.path.exists(drv):
        os.remove(drv)
    rc, out2 = sh("ulimit -s unlimited 2>/dev/null; ocamlfind ocamlopt -O2 -rectypes -thread -package coq-core.kernel -linkpkg -I gen gen/model.mli gen/model.ml "
                  "driver.ml -o driver 2>&1 | grep -v WARNING", cwd=workdir, timeout=900)
    if not os.path.exists(drv):
        return False, out + out2
    return True, out + out2


def write_case_obs(cases, cf, of):
    with open(cf, "w") as fh:
        for c in cases:
            fh.write(c.to_text())
    with open(of, "w") as fh:
        for c in cases:
            fh.write("case %s\n" % c.cid)
            for ob in c.obs:
                fh.write("o %s\n" % " ".join(str(x) for x in ob))
            fh.write("end\n")


SKIPPED = []     # notes about cases that could not be evaluated (shard time limit); check.py copies them into the evidence


def run_driver_shard(args):
    famnum, cases, mask, oracle_ids, base, drv = args
    cf, of = base + ".cases", base + ".obs"
    write_case_obs(cases, cf, of)
    m = "all" if mask is None else ",".join(str(x) for x in mask)
    o = ",".join(str(x) for x in oracle_ids) if oracle_ids else "-"
    # a model shard that needs more than 12 GB or 25 minutes is a blow-up (e.g. an oracle fed observations of a broken
    # crate): report it as a failed model evaluation instead of exhausting the machine
    try:
        rc, out = sh("ulimit -v 12000000 2>/dev/null; exec %s %s %s %s %s %s" % (drv, famnum, m, o, cf, of), timeout=1500)
    except subprocess.TimeoutExpired:
        return {"timeout": True}
    if rc != 0:
        return {"error": out[-3000:] or "model driver shard died without output (memory limit?)"}
    res = {}
    for line in out.splitlines():
        t = line.split()
        if not t:
            continue
        if t[0] == "corr":
            res["corr"] = [int(x) for x in t[1:]]
        elif t[0] == "oracle":
            res["oracle " + t[1]] = [int(x) for x in t[2:]]
    return res


def run_model(fam, cases, mask, oracles, workdir, name, nshards=NCPU, coq_sample=0):
    """evaluates the extracted model and the oracles on the cases (OCaml driver, sharded);
    a small sample is re-evaluated inside Coq with vm_compute to cross-check extraction.
    Returns (corr_fail_idx, {oracle: fail_idx}, error)"""
    if not cases:
        return [], {o: [] for o in oracles}, None
    size = lambda c: sum(len(a) + 2 for _, a in c.ops) + sum(len(o) + 1 for o in c.obs)
    nshards = max(1, min(nshards, len(cases)))
    order = sorted(range(len(cases)), key=lambda i: -size(cases[i]))
    shards = [[] for _ in range(nshards)]
    loads = [0] * nshards
    for i in order:
        j = loads.index(min(loads))
        shards[j].append(i)
        loads[j] += size(cases[i])
    oids = [fam.ORACLES[o] for o in oracles]
    drv = os.path.join(workdir, "driver")
    jobs = [(fam.FAMNUM, [cases[i] for i in idxs], mask, oids, os.path.join(workdir, "%s_sh%d" % (name, j)), drv)
            for j, idxs in enumerate(shards) if idxs]
    with ThreadPoolExecutor(max_workers=NCPU) as ex:
        results = list(ex.map(run_driver_shard, jobs))
    corr_fail, orc_fail = [], {o: [] for o in oracles}
    # a shard that exceeds the 25-minute limit says something about the speed of the list-based model on this machine, not
    # about the crate: its cases count as NOT EVALUATED (recorded in the evidence notes), unless most shards time out - then
    # the correspondence cannot be evaluated at all and that is reported as before
    timed_out = [idxs for idxs, r in zip([s_ for s_ in shards if s_], results) if r.get("timeout")]
    if timed_out and 2 * len(timed_out) > len(results):
        return None, None, "model driver: %d of %d shards exceeded 25 minutes" % (len(timed_out), len(results))
    for idxs in timed_out:
        SKIPPED.append("%s: %d cases not evaluated (model shard exceeded 25 minutes): %s" % (
            name, len(idxs), ", ".join(sorted({cases[i].tag or cases[i].cid for i in idxs}))[:300]))
    for idxs, r in zip([s_ for s_ in shards if s_], results):
        if r.get("timeout"):
            continue
        if "error" in r:
            return None, None, (r["error"] or "model driver shard died without output")
        for k in r.get("corr", []):
            corr_fail.append(idxs[k])
        for o in oracles:
            for k in r.get("oracle %d" % fam.ORACLES[o], []):
                orc_fail[o].append(idxs[k])
    if coq_sample:
        small = sorted(range(len(cases)), key=lambda i: size(cases[i]))
        small = [i for i in small if size(cases[i]) < 20000][:coq_sample]
        if small:
            r = run_shard((fam.CORR, [cases[i] for i in small], mask, oracles, os.path.join(workdir, "%s_coqsample.v" % name)))
            if "error" in r:
                return None, None, "in-Coq cross-check failed: " + r["error"]
            coq_corr = sorted(small[k] for k in r.get("CORR", []))
            ocaml_corr = sorted(i for i in corr_fail if i in small)
            if coq_corr != ocaml_corr:
                return None, None, "extraction cross-check: vm_compute and the extracted model disagree on cases %s vs %s" % (coq_corr, ocaml_corr)
    return sorted(corr_fail), {o: sorted(v) for o, v in orc_fail.items()}, None


def model_diff(fam, case, workdir, name):
    """first difference between the model's and the crate's observations of one case"""
    base = os.path.join(workdir, name + "_one")
    write_case_obs([case], base + ".cases", base + ".obs")
    rc, out = sh([os.path.join(workdir, "driver"), str(fam.FAMNUM), "all", "-", base + ".cases", base + ".obs", "diff", "0"], timeout=600)
    return out.strip()[:4000]


def model_obs(corr, case, workdir, name):
    """the model's own observations of one case, as raw Coq output (for replay files)"""
    path = os.path.join(workdir, name + "_one.v")
    with open(path, "w") as fh:
        fh.write("From DS Require Import Base.Prelude Corr.%s.\nOpen Scope Z_scope.\n" % corr)
        fh.write("Definition c : case := %s.\n" % coq_case(case))
        fh.write("Eval vm_compute in (first_diff (Corr.%s.run (c_cfg c) (c_ops c)) (c_obs c)).\n" % corr)
    rc, out = sh("coqc -noglob -Q theories DS -o %s %s" % (path + "o", path), cwd=COQ, timeout=600)
    return out.strip()[:4000]


# ------------------------------------------------------------------ shrinking
def shrink(case, still_fails, budget_s=20):
    """delta-debugging on the op list (keeps op 0 'new' style prefix intact where needed)."""
    t0 = time.time()
    ops = list(case.ops)
    n = 2
    while len(ops) >= 2 and time.time() - t0 < budget_s:
        chunk = max(1, len(ops) // n)
        reduced = False
        for i in range(0, len(ops), chunk):
            cand = ops[:i] + ops[i + chunk:]
            if not cand:
                continue
            c2 = Case(case.cid, case.cfg, cand, case.tag)
            try:
                if still_fails(c2):
                    ops = cand; n = max(n - 1, 2); reduced = True
                    break
            except Exception:
                pass
            if time.time() - t0 > budget_s:
                break
        if not reduced:
            if chunk == 1:
                break
            n = min(len(ops), n * 2)
    return Case(case.cid, case.cfg, ops, case.tag)


# ------------------------------------------------------------------ evidence / findings
def write_evidence(pid, data):
    os.makedirs(EVID, exist_ok=True)
    with open(os.path.join(EVID, pid + ".json"), "w") as fh:
        json.dump(data, fh, indent=1, sort_keys=True)


def load_known():
    p = os.path.join(VERIF, "known_findings.json")
    if not os.path.exists(p):
        return []
    return json.load(open(p)).get("findings", [])


def write_replay(pid, payload):
    d = os.path.join(EVID, "replay")
    os.makedirs(d, exist_ok=True)
    h = hashlib.sha256(json.dumps(payload, sort_keys=True, default=str).encode()).hexdigest()[:12]
    p = os.path.join(d, "%s-%s.json" % (pid, h))
    with open(p, "w") as fh:
        json.dump(payload, fh, indent=1, default=str)
    return p
