"""Property registry: one file per property under tools/props/ (SPEC dict): which Props file
holds the theorems, and which correspondence legs (family generator, observed op codes,
oracles, build profiles) tie them to the crate."""
import importlib.util, os

HERE = os.path.dirname(os.path.abspath(__file__))
PROPS = {}
for fn in sorted(os.listdir(os.path.join(HERE, "props"))):
    if fn.endswith(".py") and fn[0] == "C":
        spec = importlib.util.spec_from_file_location("prop_" + fn[:-3], os.path.join(HERE, "props", fn))
        m = importlib.util.module_from_spec(spec)
        spec.loader.exec_module(m)
        if hasattr(m, "SPEC"):
            PROPS[fn[:-3]] = m.SPEC

# Parts: tools/props/Cxx_<part>.py (SPEC_PART: props_file, legs, trusted, assumptions, covers) extends property Cxx with a
# further Props file and further correspondence legs.  A part takes effect only when it is listed in tools/ready.txt
# (or, for development, in the environment variable VERIF_PARTS, comma separated).
_ready = {l.strip() for l in open(os.path.join(HERE, "ready.txt")) if l.strip() and not l.startswith("#")}
_ready |= {x for x in os.environ.get("VERIF_PARTS", "").split(",") if x}
PARTS = {}
for fn in sorted(os.listdir(os.path.join(HERE, "props"))):
    if fn.endswith(".py") and fn[0] == "C" and "_" in fn:
        name = fn[:-3]; pid = name.split("_")[0]
        spec = importlib.util.spec_from_file_location("prop_" + name, os.path.join(HERE, "props", fn))
        m = importlib.util.module_from_spec(spec)
        spec.loader.exec_module(m)
        part = getattr(m, "SPEC_PART", None)
        if part is None or pid not in PROPS:
            continue
        PARTS[name] = part
        if name in _ready:
            sp = PROPS[pid]
            sp.setdefault("props_files", [sp["props_file"]]).append(part["props_file"])
            sp["legs"] = sp["legs"] + part.get("legs", [])
            sp["trusted"] = sp.get("trusted", []) + part.get("trusted", [])
            sp["assumptions"] = sp.get("assumptions", []) + part.get("assumptions", [])
            sp.setdefault("covers", []).append(part.get("covers", name))

# commits in /repo that add the (feature-gated, add-only) verification hooks
HOOK_COMMITS = [l.split()[0] for l in open(os.path.join(HERE, "..", "hooks_commits.txt")) if l.strip()]
NOT_CLAIMED = {}
