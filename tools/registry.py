"""Property registry: one file per property under tools/props/ (SPEC dict): which Props file
holds the theorems, and which correspondence legs (family generator, observed op codes,
oracles, build profiles) tie them to the crate."""
import importlib.util, os

HERE = os.path.dirname(os.path.abspath(__file__))
PROPS = {}
for fn in sorted(os.listdir(os.path.join(HERE, "props"))):
    if fn.endswith(".py") and fn[0] == "C":
        spec = importlib.util.spec_from_file_location("prop_" + fn[:-3], os.path.join(HERE, "props", fn))
        m = importlib.util.module_from_spec(spec)
        spec.loader.exec_module(m)
        PROPS[fn[:-3]] = m.SPEC

# commits in /repo that add the (feature-gated, add-only) verification hooks
HOOK_COMMITS = [l.split()[0] for l in open(os.path.join(HERE, "..", "hooks_commits.txt")) if l.strip()]
NOT_CLAIMED = {}
