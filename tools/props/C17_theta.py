SPEC_PART = dict(
    props_file="C17_theta",
    legs=[dict(family="theta", focus="extremes", oracles=["kmv_ok", "no_panic", "roundtrip_ok"], profiles=["debug", "release"],
               mask=[1, 2, 3, 4, 5, 6, 7, 9, 10, 11, 13, 14, 16, 17, 18], n_quick=80, n_thorough=800, panic_is_violation=True)],
    trusted=["the binomial confidence bounds (ln/sqrt loops of common/binomial_bounds.rs) are not modelled: the theorem gives their "
             "precondition (0 < theta <= 2^63-1), the harness calls them on every dumped state in both profiles"],
    assumptions=["theta: lg_k in 5..=26, sampling probability in (0, 1], a seed whose 16-bit seed hash is not zero (all three "
                 "asserted by the builder's setters and documented; the seed assertion is /repo fix 1641259 - before it the "
                 "unusable seed surfaced as a panic inside compact()), any u64 offered as hash"],
    covers="theta: every history of update / trim / reset / compact on every valid configuration runs without reaching a modelled "
           "panic site (find_in_entries always succeeds, select_nth_unstable's index is in range, the assert_eq!s hold); compact() + "
           "serialize()/serialize_compressed() never panic; theta stays in [1, 2^63-1]. Found and repaired: sampling_probability "
           "below 2^-63 started with theta = 0 (bounds panicked, estimate NaN); a seed with seed hash 0 (e.g. 50541) built and "
           "updated fine, then compact() panicked, and deserialize_with_seed panicked with it. Tie: histories at lg_k 5/6/12, p in {1, 0.5, "
           "2^-62, 2^-63, 2^-64, 1e-20, 1e-38, 2^-149, 1-2^-24}, all resize factors, with trim/reset/compact, both serializers and "
           "the confidence bounds called on every dumped state; the builder tried with usable and zero-hash seeds (op 18: refuses "
           "exactly the latter) and deserialize_with_seed with zero-hash, wrong and right reader seeds (op 17), debug (overflow checks, debug assertions) and release; any panic is "
           "a violation and the model must reproduce every observation in both profiles")
