SPEC = dict(
    props_file="C09",
    legs=[dict(family="bloom", oracles=["prop_ok"], profiles=["debug", "release"], n_quick=150, n_thorough=1500)],
    level_text="Theorems (Props/C09.v) over an executable model of bloom/sketch.rs + bloom/builder.rs, for arbitrary digests (h0, h1), "
               "every configuration in the builder's ranges and ALL histories (expressions over insert, contains_and_insert, union, "
               "intersect, invert, reset, serialize+deserialize): the bit array is exactly the history's set of positions "
               "((h0 + i*h1) mod 2^64 >> 1) mod capacity, i = 1..num_hashes; contains = 'all positions in the set', hence no false "
               "negatives (inserted / either operand of a union / both operands of an intersect / after the codec); bits_used = "
               "number of set positions = word popcount after every operation (invert: capacity - n); indices < capacity; "
               "deserialize(serialize f) = Ok f for every well-formed filter and every reachable filter is well formed. The model is "
               "tied to the crate by running both on the same generated histories (sizes 1..2^16 bits incl. non-multiples of 64, "
               "1..16 hashes, several seeds, items of type i64, &str / String (lengths 0..100 incl. 31/32/33/63/64/95), (u64,u64), (u64,u64,u64,u64), &[u8], u128 - so that XxHash64 is fed by several and by long write calls -, up to 6 filters per case, debug + release) and comparing every observation "
               "(contains, bits_used, capacity, full serialized images, deserialization of foreign/dirty/damaged images), and the "
               "property itself (a position set kept independently of the model) is evaluated on the crate's observations: every observation is "
               "judged in full (shape included) and a panic counts against the property unless the Spec predicts it (builder arguments out of "
               "range, union / intersect of incompatible filters - which the generator produces on purpose).",
    level_note="No theorem for the statistical half of C09 (measured false-positive rate of with_accuracy(n, p) near p): it is a claim "
               "about the distribution of XXH64 outputs and about ln-based sizing. It is only measured as a test: bloom-fpp cases build "
               "with_accuracy(n, p), insert n items, probe 4n never-inserted items and require the count to equal the position-set "
               "prediction and to stay below 5*p*probes + 10; the builder's sizing is compared with the generator's recomputation. "
               "The digests h0 = XXH64(item, seed), h1 = XXH64(item, h0) are inputs of the model (hasher: C16); literals inside "
               "function bodies (>> 1, >> 6, & 63, loop start 1) are not translated, they are covered by the correspondence check.",
    technique="Coq proof by representation invariant (Rep f S: filter f denotes position set S) over an inductive type of histories "
              "+ codec round-trip proof + differential correspondence model vs crate + Spec-level oracle",
    trusted=["digests h0, h1 are supplied by tools/pyref.py xxh64 (reference XXH64, cross-checked in C16); the crate hashes the item "
             "itself through std's Hash impl; the byte streams assumed for it: i64 8 LE bytes; str/String bytes then 0xff (two writes); "
             "u64 tuples 8 LE bytes per component (one write each); &[u8] 8-byte LE length then the bytes; u128 16 LE bytes",
             "the false-positive-rate claim is statistical and has no theorem (DESIGN.md section 9); measured only",
             "with_accuracy's ln-based sizing has no Coq counterpart; the generator recomputes it with Python's math.log"],
    assumptions=["configuration within the builder's documented ranges (1 <= num_bits <= MAX_NUM_BITS, 1 <= num_hashes <= 32767, u64 seed)",
                 "union / intersect operands are compatible (same word count, num_hashes, seed); otherwise the crate panics, as modelled"],
)
