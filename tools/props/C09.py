SPEC = dict(
    props_file="C09",
    legs=[dict(family="bloom", oracles=["prop_ok"], profiles=["debug", "release"], n_quick=150, n_thorough=1500)],
    level_text="placeholder",
    level_note="placeholder",
    technique="Coq proof by invariant over histories + differential correspondence model vs crate",
    trusted=[],
    assumptions=[],
)
