SPEC_PART = dict(
    props_file="C11_theta",
    legs=[dict(family="theta", focus="codec", oracles=["roundtrip_ok"], profiles=["debug", "release"],
               mask=[1, 2, 4, 6, 7, 10, 11, 12, 13, 14, 15], n_quick=160, n_thorough=1500, panic_is_violation=True)],
    trusted=[], assumptions=[], covers="theta: TBD")
