SPEC_PART = dict(
    props_file="C11_theta",
    legs=[dict(family="theta", focus="codec", oracles=["roundtrip_ok"], profiles=["debug", "release"],
               mask=[1, 2, 4, 6, 7, 10, 11, 12, 13, 14, 15], n_quick=160, n_thorough=1500, panic_is_violation=True)],
    trusted=["theta codec models (Model/ThetaCodec.v) are written by hand from theta/sketch.rs and the BitPacker/BitUnpacker of "
             "theta/bit_pack.rs and tied byte for byte (serialize, serialize_compressed) and value for value (deserialize) on "
             "every case; the 126 unrolled pack_bits_N/unpack_bits_N are NOT hand-written: tools/translate.py re-reads them "
             "into Gen/GenBitPack.v on every run and a symbolic evaluator, proved sound once, checks each against the bit-stream "
             "specification for all inputs"],
    assumptions=["compact sketches with fewer than 2^32 entries (the count field is a u32)",
                 "the reader's seed has a non-zero 16-bit seed hash (sh <> 0 in the theorems; Err otherwise)",
                 "c_wf does not include distinctness of unordered entries (the reader accepts repeated hashes)"],
    covers="theta: deserialize(serialize(c)) = Ok c and deserialize(serialize_compressed(c)) = Ok c (equality of the whole compact "
           "sketch: entries in order, theta, seed hash, ordered, empty) for every well-formed c, every entry count incl. every "
           "length mod 8 and every delta width 1..63; compact(ordered) of every reachable ThetaSketch is well-formed, and so is every value "
           "the reader returns (c_deserialize = Ok c -> c_wf c), so both round trips apply to deserialized values too; bit-pack "
           "reflection (sym_sound; pack/unpack blocks and BitPacker/BitUnpacker tails = big-endian bit stream for all widths and "
           "all inputs; stream fields = values mod 2^w). Tie: crate bytes = model bytes for both writers, crate deserialize dump = "
           "model, and a fork oracle on the crate alone (compact -> image -> value: equal dump, equal re-serialization), on sketches "
           "with crafted entry sets (widths 1..63, 0..4100 entries, 255/256/257 and 65536 entries), streams, screened-only and "
           "empty sketches, debug and release")
