SPEC = dict(
    props_file="C13",
    legs=[dict(family="countmin", focus="foreign", oracles=["prop_foreign", "prop_ok"], profiles=["debug", "release"], n_quick=120, n_thorough=1200,
               panic_is_violation=True)],
    level_text="Theorems (Props/C13.v and its parts): per family, for every admissible abstract state a and every variant v of the "
               "cross-language format (Spec/*Layout.v: spec_encode, written from the format description, constants as literals), the "
               "modelled reader accepts spec_encode v a and yields a sketch whose abstraction is exactly a (and, where the layout is "
               "canonical, whose re-serialization is the canonical image of a); the spec decoder inverts the spec encoder on every variant. "
               "Tie: images built by the generator's own independent encoder from random abstract states, over every variant, are fed to the "
               "crate's deserialize (debug + release); the decoded sketch is dumped (accessors, estimates, bounds, re-serialization), then "
               "updated, merged and forked, and every observation is judged against the state the independent spec decoder reads from the "
               "same bytes: an image that is valid under the format must be accepted and must hold exactly the encoded state.",
    level_note="Trusted: my reading of the DataSketches Java/C++ formats (DESIGN.md Appendix A); no upstream-generated files are available "
               "offline. Families covered are listed in the parts (Props/C13.v: Count-Min; Props/C13_<family>.v). CPC is not among the families "
               "C13's text and anchors name and has no part in this property (CPC images: C11/C12/C14).",
    technique="Coq theorem reader-vs-spec-encoder per format variant + differential testing of the crate's reader on spec-encoded images",
    trusted=["format specification = my reading of the published Java/C++ layouts (no upstream files available offline)",
             "countmin: Count-Min exists in C++ only; 8-byte weights (count_min_sketch<uint64_t/int64_t>) are taken as the format; "
             "narrower C++ weight types would write narrower cells (doubt recorded, not claimed)",
             "countmin: counters are non-negative in the model (negative weights of the signed C++/Rust counter types are outside it)"],
    assumptions=[],
)
