SPEC = dict(
    props_file="C18",
    legs=[dict(family="countmin", oracles=["prop_layout"], profiles=["debug"], n_quick=100, n_thorough=1000, panic_is_violation=True)],
    level_text="Theorems (Props/C18.v and its parts Props/C18_<family>.v): image sizes / retained counts are functions of the configuration, from the models' invariants. "
               "Tie: serialize().len() of the crate checked against the formula on every serialize observation.",
    level_note="CPC 99.9th-percentile size and the t-digest centroid bound are empirical: no theorem (DESIGN.md section 9). "
               "The base file holds the Count-Min statements; the other families are parts (covered / NOT covered families are listed at the end of this note).",
    technique="Coq size theorems from model invariants + size oracle on crate output",
    trusted=[],
    assumptions=[],
)
