SPEC = dict(
    props_file="C18",
    legs=[dict(family="countmin", oracles=["prop_layout"], profiles=["debug"], n_quick=100, n_thorough=1000)],
    level_text="Theorems (Props/C18.v): image sizes / retained counts are functions of the configuration, from the models' invariants. "
               "Tie: serialize().len() of the crate checked against the formula on every serialize observation.",
    level_note="CPC 99.9th-percentile size and the t-digest centroid bound are empirical: no theorem (DESIGN.md section 9). "
               "Families covered so far are listed in Props/C18.v.",
    technique="Coq size theorems from model invariants + size oracle on crate output",
    trusted=[],
    assumptions=[],
)
