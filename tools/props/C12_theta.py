SPEC_PART = dict(
    props_file="C12_theta",
    legs=[dict(family="theta", focus="layout", oracles=["layout12_ok"], profiles=["debug"],
               mask=[1, 2, 4, 6, 7, 10, 11, 14], n_quick=120, n_thorough=1200)],
    trusted=[], assumptions=[], covers="theta: TBD")
