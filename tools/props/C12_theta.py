SPEC_PART = dict(
    props_file="C12_theta",
    legs=[dict(family="theta", focus="layout", oracles=["layout12_ok"], profiles=["debug"],
               mask=[1, 2, 4, 6, 7, 10, 11, 14], n_quick=120, n_thorough=1200)],
    trusted=["Spec/ThetaLayout.v = my reading of the compact theta formats serVer 1-4 (DESIGN.md Appendix A); no Java/C++ files "
             "are available offline"],
    assumptions=[],
    covers="theta: the bytes of serialize() are exactly the specification's serVer 3 encoding and those of serialize_v4() its "
           "serVer 4 encoding (blocks of 8 through the unrolled packers + BitPacker tail = one continuous big-endian bit stream); "
           "the independent decoder dec_spec recovers the abstract state from both; dec_spec inverts enc_spec (serVer 3 all "
           "forms, serVer 4); the translated constants (flags, versions, family id, preamble ranges, MAX_THETA, BLOCK_WIDTH) equal "
           "the specification's. Tie: dec_spec run on the crate's real serialize()/serialize_compressed() output must give the "
           "retained set, theta, emptiness and seed hash that the KMV Spec derives from the history")
