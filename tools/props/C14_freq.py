SPEC_PART = dict(
    props_file="C14_freq",
    legs=[dict(family="freq", focus="malformed", oracles=["no_panic"], profiles=["debug", "release"], n_quick=30, n_thorough=600,
               panic_is_violation=True),
          # the DRIFT_LIMIT debug assertion (known finding C14-freq-drift-limit): the op that panics in debug builds is not
          # compared with the model (mask), the rest of the case is; thorough tier only (the case takes ~40 s)
          dict(family="freq", focus="drift-image", oracles=[], profiles=["debug", "release"], mask=[0, 2, 3, 12], n_quick=0, n_thorough=1,
               panic_is_violation=True)],
    trusted=["Frequent Items: the modelled panic sites of deserialize are the shift / multiplication by lg_max_map_size, the assertion "
             "lg_cur <= lg_max, the purge path of the update loop; u64 overflow of the loaded counters is excluded by the validated "
             "inequality offset + sum(counts) <= stream_weight rather than modelled as a panic",
             "Frequent Items: size_of one table slot = 26 bytes (Option<i64> + u64 + u16) in the model's allocation prediction"],
    assumptions=["Frequent Items: usize = 64 bits"],
    covers="freq (i64 items): fc_deserialize is total and never Stuck for ANY bytes and hashes; Ok => well-formed (lg sizes in range, "
           "counters distinct / positive / within capacity, offset + counters <= weight < 2^64, probe invariant, table = the announced "
           "2^lg_cur slots) and hence round-trips; the two vectors are bounded by the input, a rejected image builds nothing. Tie: "
           "structure-aware mutations (bit/byte flips, boundary values in preamble, lg_max, lg_cur, flags, active_items, weight, offset, "
           "counts, duplicates; truncation at every offset; extension; random bytes), allocation accounted, every Ok value queried, "
           "updated through resizes and purges, merged with its round-trip copy, re-serialized. The table of a valid image is inherent "
           "in the format (known finding C14-freq-table-alloc).",
)
