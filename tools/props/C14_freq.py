SPEC_PART = dict(
    props_file="C14_freq",
    legs=[dict(family="freq", focus="malformed", oracles=["no_panic"], profiles=["debug", "release"], n_quick=30, n_thorough=600,
               panic_is_violation=True),
          # the DRIFT_LIMIT debug assertion (known finding C14-freq-drift-limit): the op that panics in debug builds is not
          # compared with the model (mask), the rest of the case is; thorough tier only (the case takes ~40 s)
          dict(family="freq", focus="drift-image", oracles=[], profiles=["debug", "release"], mask=[0, 2, 3, 12], n_quick=0, n_thorough=1,
               panic_is_violation=True),
          # mutated String images (length fields at 0, 1, remaining, remaining+1, 2^30-1, 2^31, 2^32-1; invalid UTF-8;
          # truncation; flips) and the boundary images read as u64 sketches
          dict(family="freq", focus="malformed-generic", oracles=["no_panic", "prop_generic"], profiles=["debug", "release"],
               mask=list(range(0, 13)) + list(range(20, 26)) + list(range(40, 53)), n_quick=12, n_thorough=200, panic_is_violation=True)],
    trusted=["Frequent Items: the Coq codec model and the theorems of this part are for i64 items only; u64 items are answered by the same model (same bits, same hash, same image bytes: harness ops 40..52), String images (u32 length + UTF-8 per item) are covered by crate-only checks: round trip equal on every accessor / row / re-serialized pairs, no panic, allocation proportional to the input",
             "Frequent Items: the modelled panic sites of deserialize are the shift / multiplication by lg_max_map_size, the assertion "
             "lg_cur <= lg_max, the purge path of the update loop; u64 overflow of the loaded counters is excluded by the validated "
             "inequality offset + sum(counts) <= stream_weight rather than modelled as a panic",
             "Frequent Items: size_of one table slot = 26 bytes (Option<i64> + u64 + u16) in the model's allocation prediction"],
    assumptions=["Frequent Items: usize = 64 bits",
                 "Frequent Items: operations applied to an accepted image keep the stream weight below 2^64 (the documented precondition "
                 "'total stream weight fits u64'): an image whose stream_weight is already near u64::MAX is accepted (Ok) and leaves no room - "
                 "update(1) on it overflows (debug: panic at sketch.rs stream_weight += count, release: wraps) while the model (unbounded N) "
                 "says Ok; the generator skips updates and merges there (use_value_ops: only when 2*(weight + 9n) < 2^64)"],
    covers="freq (i64 items): fc_deserialize is total and never Stuck for ANY bytes and hashes; Ok => well-formed (lg sizes in range, "
           "counters distinct / positive / within capacity, offset + counters <= weight < 2^64, probe invariant, table = the announced "
           "2^lg_cur slots) and hence round-trips; the two vectors are bounded by the input, a rejected image builds nothing. Tie: "
           "structure-aware mutations (bit/byte flips, boundary values in preamble, lg_max, lg_cur, flags, active_items, weight, offset, "
           "counts, duplicates; truncation at every offset; extension; random bytes), allocation accounted, every Ok value queried, "
           "updated through resizes and purges, merged with its round-trip copy, re-serialized. The table of a valid image is inherent "
           "in the format (known finding C14-freq-table-alloc).",
)
