SPEC = dict(
    props_file="C05",
    legs=[dict(family="cpc", oracles=["prop_ok"], profiles=["debug", "release"], n_quick=None, n_thorough=None,
               n_search=40, panic_is_violation=True)],
    level_text="Theorems (Props/C05.v) over an executable model of cpc/sketch.rs + cpc/mod.rs.",
    level_note="",
    technique="Coq proof by invariant over (row,col) streams + differential correspondence model vs crate",
    trusted=[],
    assumptions=[],
)
