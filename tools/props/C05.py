SPEC = dict(
    props_file="C05",
    legs=[dict(family="cpc", oracles=["prop_ok"], profiles=["debug", "release"], n_quick=None, n_thorough=None,
               n_search=40, panic_is_violation=True),
          # the boundary of the domain: streams that exceed the surprising-value table's capacity; the model is Stuck
          # exactly where the crate panics (the oracle demands the panic at the predicted pair and nowhere else)
          dict(family="cpc", focus="overflow", oracles=["prop_ok"], profiles=["debug", "release"], n_quick=None,
               n_thorough=None, panic_is_violation=False)],
    level_text="Theorems (Props/C05.v) over an executable model of cpc/sketch.rs + cpc/mod.rs (one Gallina function per Rust "
               "function: row_col_update with the first-interesting-column shortcut, update_sparse, promote_sparse_to_windowed, "
               "update_windowed with the inverted early zone / window byte / late zone, move_window, build_bit_matrix, "
               "determine_flavor, determine_correct_offset, update_hip and refresh_kxp in primitive binary64 floats; every "
               "debug_assert!/assert!/expect/index on the path is a Stuck outcome, incl. the capacity asserts of PairTable::rebuild). "
               "For ALL lg_k in 4..=26 and ALL streams of (row,col) pairs with 8C < 475K (the window offset stays <= 56) whose "
               "surprising values always fit the table (cpc_fits: at most 3/4 * 2^min(26, lg_k+5) = 24K pairs for lg_k <= 21, "
               "counted after every pair at the offset before and after it): the sketch never panics; "
               "build_bit_matrix returns exactly the OR-matrix of the pairs seen; num_coupons = its popcount = number of distinct "
               "pairs; window_offset = determine_correct_offset(lg_k, C) <= 56; the window exists iff flavor > Sparse; "
               "first_interesting_column <= offset and every column below it is full; validate() = true "
               "(c05_cpc_refines, by an invariant preserved by every branch, incl. window moves: c05_from_matrix_abs shows that the "
               "state rebuilt from any matrix at any offset <= 56 represents that matrix). c05_cpc_flavor_thresholds: the window "
               "moves exactly when 8C >= (27+8w)K, by one column, to the correct offset. c05_cpc_flavor_spec / "
               "c05_correct_offset_spec: closed forms of the two threshold functions. c05_hashed_pairs_valid: the pair derived "
               "from any 128-bit hash is admissible, so the public update() is covered. c05_table_capacity_needed: a crafted "
               "stream inside 8C < 475K on which the model is Stuck (table capacity) - the crate panics at the same pair; "
               "c05_table_load: the table of any represented state holds exactly the surprising values of its matrix. "
               "The model is tied to the crate by replaying generated streams (crafted column fills driving offsets 1..56 with "
               "surprising zeros/ones, right-to-left fills, geometric random pairs, hashed items; lg_k 4..12, thorough: 13..16 and "
               "sparse 21/26) in debug and release builds and comparing after every update C, offset, first interesting column, "
               "flavor, kxp and HIP accumulator BIT-FOR-BIT, and at every window move/promotion the full state (window bytes, sorted "
               "table, bit matrix, validate, estimate); the oracle re-derives all of it from the exact set of pairs.",
    level_note="Trusted: Coq kernel (incl. primitive floats/int63), translator (the integer literals of the nine modelled Rust "
               "function bodies, MIN/MAX_LG_K, KXP_BYTE_TABLE, INVERSE_POWERS_OF_2 are re-read on every run; c05_literals_manifest "
               "breaks when one changes), harness/driver, pyref MurmurHash3 (checked in C16). NOT verified: PairTable's slot "
               "layout (linear probing with deletion, re-insertion, grow/shrink) is modelled as a finite set (duplicate-free list); "
               "its agreement with the crate is exercised by the correspondence run only (sorted table contents after deletions "
               "inside clusters). Arithmetic is unbounded N in the theorems: the u32 shifts of determine_flavor are the subject of "
               "C17. kxp/hip are executed and compared bit-for-bit but no theorem is stated about their values here (C01).",
    technique="Coq proof by invariant (representation relation state -> bit matrix, three column zones) over all (row,col) "
              "streams and all lg_k + differential correspondence model vs crate (debug+release) + exact-set oracle",
    trusted=["(row,col) of hashed items are computed by tools/pyref.py (reference MurmurHash3, cross-checked in C16); the model "
             "consumes h1,h2 and derives the pair itself (row_col_of_hash), the crate hashes the item",
             "PairTable (cpc/pair_table.rs) slot layout is modelled as a finite set, not verified; its capacity limit "
             "(rebuild asserts lg_size <= 26 and lg_size + 1 <= lg_k + 6) IS modelled (Stuck) and is a hypothesis of the theorems; "
             "a second leg generates streams that exceed it and demands the panic on both sides at the predicted pair",
             "u32/u64 overflow is outside the C05 theorems (unbounded N); see C17 for determine_flavor / determine_pseudo_phase"],
    assumptions=["lg_k in 4..=26; every pair has row < K and is not the code u32::MAX (true for every pair update() derives from a hash)",
                 "8 * num_coupons < 475 * K (C < 59.375 K): beyond it the correct window offset exceeds 56 and the crate, like "
                 "Java/C++, asserts; unreachable by hashing",
                 "cpc_fits: after every pair the number of surprising values (all coupons while sparse; zeros before + ones after "
                 "the window otherwise, at the offset before the pair and at the correct offset after it) is at most "
                 "3/4 * 2^min(26, lg_k + 5) (24 K pairs for lg_k <= 21): beyond it PairTable::rebuild asserts (Java/C++ have the "
                 "same limit); unreachable by hashing, reachable by crafted (row,col) streams (c05_table_capacity_needed)"],
)
