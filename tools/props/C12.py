SPEC = dict(
    props_file="C12",
    legs=[dict(family="countmin", oracles=["prop_layout"], profiles=["debug"], n_quick=120, n_thorough=1200, panic_is_violation=True)],
    level_text="Theorems (Props/C12.v and its parts Props/C12_<family>.v): for every well-formed state the bytes emitted by the modelled writer are decoded by an "
               "independent layout decoder (Spec/*Layout.v, constants written as literals from the format description) to exactly the "
               "abstract state; the constants translated from the Rust source equal the specification's. Tie: the spec decoder is run on "
               "the crate's real serialize() output and compared with the exact abstract state the Spec computes from the history.",
    level_note="Trusted: my reading of the DataSketches Java/C++ formats (DESIGN.md Appendix A). The base file holds the Count-Min statements; the other families are parts (covered / NOT covered families are listed at the end of this note).",
    technique="Coq conformance theorem writer-vs-layout-spec + spec decoder run on crate output",
    trusted=["format specification = my reading of the published Java/C++ layouts (no upstream files available offline)"],
    assumptions=[],
)
