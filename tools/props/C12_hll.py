SPEC_PART = dict(
    props_file="C12_hll",
    legs=[dict(family="hll", focus="layout", oracles=["layout_ok"], profiles=["debug"], mask=[1, 2, 3, 4, 5, 7, 8, 30, 31],
               n_quick=40, n_thorough=500, panic_is_violation=True)],
    trusted=["hll format = my reading of the Java/C++ layout (DESIGN.md Appendix A; Spec/HllLayout.v): 8/12/40-byte preambles, "
             "flags EMPTY 4 / COMPACT 8 / OUT_OF_ORDER 16, mode byte = curMode | tgtType << 2, coupons value << 26 | slot, Hll4 low "
             "nibble = even slot with 15 = exception, Hll6 slot s at bit 6s, compact aux = auxCount coupons; no upstream files offline"],
    assumptions=[],
    covers="hll: model_enc_conforms proved -- for every well-formed sketch (SrcOK: built, merged, deserialized-canonical) and in "
           "particular every state reachable by updates (all lg_k, types, modes) the independent decoder hll_spec_decode "
           "(Spec/HllLayout.v) applied to hll_serialize s returns the sketch's abstract state (image_shows): lg_k, type, mode, the "
           "out-of-order flag, the coupon set (list / set) or -- for all three array types -- the k register values read through Hll4 "
           "nibbles + exception list / the Hll6 bit string / Hll8 bytes, a cur_min byte that is a lower bound of the registers (0 for "
           "Hll6 / Hll8) and num_at_cur_min = the number of registers at cur_min (c12_hll_image_conforms(_of_stream)); for Hll4 also "
           "the exact cur_min, num_at_cur_min and exception list of the Array4 (c12_hll_array4_image); the translated constants are "
           "the specification's (c12_hll_layout_glue). NOT in a theorem: the three binary64 fields hip_accum / kxq0 / kxq1 (compared "
           "bit for bit with the model's image by the correspondence run, op 7) and the aux-count field outside Hll4. Tie: "
           "Spec/HllLayout.v hll_spec_decode (written from the format description, independent of the model) applied to the "
           "crate's serialize() output must give exactly the Spec state of the stream: lg_k, type, mode as a function of the number "
           "of distinct coupons, out-of-order flag clear, the coupon set / the per-slot maxima, cur_min = smallest register, "
           "num_at_cur_min, the exceptions, the COMPACT flag on array images (repaired defect C12-hll-array-compact-flag), and the "
           "exact image size; any panic is a violation.",
)
