SPEC_PART = dict(
    props_file="C12_hll",
    legs=[dict(family="hll", focus="layout", oracles=["layout_ok"], profiles=["debug"], mask=[1, 2, 3, 4, 5, 7],
               n_quick=40, n_thorough=500)],
    trusted=[], assumptions=[], covers="hll: placeholder",
)
