SPEC_PART = dict(
    props_file="C18_bloom",
    legs=[dict(family="bloom", focus="size", oracles=["prop_layout"], profiles=["debug"], n_quick=16, n_thorough=48, panic_is_violation=True)],
    trusted=["bloom: ops 18 (clone probe) and 19 (round-trip check) are answered by the model with a constant justified by a theorem (no false negatives; round trip + size formula): they are Spec checks on the crate (plus panic detection), not model-vs-crate comparisons of computed positions / bytes; op 19 is used by C17's legs; the C18 leg compares whole images (op 9); used for filters with thousands of hash functions and for 2^20-bit filters"],
    assumptions=[],
    covers="bloom: |serialize f| = 24 (empty) or 32 + 8 * words for ANY filter (c18_bloom_image_size); after any history the word "
           "count is ceil(num_bits / 64) of the constructor argument (c18_bloom_size_fixed_by_constructor); tie: serialize().len() "
           "of the crate checked against the formula (and the content against the Spec) after every power-of-two prefix of growing "
           "streams (distinct, repeated, descending items; up to 2^13 items quick, 2^16 thorough, shorter for large filters)",
)
