SPEC = dict(
    props_file="C04",
    legs=[dict(family="theta", oracles=["kmv_ok", "layout_ok"], profiles=["debug", "release"],
               mask=[1, 2, 3, 4, 5, 6, 7, 9, 10], n_quick=110, n_thorough=1500, panic_is_violation=True)],
    level_text="Theorems (Props/C04.v) over an executable model of theta/hash_table.rs + ThetaSketch (slot array, odd-stride open "
               "addressing, resize, rebuild, trim, reset, compact) that takes the 63-bit hash as input: for all lg_k 5..26, all four "
               "resize factors, every sampling probability and every history of update(any hash)/trim/reset/compact, the retained "
               "entries are exactly the distinct offered hashes in (0, theta) (no duplicates, count field exact); theta never "
               "increases and is below its initial value only after more than k qualifying distinct hashes; while theta is initial "
               "the sketch holds every qualifying hash and for p = 1 the binary64 estimate equals the count exactly (x / 1.0 = x via "
               "Flocq), in every mode the estimate of a non-empty sketch is a finite f64 >= the retained count (no closeness bound for "
               "the doubly rounded quotient is stated); trim leaves exactly the k smallest with theta = the (k+1)-th; reset = fresh state; compact(ordered) has the "
               "same entries, count, emptiness, bit-identical estimate, theta (when non-empty), is strictly sorted whenever it says "
               "ordered; no history reaches a panic site because find_in_entries always succeeds (open-addressing invariant, "
               "n <= capacity < size); n <= 15/16 * 2^(lg_k+1). Refinement: after every history (lg_cur, theta, sorted entries, is_empty) "
               "equal the run of a pure set machine (Spec/ThetaKmv.v) in which theta is defined by the rebuild rule. The order in "
               "which rebuild re-inserts the k smallest entries (unspecified by select_nth_unstable) is a parameter: every theorem "
               "holds for every order, and two orders reach the same abstract state. Tie: the model must reproduce "
               "every observation of the crate (n, theta, lg_cur, sorted entries, flags, estimates bit for bit, compact's fields, "
               "serialized bytes, raw slot array before the first rebuild) on generated histories in debug and release builds, and an "
               "independent exact-set oracle (plus a probe-path oracle on the crate's raw slot array) judges the crate's observations.",
    level_note="Trusted: Coq kernel, translator (constants and the literals of get_stride/hash_and_screen), harness/driver, pyref "
               "MurmurHash (checked in C16). After a rebuild the crate's slot ORDER depends on std's select_nth_unstable: it is not "
               "mirrored (the model re-inserts ascending; sets are compared, and the crate's own layout is judged by the probe-path "
               "oracle); the theorems cover every order. The binomial confidence bounds (ln/sqrt loops) are not modelled here (C01). "
               "The model is the repaired code (is_empty is a flag cleared by the first offered value: /repo fix f99d068).",
    technique="Coq proof by invariant over operation histories (open-addressing layout invariant + KMV set invariant, finite "
              "binary64 sweep for the capacity expression, Flocq for the exact-mode estimate) + differential correspondence model vs "
              "crate with an independent set oracle",
    trusted=["hashes are inputs of the model: items are hashed by the crate, the reference hash (tools/pyref.py MurmurHash3, "
             "cross-checked in C16) is handed to the model; crafted hashes enter through 16-byte MurmurHash pre-images (public "
             "update) or the hook verif_insert_hash",
             "std's select_nth_unstable/sort_unstable are taken to return a permutation with the documented partition/order property",
             "u64/usize width: hashes offered through update() are 63-bit; the model works on unbounded N and never relies on wrap-around"],
    assumptions=["the seed's 16-bit seed hash is not zero (ThetaSketchBuilder::seed() panics otherwise, documented since /repo "
                 "fix 1641259; about one seed in 65536, e.g. 50541)",
                 "lg_k in 5..=26 and a ResizeFactor of the enum (the builder asserts lg_k; sampling_probability in (0,1] is asserted "
                 "by the builder but not needed by the theorems)"],
)
