SPEC = dict(
    props_file="C04",
    legs=[dict(family="theta", oracles=["kmv_ok", "layout_ok"], profiles=["debug", "release"],
               mask=[1, 2, 3, 4, 5, 6, 7, 9, 10], n_quick=110, n_thorough=1500, panic_is_violation=True)],
    level_text="TBD",
    level_note="TBD",
    technique="Coq proof by invariant over operation histories + differential correspondence model vs crate",
    trusted=[],
    assumptions=[],
)
