SPEC_PART = dict(
    props_file="C11_freq",
    legs=[dict(family="freq", focus="codec", oracles=["prop_roundtrip"], profiles=["debug", "release"], n_quick=40, n_thorough=600,
               panic_is_violation=True)],
    trusted=["Frequent Items: the slot-level model of ReversePurgeItemHashMap (probing, back-shift deletion, iteration stride) is tied by "
             "the byte-for-byte / observation-for-observation correspondence run; the probe invariant is proved for insertions "
             "(what deserialize does), not for deletions during a purge",
             "Frequent Items: item hashes are supplied by tools/pyref.py (reference MurmurHash3, cross-checked in C16)"],
    assumptions=["Frequent Items: fewer than 2^32 active items (active_items is a u32 in the image); total stream weight < 2^64; i64 items"],
    covers="freq (i64 items): deserialize(serialize(c)) = Ok c' with the same lg sizes, capacities, offset, weight and the same counters as a "
           "finite map (every lookup in the rebuilt table returns c's count), c' well-formed with a table satisfying the probe invariant; "
           "every abstract state reachable in C07's sense is well-formed (partial: the concrete bookkeeping of the crate's table is the "
           "lock-step check). The image does not carry the slot layout: twins may diverge after the next purge "
           "(proved witness c11_freq_layout_not_carried; known finding C11-freq-layout-not-carried). Tie: fork through "
           "serialize/deserialize, then identical queries / frequent_items / canonical images / updates crossing resizes and purges / "
           "merges / reset on both twins, debug and release.",
)
