SPEC_PART = dict(
    props_file="C11_freq",
    legs=[dict(family="freq", focus="codec", oracles=["prop_roundtrip"], profiles=["debug", "release"], n_quick=40, n_thorough=600,
               panic_is_violation=True),
          # String and u64 sketches: round trips after real streams (String: judged on the crate's observations, ops 31..34
          # are outside the model comparison; u64: the i64 model on the same bits)
          dict(family="freq", focus="codec-generic", oracles=["prop_generic"], profiles=["debug", "release"],
               mask=list(range(0, 13)) + list(range(20, 26)) + list(range(40, 53)), n_quick=12, n_thorough=200, panic_is_violation=True)],
    trusted=["Frequent Items: the Coq codec model and the theorems of this part are for i64 items only; u64 items are answered by the same model (same bits, same hash, same image bytes: harness ops 40..52), String images (u32 length + UTF-8 per item) are covered by crate-only checks: round trip equal on every accessor / row / re-serialized pairs, no panic, allocation proportional to the input",
             "Frequent Items: the slot-level model of ReversePurgeItemHashMap (probing, back-shift deletion, iteration stride) is tied by "
             "the byte-for-byte / observation-for-observation correspondence run; the probe invariant is proved for insertions "
             "(what deserialize does), not for deletions during a purge",
             "Frequent Items: item hashes are supplied by tools/pyref.py (reference MurmurHash3, cross-checked in C16)"],
    assumptions=["Frequent Items: no probe run of the hash map is longer than the drift limit (1024 occupied slots in debug builds: debug_assert; 65535 in release builds: the u16 drift wraps beyond and lookups go wrong) - needs items chosen for their hashes; known findings C17-freq-drift-limit / C14-freq-drift-limit", "Frequent Items: fewer than 2^32 active items (active_items is a u32 in the image); total stream weight < 2^64; i64 items"],
    covers="freq (i64 items): deserialize(serialize(c)) = Ok c' with the same lg sizes, capacities, offset, weight and the same counters as a "
           "finite map (every lookup in the rebuilt table returns c's count), c' well-formed with a table satisfying the probe invariant; "
           "every abstract state reachable in C07's sense is well-formed (partial: the concrete bookkeeping of the crate's table is the "
           "lock-step check). The image does not carry the slot layout: twins may diverge after the next purge "
           "(proved witness c11_freq_layout_not_carried; known finding C11-freq-layout-not-carried). Tie: fork through "
           "serialize/deserialize, then identical queries / frequent_items / canonical images / updates crossing resizes and purges / "
           "merges / reset on both twins, debug and release.",
)
