SPEC_PART = dict(
    props_file="C11_cpc",
    legs=[dict(family="cpc", focus="codec", oracles=["prop_ok"], profiles=["debug", "release"], n_quick=None, n_thorough=None,
               mask=[0, 1, 2, 3, 4, 5, 6, 7, 8, 18], panic_is_violation=True),
          dict(family="cpc", focus="union", oracles=["union_ok"], profiles=["debug"], n_quick=20, n_thorough=150,
               mask=[10, 11, 12, 13, 14, 15, 16, 20, 21, 22, 23], panic_is_violation=True)],
    trusted=["cpc: only the symbol-level coders are modelled and proved (Model/CpcCodec.v over the translated tables); the framing "
             "into u32 words, the buffer sizes (safe_length_*), the hybrid merge, the pinned 8-column shift and the order in which "
             "PairTable::unwrapping_get_items yields its items are tied by the correspondence run only",
             "cpc: in the correspondence run the model treats serialize+deserialize as the identity (that IS the property); the "
             "crate's copy must then reproduce every later observation of the model"],
    assumptions=["cpc: sketches inside the C05 domain (lg_k 4..26, 8C < 475K)"],
    covers="cpc (PARTIAL: symbol-level coders + twin run; there is NO theorem deserialize(serialize(s)) = s for a CPC sketch, no Coq model of CompressedState::compress / uncompress, of the word framing of the two streams, nor of the reader; the whole-image round trip is an observation of the crate against a model in which the round trip is the identity). Proved, for the tables translated on this run - each of the 22 Huffman codes is prefix-free and its 4096-entry decoding "
           "table inverts its encoding table on every 12-bit window (c11_cpc_huffman_symbol), hence any window-byte sequence "
           "followed by anything decodes to itself (c11_cpc_window_roundtrip); the same for the length-limited unary code of column "
           "deltas (c11_cpc_unary65_symbol) and for a whole pair: unary column delta + unary/Golomb row delta with any number of base "
           "bits (c11_cpc_pair_roundtrip); the 16 column permutations are inverse to each other and the Sliding flavor's rotate+permute "
           "is undone for every offset <= 56 (c11_cpc_perm_inverse, c11_cpc_slide_col_roundtrip, c11_cpc_sliding_phase_lt_16). Tie: "
           "deserialize(serialize(s)) on the crate for every flavor (lg_k 4..12, sparse 21; complete-column sketches without "
           "surprising values; long hashed streams; merged union results), after which the copy must show the same num_coupons, "
           "offset, first interesting column, window, sorted table, bit matrix, validate, and - continuing the update stream - the "
           "same kxp and HIP accumulator bit-for-bit as the model that never serialized",
)
