SPEC = dict(
    props_file="C17",
    legs=[dict(family="countmin", focus="extremes", oracles=["prop_ok", "prop_layout", "no_panic"], profiles=["debug", "release"],
               n_quick=100, n_thorough=1000, panic_is_violation=True)],
    level_text="Theorems (Props/C17.v and its parts): per family, the model - with the crate's fixed-width arithmetic written out where the "
               "crate uses narrow types (Stuck on overflow = the debug profile's overflow check) - never reaches a modelled panic site on any "
               "valid program over the public API (constructor arguments in their documented ranges, compatible merge partners, decay "
               "factors in (0,1], total weight fitting the counter type), for all programs and all configurations. Tie: valid histories at "
               "the documented configuration extremes are run on the crate built with debug-assertions + overflow-checks and on the release "
               "build, every operation under catch_unwind; ANY panic is a violation, the model must reproduce every observation in both "
               "profiles (so release wrap-around would show as a difference), and the family's property oracle is evaluated as well.",
    level_note="Partial by nature (DESIGN.md section 5, C17): the theorem is 'the model is never stuck'; panics inside std, stack depth and "
               "allocator behaviour are observed by the harness, not modelled. Families covered are listed in the parts "
               "(Props/C17.v: Count-Min; Props/C17_<family>.v).",
    technique="Coq no-stuck theorems over API programs (invariant: cells <= total <= weight fed in <= T::MAX) + panic-is-violation "
              "differential testing in debug and release at configuration extremes",
    trusted=["the set of modelled panic sites is what I read in the Rust sources: countmin: the constructor's four assertions (incl. seed hash 0), "
             "the merge compatibility assertion, every `+` on the counter type (tadd: Stuck on overflow); table indexing is total in the model "
             "(nthN / set_nthN) and covered by the separate conjunct 'every index lies inside the table' of c17_countmin_no_valid_program_is_stuck; "
             "decay's assert!(0 < d <= 1) is the hypothesis pok (monotone scaling that never grows; for the crate's clamped decay only monotonicity of "
             "the float part is assumed, checked per run by the oracles)",
             "countmin: weights are non-negative in the model (negative weights of signed counter types are outside it)"],
    assumptions=["countmin: num_hashes >= 1, num_buckets >= 3, num_hashes*num_buckets < 2^30; merge partners have the same configuration; "
                 "decay factor in (0,1]; the sum of all weights fed into a sketch (including merged partners, before any halving/decay) fits the "
                 "counter type (for the signed types this excludes a weight of T::MIN, whose absolute value does not fit: update_with_weight(x, T::MIN) "
                 "overflows in abs(): debug panic, same precondition class); the seed's 16-bit hash is not 0 (documented constructor panic; deserialize_with_seed with such a seed panics on its "
                 "argument and is outside the model)"],
)
