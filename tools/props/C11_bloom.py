SPEC_PART = dict(
    props_file="C11_bloom",
    legs=[dict(family="bloom", focus="codec", oracles=["prop_roundtrip", "prop_ok"], profiles=["debug", "release"],
               n_quick=120, n_thorough=1500, panic_is_violation=True)],
    trusted=["bloom codec model (Model/Bloom.v: bf_serialize / bf_parse_header / bf_deserialize) written by hand from bloom/sketch.rs; "
             "tied by byte-for-byte comparison of serialize() output and of deserialize() outcomes"],
    assumptions=["bloom: filters built by BloomFilterBuilder within its documented ranges (size_ok), operands of union/intersect compatible"],
    covers="bloom: deserialize(serialize f) = Ok f for every well-formed filter (c11_bloom_roundtrip), every reachable filter "
           "(all histories over insert, contains_and_insert, union, intersect, invert, reset, round trip; all configurations; arbitrary "
           "digests) is well formed (c11_bloom_reachable_roundtrip); twin oracle on the crate: a filter forked through "
           "serialize/deserialize (and a copy of the copy) answers contains / bits_used / info / is_compatible identically, "
           "re-serializes to identical bytes and behaves identically under further inserts, unions, intersections, invert, reset",
)
