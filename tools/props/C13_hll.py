SPEC_PART = dict(
    props_file="C13_hll",
    legs=[dict(family="hll", focus="foreign", oracles=["foreign_ok"], profiles=["debug", "release"],
               mask=[2, 3, 7, 8, 9], n_quick=150, n_thorough=2000)],
    trusted=["hll format variants = my reading of the Java/C++ writers (DESIGN.md Appendix A): compact / updatable list and set, "
             "array images with or without COMPACT and OUT_OF_ORDER, Hll4 cur_min > 0 with a compact aux list, lgArr byte 0 or "
             "lgAuxArrInts; the updatable Hll4 aux table is generated too (known finding); no upstream files offline",
             "hll: the generator's spec encoder (tools/families/hll.py enc_list / enc_set / enc_hll, Java-compatible table builders) is "
             "independent of the crate and of the model; Spec/HllLayout.v hll_spec_decode judges the crate's answer"],
    assumptions=[],
    covers="hll: both list variants are read back to the list they encode (c13_hll_list_variants_partial) and every Hll8 array "
           "variant -- any flags byte, lgArr byte, numAtCurMin / auxCount fields -- to its k register bytes, recomputed num_zeros and "
           "the flag's out-of-order state (c13_hll_hll8_variants_partial): proved; for set "
           "(compact in any order / updatable table with colliding probe sequences) and the other array variants (Hll4/6 x COMPACT x "
           "OUT_OF_ORDER x cur_min > 0 x smallest-possible exception x lgArr byte) the claim is checked, not proved: each spec-encoded "
           "image must be accepted and the dumped state must be exactly what the independent decoder reads from the same bytes "
           "(mode, lg_k, type, coupon set / registers, flag, cur_min, exceptions, kxq, hip); then the sketch is queried, re-serialized, "
           "updated and round-tripped in lock step with the model. Defect D4 (registers skipped under COMPACT) was found here and "
           "repaired. Known finding C13-hll-updatable-hll4-aux: updatable Hll4 images with a hash-table aux area are rejected.",
)
