SPEC_PART = dict(
    props_file="C13_hll",
    legs=[dict(family="hll", focus="foreign", oracles=["foreign_ok"], profiles=["debug", "release"],
               mask=[2, 3, 7, 8, 9], n_quick=150, n_thorough=2000)],
    trusted=[], assumptions=[], covers="hll: placeholder",
)
