SPEC_PART = dict(
    props_file="C13_hll",
    legs=[dict(family="hll", focus="foreign", oracles=["foreign_ok"], profiles=["debug", "release"],
               mask=[2, 3, 4, 5, 7, 8, 9, 30, 31], n_quick=150, n_thorough=2000, panic_is_violation=True)],
    trusted=["hll format variants = my reading of the Java/C++ writers (DESIGN.md Appendix A): compact / updatable list and set, "
             "array images with or without COMPACT and OUT_OF_ORDER, Hll4 cur_min > 0 with a compact aux list, lgArr byte 0 or "
             "lgAuxArrInts; the updatable Hll4 aux table is generated too (known finding); no upstream files offline",
             "hll: the generator's spec encoder (tools/families/hll.py enc_list / enc_set / enc_hll, Java-compatible table builders) is "
             "independent of the crate and of the model; Spec/HllLayout.v hll_spec_decode judges the crate's answer",
             "hll: estimate() / bounds of OUT-OF-ORDER images run the composite estimator, which the model does not contain: they are "
             "called on the crate only (op 32) and judged by the oracle (seven numbers, the estimate neither NaN nor negative)"],
    assumptions=[],
    covers="hll: both list variants are read back to the list they encode (c13_hll_list_variants_partial) and every Hll8 array "
           "variant of the SPEC encoder Spec.HllLayout.enc_hll_pre -- COMPACT set or not, OUT_OF_ORDER set or not, any lgArr / curMin "
           "byte, any numAtCurMin / auxCount field, trailing bytes, finite non-negative estimator fields -- to its k register bytes, "
           "recomputed num_zeros, the flag's out-of-order state, the encoded kxq0 / kxq1 and the encoded HIP accumulator (zero when "
           "out of order) (c13_hll_hll8_variants_partial): proved; for set (compact in any order / updatable table with colliding "
           "probe sequences, incl. the fullest valid table of 3/4 size followed by novel updates) and the other array variants (Hll4/6 x COMPACT x OUT_OF_ORDER x cur_min > 0 x smallest-possible "
           "exception x lgArr byte) the claim is checked, not proved: each spec-encoded image must be accepted and the dumped state "
           "must be exactly what the independent decoder reads from the same bytes (mode, lg_k, type, coupon set / registers, flag, "
           "cur_min, exceptions, kxq, hip); then, in lock step with the model (ops in the mask): estimate and six bounds (in-order "
           "images; out-of-order ones on the crate only, see trusted), the image written back, its re-serialization (op 31), the "
           "merge into a fresh union (op 30: the oracle requires the union to show the image's registers / coupon set), further "
           "updates, the state after them, a round trip and the state after it. Defect D4 (registers skipped under COMPACT) was found "
           "here and repaired. Known finding C13-hll-updatable-hll4-aux: updatable Hll4 images with a hash-table aux area are "
           "rejected. Any panic is a violation (debug + release).",
)
