SPEC_PART = dict(
    props_file="C14_tdigest",
    legs=[dict(family="tdigest", focus="malformed", oracles=["no_panic"], profiles=["debug", "release"],
               mask=[15, 21], n_quick=400, n_thorough=5000, panic_is_violation=True)],
    trusted=[], assumptions=[], covers="tdigest: TBD")
