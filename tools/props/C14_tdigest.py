SPEC_PART = dict(
    props_file="C14_tdigest",
    legs=[dict(family="tdigest", focus="malformed", oracles=["no_panic"], profiles=["debug", "release"],
               mask=[15, 21], n_quick=400, n_thorough=5000, panic_is_violation=True)],
    trusted=["tdigest: the harness grants the configuration-sized reservation of make() (48 * (2k + fudge) bytes for the k the image "
             "announces) on top of 64 * len + 1 MiB when it judges the allocation of a parse"],
    assumptions=["tdigest: using an accepted digest whose total weight is within a few units of u64::MAX overflows the weight counter on "
                 "the next update + compression (known finding tdigest-C14-weight-capacity); follow-up updates/merges are exercised for "
                 "totals below 2^62"],
    covers="tdigest: the modelled readers (both flavours + reference formats) never return Stuck on ANY byte string -- Stuck models ONE "
           "site, assert!(k >= 10) in TDigestMut::make, reached by every Ok exit; cursor reads are total (Err on short input) and the "
           "weight sums are the checked ones, so beyond that site the theorem is totality of the model, and overflow / indexing / "
           "allocation failure in the real reader are observed by the harness only; accepted states are well-shaped (k >= 10, finite "
           "values, weights >= 1, checked totals, items present in the input; NOT: sorted means or means inside [min,max], which the "
           "reader does not check -- Props/C17_tdigest.v gives the usable-state theorem under that extra boolean check); the allocation "
           "requests are RETURNED BY THE MODELLED READER (tdb_dec_req, proved to have the reader's outcome): at most 2 bytes per input "
           "byte + 1,048,560 (the reference float format reserves 16 bytes per u16-counted centroid before any length check) "
           "(Props/C14_tdigest.v); an image without centroids and buffered values no longer keeps its min/max (fixed defect "
           "tdigest-C13-no-items-extremes, ec17cff); tie: mutated images of every variant (bit/byte flips, boundary counts, k and "
           "flags, truncation, extension, random bytes, NaN/inf/zero/huge fields, wrong flavour) -> Ok/Err class equal to the model's, no "
           "panic, no allocation beyond 64*len + 1 MiB + c0(k); every accepted digest is queried, dumped, round-tripped, updated and merged")
