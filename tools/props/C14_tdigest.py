SPEC_PART = dict(
    props_file="C14_tdigest",
    legs=[dict(family="tdigest", focus="malformed", oracles=["no_panic"], profiles=["debug", "release"],
               mask=[15, 21], n_quick=400, n_thorough=5000, panic_is_violation=True)],
    trusted=["tdigest: the harness grants the configuration-sized reservation of make() (48 * (2k + fudge) bytes for the k the image "
             "announces) on top of 64 * len + 1 MiB when it judges the allocation of a parse"],
    assumptions=["tdigest: using an accepted digest whose total weight is within a few units of u64::MAX overflows the weight counter on "
                 "the next update + compression (known finding tdigest-C14-weight-capacity); follow-up updates/merges are exercised for "
                 "totals below 2^62"],
    covers="tdigest: the modelled readers (both flavours + reference formats) never reach a panic site on ANY byte string, accept only "
           "well-shaped states (k >= 10, finite values, weights >= 1, checked totals, items present in the input) and request at most "
           "2 bytes per input byte (Props/C14_tdigest.v); tie: mutated images of every variant (bit/byte flips, boundary counts, k and "
           "flags, truncation, extension, random bytes, NaN/inf/zero/huge fields, wrong flavour) -> Ok/Err class equal to the model's, no "
           "panic, no allocation beyond 64*len + 1 MiB + c0(k); every accepted digest is queried, dumped, round-tripped, updated and merged")
