SPEC_PART = dict(
    props_file="C11_hll",
    legs=[dict(family="hll", focus="codec", oracles=["twin_ok", "prop_ok"], profiles=["debug", "release"],
               mask=[1, 2, 3, 4, 5, 7, 8, 30, 31], n_quick=40, n_thorough=500, panic_is_violation=True)],
    trusted=["hll: Model/HllCodec.v mirrors HllSketch::serialize / deserialize by hand; tied byte for byte (serialize) and state for "
             "state (deserialize, then every further observation) by the correspondence run",
             "hll: the bit-cast identity float_of_bits (bits_of_float f) = f for the three f64 fields of array images is not proved "
             "(est_reread); the correspondence run compares hip/kxq0/kxq1 of original and copy bit for bit",
             "hll: est_ok (the estimator fields of the sketch, written and decoded again, are finite and non-negative, so that the "
             "reader's check of fix 08d9c35 accepts the sketch's own image) is a HYPOTHESIS of the round-trip theorems; true of "
             "every sketch the crate builds, not proved (binary64 sums); exhibited on concrete sketches (c11_hll_example) and "
             "checked on every image of the correspondence run (op 8 / op 31 must not return Err)"],
    assumptions=["hll: coupons with a value field in 1..63; 4 <= lg_k <= 21", "hll: est_ok (see trusted)"],
    covers="hll (all modes / types): deserialize(serialize(s)) = Ok s' for every well-formed sketch with est_ok, in particular every "
           "state reachable by updates, with s' = s in list mode (8 slots, same coupons: the repaired defect D1), the same coupon set "
           "/ lg size / count and a valid rebuilt table in set mode, the Array4 invariant for the same register file / cur_min / "
           "num_at_cur_min in Hll4, the same registers and num_zeros in Hll6/Hll8; the estimator of the copy is est_reread of the "
           "original's: kxq0 / kxq1 decoded again, the out-of-order flag kept, the HIP accumulator decoded again for an in-order "
           "sketch and ZERO for an out-of-order one (the reader's set_out_of_order). The copy is again a well-formed source "
           "(c11_hll_copy_is_wellformed, all modes incl. Hll6), and 'the copy behaves identically under further updates' is "
           "c11_hll_copy_same_under_updates: original and copy, fed the same further coupons, are never stuck and keep the same "
           "lg_k, mode, count, coupon set and registers (via c11_hll_source_updates / _abs: the update theorems of C02 from ANY "
           "well-formed source, not only from a fresh sketch). The bridge c11_hll_deserialized_is_source: what the reader returns "
           "for a canonical image is a well-formed source. NOT proved: equality of the estimator VALUES of original and copy "
           "(bit-cast identity) and byte-identical re-serialization in general -- checked: op 31 on every sketch (both twins) and "
           "op 22 on union results require serialize(deserialize(serialize s)) = serialize s, byte for byte when the image lists "
           "no Hll4 exceptions, up to the order of the exception list otherwise (the aux table is rebuilt); fix e763c00 came from "
           "this check. Tie: twins -- group 0 forked through serialize/deserialize at random points of the stream, group 1 not; "
           "dumps, estimates, bounds, images (exception list order-normalised, exceptions included) and the merge of the sketch into "
           "a fresh union taken at the same positions must be identical across the twins and equal to the Spec, through promotions, "
           "set growth, cur_min shifts and aux exceptions after the fork (debug + release; any panic is a violation).",
)
