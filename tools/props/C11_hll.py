SPEC_PART = dict(
    props_file="C11_hll",
    legs=[dict(family="hll", focus="codec", oracles=["twin_ok", "prop_ok"], profiles=["debug", "release"],
               mask=[1, 2, 3, 4, 5, 7, 8], n_quick=40, n_thorough=500)],
    trusted=[], assumptions=[], covers="hll: placeholder",
)
