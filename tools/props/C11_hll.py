SPEC_PART = dict(
    props_file="C11_hll",
    legs=[dict(family="hll", focus="codec", oracles=["twin_ok", "prop_ok"], profiles=["debug", "release"],
               mask=[1, 2, 3, 4, 5, 7, 8], n_quick=40, n_thorough=500)],
    trusted=["hll: Model/HllCodec.v mirrors HllSketch::serialize / deserialize by hand; tied byte for byte (serialize) and state for "
             "state (deserialize, then every further observation) by the correspondence run",
             "hll: the bit-cast identity float_of_bits (bits_of_float f) = f for the three f64 fields of array images is not proved "
             "(est_reread); the correspondence run compares hip/kxq0/kxq1 of original and copy bit for bit"],
    assumptions=["hll: coupons with a value field in 1..63; 4 <= lg_k <= 21"],
    covers="hll (all modes / types): deserialize(serialize(s)) = Ok s' for every well-formed sketch, in particular every state "
           "reachable by updates, with s' = s in list mode (8 slots, same coupons: the repaired defect D1), the same coupon set / lg "
           "size / count and a valid rebuilt table in set mode, the Array4 invariant for the same register file / cur_min / "
           "num_at_cur_min in Hll4, the same registers and num_zeros in Hll6/Hll8, the out-of-order flag kept; the copy is again a "
           "well-formed representation of the same abstract state, so C02's update theorems and C03's merge theorems apply to it "
           "(partial for Hll6: the padding byte; estimator floats modulo the unproved bit-cast identity). Tie: twins -- group 0 forked "
           "through serialize/deserialize at random points of the stream, group 1 not; dumps, estimates, bounds and re-serialized images "
           "taken at the same positions must be identical across the twins and equal to the Spec, through promotions, set growth, "
           "cur_min shifts and aux exceptions after the fork (debug + release).",
)
