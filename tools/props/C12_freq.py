SPEC_PART = dict(
    props_file="C12_freq",
    legs=[dict(family="freq", focus="layout", oracles=["prop_layout"], profiles=["debug"], n_quick=30, n_thorough=400,
               panic_is_violation=True)],
    trusted=["Frequent Items: the Coq codec model and the theorems of this part are for i64 items only; u64 items are answered by the same model (same bits, same hash, same image bytes: harness ops 40..52), String images (u32 length + UTF-8 per item) are covered by crate-only checks: round trip equal on every accessor / row / re-serialized pairs, no panic, allocation proportional to the input",
             "Frequent Items format = my reading of the Java/C++ layout (DESIGN.md Appendix A): 8-byte empty image, 4-long preamble, "
             "counts then items; no upstream files available offline"],
    assumptions=[],
    covers="freq (i64 items): spec_decode (fc_serialize c) = Some (abs c) for every well-formed sketch; translated constants = "
           "specification constants (preamble longs 1/4, serial version 1, family 10, empty-flag mask 5 = bits 0 and 2); the spec "
           "decoder inverts the spec encoder for every variant. Tie: Spec/FreqLayout.v spec_decode run on the crate's real serialize() "
           "output: weight exact, every (item, count) brackets the exact frequency with the image's offset, items distinct, "
           "counters <= capacity of the announced current map, size 8 | 32 + 16 n.",
)
