SPEC_PART = dict(
    props_file="C12_tdigest",
    legs=[dict(family="tdigest", focus="layout", oracles=["codec_ok", "foreign_ok"], profiles=["debug"],
               mask=[0, 1, 7, 8, 9, 10, 14, 15, 17, 19, 21], n_quick=60, n_thorough=600)],
    trusted=[], assumptions=[], covers="tdigest: TBD")
