SPEC_PART = dict(
    props_file="C12_tdigest",
    legs=[dict(family="tdigest", focus="layout", oracles=["codec_ok", "foreign_ok"], profiles=["debug"],
               mask=[0, 1, 7, 8, 9, 10, 14, 15, 17, 19, 21], n_quick=60, n_thorough=300)],
    trusted=["tdigest: layout = my reading of the DataSketches t-digest format and of the reference implementation's asBytes / "
             "asSmallBytes (DESIGN.md Appendix A); the two reference files under datasketches/tests/test_data are golden samples for the "
             "big-endian decoders (decoded by the layout decoder and compared with what the crate reads from them)"],
    assumptions=[],
    covers="tdigest: the independent layout decoder (Spec/TDigestLayout.v, literal constants) recovers exactly the abstract state from the "
           "modelled writer's bytes; translated constants = layout constants; tie: the layout decoder run on the crate's serialize() "
           "output gives k, total weight, min, max of the history's exact spec and sorted means, size 8 | 16 | 32+16n; the reference "
           "files decode to the state the crate reads")
