SPEC = dict(
    props_file="C06",
    legs=[dict(family="cpc", focus="union", oracles=["union_ok"], profiles=["debug", "release"], n_quick=60, n_thorough=500,
               n_search=40, panic_is_violation=True)],
    level_text="(placeholder)",
    level_note="",
    technique="",
    trusted=[],
    assumptions=[],
)
