SPEC = dict(
    props_file="C06",
    legs=[dict(family="cpc", focus="union", oracles=["union_ok"], profiles=["debug", "release"], n_quick=60, n_thorough=500,
               n_search=40, panic_is_violation=True,
               mask=[10, 11, 12, 13, 14, 15, 16, 20, 21, 22, 23, 24]),     # op 17 (image bytes) is judged by the oracle only
          # boundary leg: unions of valid sketches that leave the domain (table capacity / 8C >= 475K).  The strict oracle fails on
          # them (known findings c06-cpc-union-*, matched by the exact-matrix predicate kf_union_capacity); the comparison with
          # the model ties the boundary: the model is Stuck exactly where the crate panics
          dict(family="cpc", focus="union_edge", oracles=["union_ok"], profiles=["debug"], n_quick=None, n_thorough=None,
               n_search=0, panic_is_violation=False, mask=[10, 11, 13, 14, 15, 16, 20, 21, 22, 23, 24]),
          # the same boundary cases without an oracle: only model = crate, observation by observation (a failing oracle would
          # hide a difference on the same case): Stuck in the model exactly at the op where the crate panics
          dict(family="cpc", focus="union_edge", oracles=[], profiles=["debug"], n_quick=None, n_thorough=None,
               n_search=0, panic_is_violation=False, mask=[10, 11, 13, 14, 15, 16, 20, 21, 22, 23, 24])],
    level_text="Theorems (Props/C06.v) over an executable model of cpc/union.rs (Model/CpcUnion.v: with_seed, update with reduce_k "
               "and the merge cases A (walk the sparse source into the accumulator, clone shortcut, graduation to a bit matrix), "
               "B, C, D, the three or_*_into_matrix helpers, walk_table_updating_sketch with row masking, to_sketch via the "
               "from_matrix loop shared with move_window) on top of the C05 sketch model. Spec: matrices as functions, "
               "mfold (rows folded modulo 2^lg), mor; uspec = inputs applied one by one (empty inputs ignored), proved equal to the "
               "closed form of the property text: lg_min over the union and the NON-EMPTY inputs, OR of the non-empty inputs "
               "folded to lg_min (c06_spec_closed_form). For ALL union lg_k in 4..=26 and ALL sequences of valid sketches (any "
               "lg_k, any flavor; every sketch reachable by updates and every union result is valid) whose result stays in the "
               "C05 domain 8C < 475K: no panic; union.lg_k() and num_coupons() are the Spec's; to_sketch() is a valid sketch of "
               "exactly the Spec matrix (build_bit_matrix = Spec rows, num_coupons = popcount, offset = correct offset <= 56, "
               "window iff flavor > Sparse, first interesting column sound, validate() = true, merge_flag set - also for the "
               "empty union, repaired) "
               "(c06_cpc_union_refines; per-step c06_union_update_refines for both union states, c06_cpc_union_result_wf; "
               "c06_union_result_updatable: a result stays a valid sketch under further updates). Table capacity as in C05: the "
               "theorems assume that the two table walks of an update (reduce_k of a sparse accumulator, case A) never outgrow the "
               "accumulator's table in whatever order the pairs are visited (usteps_fit) and that a dense result's surprising values "
               "fit the table to_sketch builds (result_fits). usteps_fit is dischargeable beyond the empty source: "
               "c06_fits_any_sparse (if the OR of accumulator and source is still in the sparse range C < 3K/32, no visiting order "
               "outgrows the table), used by c06_example_case_a (two overlapping sparse sketches through merge case A). Outside these "
               "hypotheses the crate panics or leaves the sketch domain on VALID inputs (known findings c06-cpc-union-table-capacity: "
               "walk in update(), table in to_sketch(); c06-cpc-union-result-outside-domain: result with offset > 56 that its own "
               "deserialize rejects); the boundary leg (focus union_edge) replays them: the strict oracle fails, the matcher "
               "kf_union_capacity accepts only the capacity situations recomputed from the exact matrices, and a second run of the "
               "same cases without oracle demands model = crate op by op (the model is Stuck exactly where the crate panics). "
               "Commutativity/associativity (any permutation of the inputs) and idempotence (a repeated input) of lg_k, coupon "
               "count, matrix, offset and flavor (c06_cpc_union_order_irrelevant, c06_cpc_union_repetition_irrelevant, and the same on "
               "the Spec). c06_union_bitmatrix_not_sparse: a union in the BitMatrix state holds >= 3K/32 coupons (the code relies "
               "on it silently), via c06_fold_popcount (C_folded >= C/f); c06_fold_fold, c06_fold_or. "
               "The model is tied to the crate by generated union cases (0..6 inputs, lg_k 4..12, five flavors, hashed / geometric / "
               "few-column streams, inputs optionally passed through serialize+deserialize, three input orders incl. a repetition, "
               "to_sketch after every step, results fed into a second union) in debug and release: union lg_k, num_coupons, state "
               "kind, accumulator dump or matrix rows, and for every result lg_k, C, offset, first interesting column, flavor, "
               "merge flag, window bytes, sorted table, matrix, validate are compared; the oracle recomputes the OR of folded "
               "matrices from the exact pairs.",
    level_note="Trusted: as C05 (Coq kernel incl. primitive floats, translator, harness/driver, pyref hashes). NOT verified: "
               "PairTable's slot layout, and with it the order in which walk_table_updating_sketch visits the source (golden-ratio "
               "stride over slots): the model walks the set in list order and the theorems hold for every order; the order only "
               "affects the accumulator's kxp/HIP registers, which are dead under merge_flag and are not compared. 'marked as "
               "merged' failed for the result of a union that saw no coupons (merge_flag false): recorded as finding "
               "c06-cpc-empty-union-not-merged and repaired in /repo; the theorem now gives c_merge = true unconditionally. Domain: if folding pushes the result beyond 8C >= 475K (59.4 of 64 columns full) to_sketch "
               "builds a sketch with offset > 56, as for C05 outside the property. Seeds: all sketches of a union share the seed "
               "(the crate asserts it). Deserialized inputs: the C06 leg itself feeds deserialize(serialize(s)) (op sk_roundtrip, 35 % of the inputs "
               "and half of the re-used results) to the crate's union and compares with the model fed s; there is no theorem that "
               "a deserialized sketch equals the original (that is C11's CPC part: symbol-level coders only). flavor() is modelled in unbounded arithmetic = the repaired u64 code (C17).",
    technique="Coq: algebra of fold/OR on matrices (bit-level characterisations, popcount bound by induction on the fold depth), "
              "representation relation union state -> (lg_k, matrix), refinement by cases, laws through the closed form + "
              "differential correspondence model vs crate (debug+release) + exact OR-of-folded-matrices oracle",
    trusted=["as C05: pairs of hashed items via tools/pyref.py; PairTable slot layout modelled as a finite set",
             "the visiting order of walk_table_updating_sketch is layout-dependent and left arbitrary (proved irrelevant for "
             "everything but the dead HIP registers)",
             "serialize/deserialize of inputs and results is replayed on the crate only (model: identity; C11)"],
    assumptions=["union lg_k and all sketch lg_k in 4..=26, one seed",
                 "inputs are valid sketches (reachable by updates, or results of unions of such)",
                 "the result satisfies 8 * num_coupons < 475 * K (then every intermediate union does too)",
                 "table capacity (3/4 * 2^min(26, lg_k+5) pairs, PairTable::rebuild asserts beyond): usteps_fit (no order of walking "
                 "a sparse source / a sparse accumulator into the accumulator outgrows its table) and result_fits (the dense "
                 "result's surprising values fit); far from reach for hashed data, reachable by crafted inputs"],
)
