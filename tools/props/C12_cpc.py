SPEC_PART = dict(
    props_file="C12_cpc",
    legs=[dict(family="cpc", focus="codec", oracles=["layout_ok", "prop_ok"], profiles=["debug"], n_quick=None, n_thorough=None,
               mask=[0, 1, 2, 3, 4, 5, 6, 7, 8, 18], panic_is_violation=True),
          dict(family="cpc", focus="union", oracles=["union_ok"], profiles=["debug"], n_quick=20, n_thorough=150,
               mask=[10, 11, 12, 13, 14, 15, 16, 20, 21, 22, 23], panic_is_violation=True)],
    trusted=["cpc image layout = my reading of the Java/C++ CPC format (DESIGN.md Appendix A; Spec/CpcLayout.v): eight formats "
             "selected by the HIP/SV/WINDOW flag bits with the fixed preamble-int table [2,2,4,8,4,8,6,10] and the published field "
             "order; the two compressed streams are opaque word lists at this level (no Java/C++ generated CPC files are "
             "available offline)",
             "cpc: the Huffman / unary / permutation tables cannot be re-derived from a specification; their mutual "
             "consistency is C11's subject"],
    assumptions=[],
    covers="cpc (PARTIAL: framing only. The independent decoder locates the preamble fields and the two compressed streams as OPAQUE word lists; it does not decompress them, so it does not recover the window bytes, the surprising values or the bit matrix, and no theorem relates the streams' content to the sketch. What ties the content is C11's twin run, not this part). Proved: the independent layout decoder recovers (lg_k, first interesting column, seed hash, HIP registers or merged, "
           "coupon count, number of surprising values, both stream word lists) from the modelled framing of serialize() for every "
           "header, register pattern and pair of streams (c12_cpc_writer_conforms); the framing is literally the specification's "
           "encoding (c12_cpc_writer_is_spec_encoding); make_preamble_ints equals the format's fixed table on every reachable flag "
           "combination incl. window-without-table (c12_cpc_preamble_ints_table); translated flag bits / serial version / family id "
           "are the specification's; tie: the spec decoder run on the crate's real serialize() output (all flavors, lg_k 4..12 and "
           "sparse 21, HIP sketches and merged union results) must give the coupon count, lg_k, seed hash, registers, a sound first "
           "interesting column, window iff Pinned/Sliding, table iff surprising values exist, their exact number, and stream "
           "lengths within [ceil((K+11)/32), ceil((12K+11)/32)] computed from the exact pair set",
)
