SPEC_PART = dict(
    props_file="C14_countmin",
    legs=[dict(family="countmin", focus="malformed_use", oracles=["no_panic", "prop_layout"], profiles=["debug", "release"],
               n_quick=100, n_thorough=1000, panic_is_violation=True)],
    trusted=["countmin: counters of the signed counter types are non-negative in the model; the generator keeps the sign bit of "
             "every payload cell clear (negative counters, which the crate's reader accepts within [-total, total], are outside the model)"],
    assumptions=["countmin: operations applied to an accepted image keep the total weight within the counter type and use merge "
                 "partners of the same configuration (documented preconditions)"],
    covers="countmin: every sketch deserialize returns as Ok has its counters bounded by its total weight, hence every valid program "
           "over such sketches (update, merge, halve, decay, round trip, queries) never reaches a panic site; leg: payload-aimed "
           "mutations, then each accepted value is updated, merged with its fork, decayed, re-serialized (any panic is a violation)",
)
