SPEC = dict(
    props_file="C07",
    legs=[dict(family="freq", oracles=["prop_ok"], profiles=["debug", "release"], n_quick=70, n_thorough=500)],
    level_text="Theorems (Props/C07.v) over an executable model of frequencies/sketch.rs in which everything the hash-table "
               "layout decides (the sample each purge looks at, the order merge replays the partner's counters) is an "
               "arbitrary admissible input: for all histories and merge trees, lower <= truth <= upper for every item, "
               "upper - lower <= maximum_error, total_weight exact, maximum_error * ceil(L/2) + sum of counters <= N "
               "(hence maximum_error <= 3.5/M * N for one map size M <= 1024; refuted for 2048), NoFalsePositives / "
               "NoFalseNegatives, active items <= capacity. The crate is tied by a second, slot-by-slot model of "
               "ReversePurgeItemHashMap that must reproduce every observation (bounds, rows, serialized bytes in table order) "
               "exactly, run in lock step with the abstract model (each crate purge/merge is checked to be an admissible "
               "abstract step), and by the exact-frequency oracle, in debug and release builds.",
    level_note="Trusted: Coq kernel, translator (constants), harness/driver, pyref hashes (checked in C16). The slot layout of "
               "ReversePurgeItemHashMap (probing, drift states, back-shift deletion, iteration stride) is modelled, not verified: "
               "its agreement with the abstract map is checked at run time on every generated history, not proved. "
               "c07_epsilon_2048_refuted is a witness of the abstract model; replayed on the crate (cases fi-eps2048-*): with the witness's "
               "items 0..1536 the crate's sample has median 1 (maximum_error 1); with items chosen for their hashes the crate takes the "
               "witness's sample and maximum_error = 100 > 3.5/2048 * N = 89.6 - outside C07's text (epsilon is claimed up to map size "
               "1024), contrary to the crate's module documentation (known_findings.d/C07-freq-epsilon-2048.json). The oracle fails on any "
               "PANIC other than new(max_map_size) with a size that is not a power of two, on observations of the wrong shape and on a "
               "length mismatch between operations and observations; for uniform map sizes from 2048 it checks maximum_error <= N/512.",
    technique="Coq proof by induction over histories/merge trees (bracket invariant + potential argument) + differential "
              "correspondence (concrete table model == crate, lock-step refinement check concrete -> abstract)",
    trusted=["item hashes are supplied by tools/pyref.py (reference MurmurHash3, cross-checked in C16)",
             "ReversePurgeItemHashMap's slot layout is modelled and tied by the correspondence check only; that it implements "
             "the finite map of the abstract model is checked per run (lock step), not proved",
             "u64 overflow of weights is outside the model (unbounded N); generated totals stay below 2^62"],
    assumptions=["Frequent Items: no probe run of the hash map is longer than the drift limit (1024 occupied slots in debug builds: debug_assert; 65535 in release builds: the u16 drift wraps beyond and lookups go wrong) - needs items chosen for their hashes; known findings C17-freq-drift-limit / C14-freq-drift-limit", "weights are u64 values whose total fits u64 (the crate adds them unchecked in release, panics in debug)"],
)
