SPEC_PART = dict(
    props_file="C18_tdigest",
    legs=[dict(family="tdigest", focus="size", oracles=["codec_ok", "c15_ok"], profiles=["debug"],
               mask=[0, 1, 7, 8, 9, 10, 14, 15, 17, 19, 21], n_quick=6, n_thorough=12)],
    trusted=["tdigest: the bound on the number of centroids (2k + 30) is a threshold test (oracle c15_ok), not proved (C15's analytic half)"],
    assumptions=[],
    covers="tdigest: image size = 8 | 16 | 32 + 16 * centroids; buffer <= 4 * (2k + fudge) for histories from new(k); a decoded image may announce MORE buffered values than that (image_ok allows any buffer length) and update() used to compress only at exactly the capacity, so such a buffer only grew (2,000,000 updates stayed buffered): fixed defect tdigest-C18-buffer-never-compressed (5ca8d9c, `>=`); proved for the repaired code: after ANY update of ANY reachable state the buffer is within the bound (c18_tdigest_buffer_bound_after_update) (Props/C18_tdigest.v); tie: "
           "serialize().len() after every power-of-two prefix of streams up to 2^14 (quick) / 2^16 (thorough) values checked against the "
           "formula, centroids <= 2k + 30 measured on every dump")
