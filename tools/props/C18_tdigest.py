SPEC_PART = dict(
    props_file="C18_tdigest",
    legs=[dict(family="tdigest", focus="size", oracles=["codec_ok", "c15_ok"], profiles=["debug"],
               mask=[0, 1, 7, 8, 9, 10, 14, 15, 17, 19, 21], n_quick=6, n_thorough=12)],
    trusted=[], assumptions=[], covers="tdigest: TBD")
