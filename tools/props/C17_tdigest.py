SPEC_PART = dict(
    props_file="C17_tdigest",
    legs=[dict(family="tdigest", focus="extremes", oracles=["no_panic", "prop_ok", "c15_ok"], tie_oracles=["tie_ok"], profiles=["debug", "release"],
               mask=[0, 1, 7, 8, 9, 10, 14, 15, 17, 19, 21], n_quick=36, n_thorough=60, shards_thorough=8, panic_is_violation=True)],   # thorough: a driver holds ~3 GB (k = 65535, exact rationals): 8 at a time
    trusted=["tdigest: panic sites modelled as Stuck: TDigestMut::new(k < 10), assert!(k >= 10) of make on the readers' path, the "
             "assert_ne! / usize underflow sites of rank, unreachable!() in cdf, check_split_points; the merge pass (do_merge) is a "
             "relation, its sites (buffer[0], Centroid::add's checked weight and finite-mean debug assertion, the u64 weight counter, "
             "2 * k) and all arithmetic overflow / indexing are observed in both profiles, not modelled",
             "tdigest: [reach] uses the exact relation merge_rel 0; the crate's passes are validated by valid_merge at 1e-9"],
    assumptions=["tdigest: k >= 10, query values not NaN, ranks in [0,1], split points strictly increasing, total weight below 2^64"],
    covers="tdigest: NO program-level theorem 'for all sequences of API calls' (the merge pass is a relation, a sequence of calls has no "
           "single modelled execution; C17's 'for all programs' wording does not apply to this family). Proved instead: "
           "TDigestMut::new(k >= 10) is Ok; rank / quantile / cdf / pmf are Ok (never Stuck) on every well-formed view, for every "
           "strictly increasing split list including []; every compressed non-empty state reachable by ANY legal outcome of the merge "
           "passes -- from new(k) or from a decoded image -- is such a view, and every history meeting its preconditions can be "
           "continued (progress); a digest the modelled reader returns is a legal history start provided its means are sorted and "
           "everything lies inside [min,max] (DECLARED GAP, second review item 9: the crate's reader checks neither, so 'an Ok value is usable' is proved only under that extra boolean check ordered_b; images violating it, or with infinite min/max, are accepted and only exercised by the harness); the readers never "
           "reach the modelled panic site and the round trip of a serializable state is Ok (Props/C17_tdigest.v); tie: valid histories at the "
           "documented extremes -- k in {10, 11, 29, 30, 31, 32767, 32768, 40000, 65535} (2 * k past u16: fixed defect "
           "tdigest-C17-two-k-u16-overflow), empty and single-value digests, empty split lists, q = 0 and 1, NaN / infinite updates, "
           "merges with empty digests and with itself, freeze / round trip, and streams of finite values of both signs next to f64::MAX with "
           "k 10..20 (Centroid::add's overflow fallback; fixed defect tdigest-C10-huge-value-overflow) and of heavily repeated values -- in debug (overflow checks + debug assertions) and release; "
           "any panic is a violation")
