SPEC_PART = dict(
    props_file="C17_tdigest",
    legs=[dict(family="tdigest", focus="extremes", oracles=["no_panic", "prop_ok", "c15_ok"], tie_oracles=["tie_ok"], profiles=["debug", "release"],
               mask=[0, 1, 7, 8, 9, 10, 14, 15, 17, 19, 21], n_quick=36, n_thorough=240, panic_is_violation=True)],
    trusted=["tdigest: panic sites modelled as Stuck: TDigestMut::new(k < 10), the assert_ne! / usize underflow sites of rank, "
             "unreachable!() in cdf, check_split_points, every reader site; the merge pass (do_merge) is a relation, its sites "
             "(buffer[0], Centroid::add's checked weight, the u64 weight counter, 2 * k) are observed in both profiles, not modelled"],
    assumptions=["tdigest: k >= 10, query values not NaN, ranks in [0,1], split points strictly increasing, total weight below 2^64"],
    covers="tdigest: TDigestMut::new(k >= 10) is Ok; rank / quantile / cdf / pmf are Ok (never Stuck) on every well-formed view, in "
           "particular on every compressed in-process digest, for every strictly increasing split list including []; the readers never "
           "reach a panic site and the round trip of a serializable state is Ok (Props/C17_tdigest.v); tie: valid histories at the "
           "documented extremes -- k in {10, 11, 29, 30, 31, 32767, 32768, 40000, 65535} (2 * k past u16: fixed defect "
           "tdigest-C17-two-k-u16-overflow), empty and single-value digests, empty split lists, q = 0 and 1, NaN / infinite updates, "
           "merges with empty digests and with itself, freeze / round trip -- in debug (overflow checks + debug assertions) and release; "
           "any panic is a violation")
