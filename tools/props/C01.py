SPEC = dict(
    props_file="C01",
    legs=[dict(family="bounds", oracles=["prop_ok"], tie_oracles=["tie_ok"], profiles=["debug", "release"], mask=[0], search_focus="mc", search_oracles=["mc_ok"], n_search=40,
               n_quick=70, n_thorough=700, panic_is_violation=True),
          # labelled TEST, not a proof obligation: Monte Carlo bias / coverage of the real sketches at 5 sigma
          dict(family="bounds", focus="mc", oracles=["prop_ok", "mc_ok5"], profiles=["release"], mask=[0],
               n_quick=40, n_thorough=200, n_search=40, panic_is_violation=True)],
    level_text="Theorems (Props/C01.v), deterministic half of C01, over IEEE binary64 (Coq primitive floats, Flocq): for EVERY finite "
               "non-negative estimate, every lg_k (HLL 4..21, CPC 4..26), both estimators of each family (HIP / composite-out-of-order, "
               "HIP / ICON) and all coupon counts of list/set mode (exhaustive kernel sweep, <= 196608) the bound functions of hll/estimator.rs and cpc/estimator.rs -- executable model over the four HLL "
               "relative-error tables, both RSE factors, the four CPC side tables and error constants re-read from the source on every "
               "run -- give lb3 <= lb2 <= lb1 <= estimate <= ub1 <= ub2 <= ub3 (f64 comparisons, +infinity on overflow allowed), "
               "and the HLL intervals tighten as k grows; the CPC hypothesis 'estimate >= number of coupons' is proved for the polynomial branch of ICON (by "
               "construction; the exponential branch, c > 5.6k/5.7k, needs powf and is checked on every observation by the oracle) and "
               "for HIP of streamed sketches (accumulator += k/kxp >= 1 for any kxp sequence in (0,k], by induction, any stream length "
               "< 2^53; for a deserialized sketch the accumulator comes from the image: assumption, checked by the oracle); theta: lower_bound <= estimate <= upper_bound at the level of the sketch accessors for every retained count, every "
               "theta64 in [1, MAX_THETA], empty or not, whatever the binomial approximation returns, and in exact mode "
               "estimate = both bounds = retained count exactly; the idealised HIP martingale identities are stated but do not count "
               "toward the statistical half. Tie: the model's functions applied to the crate's own estimate must "
               "reproduce the crate's six bounds bit-for-bit (function-level hooks over random estimator states, and public-API "
               "sketches: streamed, deserialized, unions incl. HllUnion's own accessors, CpcWrapper with the wrapped image's coupon count and "
               "merge flag, compact/compressed theta), including the crate's ICON polynomial "
               "estimate, theta estimate and the table-driven binomial branches; and the property itself (ordering, nesting, no NaN, "
               "empty => 0, CPC estimate >= coupon count, exact mode => exact count, offered-but-screened sampling sketch => upper bound > 0) is evaluated on every "
               "observation of the crate.",
    level_note="No theorem for the statistical half of C01: absence of bias, the advertised RSE and nominal coverage over random item "
               "sets are statements about empirically fitted constants (composite tables, ICON polynomial, binomial approximations) "
               "and about a real hash function (DESIGN.md section 9). Nesting in s of the theta binomial bounds is not proved (it "
               "needs real analysis of ln/sqrt/powf branches); it is checked on every observation by the oracle. f64::ceil is modelled by fceil (2^52 "
               "trick), proved to be the integer ceiling on [0, 2^52) and the identity above (Proofs/BoundsCeil.v); that std's ceil "
               "equals fceil is tied by correspondence only. "
               "The estimate itself is an arbitrary finite non-negative f64 in the theorems (composite estimate, ICON exponential branch "
               "and the ln/powf binomial branches are not modelled).",
    technique="Coq proof: Flocq binary64 lemmas (monotone correctly-rounded division incl. overflow), finite table sweeps by vm_compute "
              "lifted with forallb_forall, induction over update sequences + differential correspondence with a tie oracle",
    trusted=["std's f64::ceil computes the same value as Model/Bounds.fceil (checked bit-for-bit by the tie oracle on every CPC upper bound)",
             "the hooks datasketches::{hll,cpc}::verif_estimator_bounds and verif::theta_binomial_bounds call the crate's own functions",
             "literals of the bound formulas inside function bodies are translated (FLIT_/LIT_ lists) except 1e-5 (written in the model)"],
    assumptions=["the estimate is finite and >= 0 (checked on every observation)", "CPC: 0 < kxp <= k (invariant of C05's model)",
                 "CPC sketches read from an image: estimate >= number of coupons is not proved (the accumulator is image data); "
                 "checked on every observation",
                 "Spec/RefTables.v is a snapshot of the pinned tree's tables, not an upstream publication"],
)
