SPEC_PART = dict(
    props_file="C18_freq",
    legs=[dict(family="freq", focus="size", oracles=["prop_layout"], profiles=["debug"], n_quick=10, n_thorough=24,
               panic_is_violation=True)],
    trusted=[],
    assumptions=["Frequent Items: no probe run of the hash map is longer than the drift limit (1024 occupied slots in debug builds: debug_assert; 65535 in release builds: the u16 drift wraps beyond and lookups go wrong) - needs items chosen for their hashes; known findings C17-freq-drift-limit / C14-freq-drift-limit"],
    covers="freq: active items <= current capacity <= maximum_map_capacity after every operation of every history (C07's capacity "
           "theorem); image size = 8 | 32 + 16 * active <= 32 + 16 * maximum_map_capacity. Tie: num_active_items and serialize().len() of "
           "the crate after every power-of-two prefix of growing streams (distinct, repeated, sorted, hash-clustered), map sizes 8..2048.",
)
