SPEC_PART = dict(
    props_file="C17_freq",
    legs=[dict(family="freq", focus="extremes", oracles=["prop_ok", "prop_layout", "no_panic"], profiles=["debug", "release"],
               n_quick=16, n_thorough=160, panic_is_violation=True),
          # the DRIFT_LIMIT debug assertion (known finding C17-freq-drift-limit): the op that panics in debug builds is not
          # compared with the model (mask), the rest of the case is; thorough tier only (the case takes ~40 s)
          dict(family="freq", focus="drift", oracles=[], profiles=["debug", "release"], mask=[0, 2, 3, 12], n_quick=0, n_thorough=1,
               panic_is_violation=True)],
    trusted=["Frequent Items: the modelled panic sites are the assertions of new / with_lg_map_sizes, the usize overflow of (1 << lg_max) * 3, "
             "the empty sample of select_nth_unstable, the index underflow of keep_only_positive_counts and panic!(\"purge did not reduce "
             "number of active items\"); u64 additions of weights are bounded by theorem (offset + counters <= stream weight), not modelled "
             "as panics; debug_assert!(drift < DRIFT_LIMIT) (a probe run of 1024 occupied slots) is not modelled"],
    assumptions=["Frequent Items: max_map_size is a power of two <= 2^62 (new(1 << 63) overflows (1 << lg_max) * 3: panic in debug, wrong "
                 "capacity in release); the total stream weight of a sketch, merged partners included, is below 2^64; usize = 64 bits; "
                 "no probe run reaches DRIFT_LIMIT = 1024 occupied slots (needs > 1024 items hashing into one cluster)"],
    covers="freq: every program of update_with_count / merge (any partner) / reset on a sketch created by new(2^lg), lg <= 62, returns Ok at "
           "the slot level (no assumption on the hash function): keep_only_positive_counts always finds an empty slot, the purge sample is "
           "non-empty, every purge removes at least one counter so the 'purge did not reduce' panic is unreachable; values accepted by "
           "deserialize satisfy the same invariant; abstract level: no u64 quantity exceeds the total stream weight. Tie: valid histories at "
           "map size 8, 16, 1024 (thorough: up to 4096) and max_map_size 2^40 / 2^62, long streams with many purges including purges that "
           "empty the map, merges of purged-to-nothing sketches in both directions and self-merges, weights up to 2^60 with totals below "
           "2^64, reset; debug and release, any panic is a violation.",
)
