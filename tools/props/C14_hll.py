SPEC_PART = dict(
    props_file="C14_hll",
    legs=[dict(family="hll", focus="malformed", oracles=["no_panic", "accepted_ok"], profiles=["debug", "release"],
               mask=[2, 3, 4, 5, 7, 8, 9, 30, 31], n_quick=200, n_thorough=4000, panic_is_violation=True)],
    trusted=["hll: the modelled panic sites of HllSketch::deserialize are HashSet::update's 'HashSet full', AuxMap's three "
             "unreachable!()s and Array4's expect()s (the list / Hll6 / Hll8 reader paths have none after the repairs: lg_arr is "
             "range-checked before any shift); slice indexing inside read_exact / Vec allocation are std's",
             "hll: allocation is not modelled; the harness's counting allocator checks peak <= 64 * len + 1 MiB on every parse",
             "hll: estimate() / upper_bound() / lower_bound() of an accepted OUT-OF-ORDER image run the composite estimator (cubic "
             "interpolation, debug assertions), which the model does not contain: called on the crate only (op 32), debug and "
             "release, any panic is a violation"],
    assumptions=["hll: usize = 64 bits"],
    covers="hll: hll_deserialize is total -- never Stuck for ANY list of numbers (c14_hll_deserialize_total; non-trivial for the set "
           "and Hll4-aux paths); Ok => image_wf (c14_hll_ok_is_wellformed): list = the list invariant of C02 (8 slots, the coupons "
           "first, distinct, valid, count = occupied slots < 8, so no later update is dropped), set with probe invariant / len = "
           "announced count / valid coupons / load <= 3/4 / lg size in 5..lg_k-3, Hll4 satisfying the full Array4 invariant of C02 "
           "for registers <= 63, Hll6 a byte array with exact num_zeros, Hll8 registers <= 63 with exact num_zeros, and for all "
           "arrays hip_accum / kxq0 / kxq1 finite and non-negative (c14_hll_ok_estimator_fields). The usability clause: a CANONICAL Ok "
           "value (set >= 8 coupons, Hll4 with a register at cur_min: every image a writer emits) is a well-formed source "
           "(c14_hll_ok_is_source), hence can be updated (c11_hll_source_updates) and merged (c03 / c17) without reaching a panic "
           "site -- proved; serialize has no panic site; for QUERIES there is NO theorem (composite estimator not modelled) -- "
           "exercised only; non-canonical accepted images are exercised only. Several reader / writer defects (8 fixed findings in known_findings.json, 10 fix: commits) were found and repaired "
           "on the way (D1, D4, D13, array image validation, allocation before length check, COMPACT flag of the writer, NaN / "
           "infinite / negative estimator fields [08d9c35: estimate() of an accepted image failed a debug assertion], list / set "
           "count consistency [2f7e0d8, b0014c6: an accepted list image dropped every later update]: known_findings.d). Tie: structure-aware "
           "mutations of spec-encoded images of every variant (bit/byte flips, boundary values in every lg/count/flag field, "
           "truncation at every offset, extension, payload damage, random bytes) plus crafted images: every type x flags 0x18 / "
           "0x08 / 0x10 / 0 with NaN (three payloads), +-infinity, negative, -0, 0, subnormal, 1e300, f64::MAX in kxq0 / kxq1 / "
           "hip_accum, list / set images whose occupied slots disagree with the count, repeat a coupon or carry value 0, and updatable set tables (lg size 5..7) holding 3/4 size (the largest valid load), 3/4 size + 1, size - 1 and size distinct coupons, each followed by at least 12 novel updates (a full table accepted would hit unreachable!('HashSet full')); model "
           "and crate must agree on Ok/Err and on the dumped state; every Ok value is queried (estimate + six bounds: in lock step "
           "with the model when in order, crate-only when out of order), re-serialized, re-read, merged into a union, updated, "
           "round-tripped and queried again; any panic or allocation above 64 * len + 1 MiB is a violation (debug + release). "
           "Oracle accepted_ok: a mutated image that the independent layout decoder still understands and the crate ACCEPTS must "
           "give exactly the sketch it encodes (dumped state, its merge into a union, re-serialization, estimate not NaN / not "
           "negative); this found fix b0014c6 (updatable list announcing 0 coupons). Known finding C14-hll-kxq-not-validated: kxq0 "
           "/ kxq1 of an accepted image are not compared with its registers, so a corrupt image can give a sketch whose estimates "
           "are meaningless after updates and whose own image is refused (Err, no panic) -- tolerated by the oracle, declared.",
)
