SPEC_PART = dict(
    props_file="C14_hll",
    legs=[dict(family="hll", focus="malformed", oracles=["no_panic"], profiles=["debug", "release"],
               mask=[2, 3, 7, 8, 9], n_quick=200, n_thorough=4000, panic_is_violation=True)],
    trusted=[], assumptions=[], covers="hll: placeholder",
)
