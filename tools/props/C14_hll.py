SPEC_PART = dict(
    props_file="C14_hll",
    legs=[dict(family="hll", focus="malformed", oracles=["no_panic"], profiles=["debug", "release"],
               mask=[2, 3, 7, 8, 9], n_quick=200, n_thorough=4000, panic_is_violation=True)],
    trusted=["hll: the modelled panic sites of HllSketch::deserialize are the shift by lg_arr, HashSet::update's 'HashSet full', "
             "AuxMap's three unreachable!()s and Array4's expect()s; slice indexing inside read_exact / Vec allocation are std's",
             "hll: allocation is not modelled; the harness's counting allocator checks peak <= 64 * len + 1 MiB on every parse"],
    assumptions=["hll: usize = 64 bits"],
    covers="hll: hll_deserialize is total -- never Stuck for ANY list of numbers (c14_hll_deserialize_total); Ok => image_wf "
           "(c14_hll_ok_is_wellformed): list of 8 slots with < 8 coupons, set with probe invariant / exact len / load <= 3/4 / "
           "lg size in 5..lg_k-3, Hll4 satisfying the full Array4 invariant of C02 for registers <= 63, Hll8 registers <= 63 with exact "
           "num_zeros (partial: Hll6 only lg_k; Hll4 images without a register at cur_min; value-0 coupons). Seven reader defects were "
           "found and repaired on the way (D1, D4, D13, array image validation, allocation before length check, COMPACT flag of the "
           "writer: known_findings.d). Tie: structure-aware mutations of spec-encoded images of every variant (bit/byte flips, boundary "
           "values in every lg/count/flag field, truncation at every offset, extension, payload damage, random bytes); model and crate "
           "must agree on Ok/Err and on the dumped state; every Ok value is queried, re-serialized, updated, round-tripped; any panic "
           "or allocation above 64 * len + 1 MiB is a violation (debug + release).",
)
