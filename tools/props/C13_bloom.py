SPEC_PART = dict(
    props_file="C13_bloom",
    legs=[dict(family="bloom", focus="foreign", oracles=["prop_foreign"], profiles=["debug", "release"], n_quick=100, n_thorough=1000, panic_is_violation=True)],
    trusted=["the variants a Java/C++ BloomFilter writer can emit are taken to be: short form for the empty filter, long form with the "
             "exact bit count, long form with the dirty marker -1 (count to be recomputed by the reader); the unused fields and the seven "
             "undefined bits of the flags byte are ignored by a reader (arbitrary in the theorem and in the generated images)"],
    assumptions=[],
    covers="bloom: bf_deserialize (enc_spec v a) = Ok s with abs s = a for every abstract state and every variant (short / exact / "
           "dirty count, arbitrary bytes in the unused fields, arbitrary undefined flag bits) (c13_bloom_reader_accepts), accepted values are well formed; tie: images "
           "built by the generator from its own picture of a filter (inserted, inverted, full, arbitrary bit sets) are deserialized "
           "by the crate and accessors, membership queries, re-serialization, forks, unions / intersections with native filters, "
           "inverts and further inserts are judged against the Spec state of the image; every specification-valid image must be accepted",
)
