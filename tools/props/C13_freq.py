SPEC_PART = dict(
    props_file="C13_freq",
    legs=[dict(family="freq", focus="foreign", oracles=["prop_foreign", "prop_roundtrip"], profiles=["debug", "release"],
               n_quick=30, n_thorough=600,
               panic_is_violation=True)],
    trusted=["Frequent Items: the Coq codec model and the theorems of this part are for i64 items only; u64 items are answered by the same model (same bits, same hash, same image bytes: harness ops 40..52), String images (u32 length + UTF-8 per item) are covered by crate-only checks: round trip equal on every accessor / row / re-serialized pairs, no panic, allocation proportional to the input",
             "Frequent Items format = my reading of the Java/C++ layout (DESIGN.md Appendix A): empty iff (flags & 5) != 0, the two top "
             "bits of byte 0 are not part of preamble longs, unused fields are not interpreted; no upstream files available offline"],
    assumptions=["Frequent Items: foreign images hold at most 3/4 * 2^lg_cur counters with lg_cur >= 3 (what Java/C++ writers produce), "
                 "i64 items, offset + counters <= stream weight < 2^64, lg_max <= 62"],
    covers="freq (i64 items): for every well-formed abstract state and every variant (top bits of byte 0, empty flag 1 / 4 / 5 / any byte "
           "with bit 0 or 2, other flag bits, unused fields, four-long form with active_items = 0, lg_cur < lg_max, counters in any order) "
           "fc_deserialize (enc_spec v a) = Ok s with abs s = a as a finite map, s well-formed; spec_decode (enc_spec v a) = Some a. Tie: the "
           "generator's own encoder produces the images, the crate's deserialize must accept them and every accessor, bound, "
           "frequent_items row, re-serialization, round trip and merge into a fresh sketch must show the state the independent decoder "
           "reads from the same bytes.",
)
