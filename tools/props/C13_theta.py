SPEC_PART = dict(
    props_file="C13_theta",
    legs=[dict(family="theta", focus="foreign", oracles=["foreign_ok"], profiles=["debug", "release"],
               mask=[7, 12, 13, 15], n_quick=60, n_thorough=600, panic_is_violation=True)],
    trusted=[], assumptions=[], covers="theta: TBD")
