SPEC_PART = dict(
    props_file="C13_theta",
    legs=[dict(family="theta", focus="foreign", oracles=["foreign_ok", "roundtrip_ok"], profiles=["debug", "release"],
               mask=[7, 12, 13, 15], n_quick=60, n_thorough=600, panic_is_violation=True)],
    trusted=["the images fed to the crate are produced by an encoder in tools/families/theta.py written from the format description "
             "(independent of the crate and of the Coq model); the oracle decodes them with Spec/ThetaLayout.v"],
    assumptions=["the reader's seed has a non-zero 16-bit seed hash (otherwise deserialize_with_seed returns Err)",
                 "abs_okb (what counts as a valid image) does not demand distinct entries in an unordered image; the crate has no "
                 "theta set operations, so that clause of C13 has nothing to apply to"],
    covers="theta: c_deserialize(enc_spec v a) = Ok (the state a) for serVer 1, serVer 2 (empty / exact / estimating), serVer 3 "
           "(empty, single item with or without SINGLE_ITEM flag, exact, estimating incl. zero entries, ordered / unordered, "
           "and the same states written with more preamble longs than necessary: preLongs 2 with one entry, preLongs 3 in exact "
           "mode) and serVer 4 (all widths; the specification requires ORDERED set and EMPTY clear there), for every admissible abstract state; the value read is well-formed for both writers. Repaired "
           "D11 (serVer 2 exact decoded as empty). Tie: every image accepted by the independent decoder (which validates the serVer 4 "
           "flags; undefined flag bits are ignored on both sides) must be read by the crate to exactly the decoded state (entries in order, theta, seed hash, emptiness, estimate bit for bit) and re-serialize "
           "(both writers) to images that decode to the same state; entry counts at powers of 256 (255..257, 65535..65537)")
