SPEC = dict(
    props_file="C10",
    legs=[dict(family="tdigest", oracles=["prop_ok"], tie_oracles=["tie_ok"], profiles=["debug", "release"],
               mask=[0, 1, 7, 8, 9, 10, 14, 15, 17], n_quick=110, n_thorough=200)],
    level_text="Theorems (Props/C10.v) over a branch-by-branch transcription of TDigestView::rank / quantile / cdf / pmf / "
               "check_split_points (tdigest/sketch.rs, REPAIRED code) in exact rational arithmetic, for EVERY well-formed view "
               "(means sorted, weights > 0, min <= first mean, last mean <= max, total = sum of weights, >= 1 centroid; plus "
               "unit_ends_tight -- a unit first/last centroid sits on min/max -- where a theorem needs it): rank in [0,1], 0 below "
               "min, 1 above max, non-decreasing; quantile in [min,max], min at 0, max at 1, non-decreasing; cdf = ranks ++ [1] "
               "for every strictly increasing split list including [], pmf sums to 1 and is non-negative; |rank(quantile q) - q| <= "
               "(w_i + w_(i+1)) / (2 total) for the centroids whose centres straddle q*total when the means are pairwise distinct, and "
               "<= (weight of all centroids sharing a mean with one of them) / total for EVERY well-formed view; total_weight = number of finite values offered "
               "summed over merges and min/max exact for every history whose merge passes satisfy the merge relation. The model "
               "never reaches a panic site (Stuck) on a well-formed view. Tie: the crate is replayed on crafted images (heavy "
               "first/last centroids, duplicates, single centroids, power-of-two totals that put q*W on every branch boundary) "
               "and on streams of every shape through update/merge/freeze/unfreeze/serialize; every rank/quantile/cdf/pmf answer "
               "of the crate is compared with the exact Q model at 1e-9, every real merge pass is validated by the extracted "
               "valid_merge, and the property itself (range, end values, monotonicity up to 4 ulp, cdf/pmf consistency, exact "
               "total/min/max) is evaluated on the crate's observations alone, in debug and release builds.",
    level_note="The theorems are about the exact-rational model. Monotonicity of the binary64 evaluation is not proved (it can fail "
               "by an ulp where two branches meet); the oracle checks it on the grids with a 4-ulp allowance. rank monotonicity (and "
               "with it cdf monotonicity / pmf non-negativity) needs unit_ends_tight: without it rank is NOT monotone (c10_rank_mono_without_tight_ends_refuted, "
               "known finding tdigest-D17: an image whose first/last centroid has weight 1 but is not min/max; no data set has "
               "such a summary and the in-process algorithm never produces one). td_total / td_minmax are proved for histories "
               "whose merge passes satisfy merge_rel (C15); that each real pass does is checked per run (valid_merge), the "
               "ln-based merge decisions are not recomputed in Coq.",
    technique="Coq proofs over Q (piecewise-linear interpolation: per-branch bounds + a common monotone majorant/minorant argument) "
              "+ differential correspondence (Q model vs crate at 1e-9 on exactly representable inputs) + property oracle",
    trusted=["slice::binary_search_by with a never-Equal comparator returns the partition point (std; modelled by part_point)",
             "f64 sums of integer weights below 2^53 are exact (the model computes them in Z)",
             "binary64 evaluation vs exact rationals: compared at 1e-9 relative on dyadic inputs, not proved"],
    assumptions=["query arguments are not NaN and q is in [0,1] (the crate asserts both)",
                 "weights total below 2^53 (exact f64 conversion of centroids_weight)"],
)
