SPEC = dict(
    props_file="C10",
    legs=[dict(family="tdigest", oracles=["prop_ok"], tie_oracles=["tie_ok"], profiles=["debug", "release"],
               mask=[0, 1, 7, 8, 9, 10, 14, 15, 17], n_quick=110, n_thorough=200)],
    level_text="Theorems (Props/C10.v) over a branch-by-branch transcription of TDigestView::rank / quantile / cdf / pmf / "
               "check_split_points (tdigest/sketch.rs, REPAIRED code) in exact rational arithmetic, for EVERY well-formed view "
               "(means sorted, weights > 0, min <= first mean, last mean <= max, total = sum of weights, >= 1 centroid -- heavy "
               "end centroids and unit-weight end centroids away from min/max included, no further hypothesis): rank in [0,1], 0 "
               "below min, 1 above max, non-decreasing; quantile in [min,max], min at 0, max at 1, non-decreasing; cdf = ranks ++ "
               "[1] for every strictly increasing split list including [], pmf sums to 1 and is non-negative; |rank(quantile q) - "
               "q| <= (w_i + w_(i+1)) / (2 total) for the centroids whose centres straddle q*total when the means are pairwise "
               "distinct, and <= (weight of all centroids sharing a mean with one of them) / total for EVERY well-formed view. "
               "Which states are covered: [reach h d] = d is a state of TDigestMut after history h, a history starting from "
               "new(k) OR from a decoded image satisfying image_ok (k >= 10, consistent weights, sorted means, everything inside "
               "[min,max]; Props/C17_tdigest.v derives image_ok for what the modelled reader returns when its means are sorted "
               "and in range) and continuing with update / compress / merge, every merge pass being ANY output allowed by the "
               "exact merge relation; every compressed non-empty reachable state is a well-formed view "
               "(c10_reachable_views_are_wellformed), every history meeting its preconditions has a reachable state "
               "(c10_reach_progress), total_weight = image weight + number of finite values offered, and for histories without an "
               "image min/max are exact and the end centroids sit on min/max. The model never reaches a panic site (Stuck) on a "
               "well-formed view. Tie: the crate is replayed on crafted images (heavy first/last centroids, unit end centroids "
               "away from min/max, duplicates, single centroids, power-of-two totals that put q*W on every branch boundary), on "
               "such images continued by update / merge, and on streams of every shape (incl. finite values next to f64::MAX and "
               "heavily repeated values) through update/merge/freeze/unfreeze/serialize; every rank/quantile/cdf/pmf answer of "
               "the crate is compared with the exact Q model at 1e-9, every real merge pass is validated by the extracted "
               "valid_merge, and the property itself (range, end values, monotonicity up to 4 ulp, cdf/pmf consistency, exact "
               "total/min/max) is evaluated on the crate's observations alone, in debug and release builds.",
    level_note="The theorems are about the exact-rational model. (1) [reach] uses the EXACT relation merge_rel 0 while the harness "
               "validates the crate's passes with valid_merge at tolerance 1e-9 (binary64 group means): a crate execution is an "
               "instance of [reach] only up to that tolerance; nothing is proved about the rounding. (2) Monotonicity of the "
               "binary64 evaluation is not proved (it can fail by an ulp where two branches meet); the oracle checks it on the "
               "grids with a 4-ulp allowance. (3) Binary64 overflow is outside the model: rank and quantile DID leave their "
               "ranges (inf / NaN) on finite values next to f64::MAX -- fixed defect tdigest-C10-huge-value-overflow (e4ec8a2), "
               "found by replay, not by proof; the generators now go there. (4) rank monotonicity used to need unit_ends_tight "
               "and failed without it (former known finding tdigest-D17, reachable by update after deserializing a VALID image): "
               "the crate was repaired (30e007d) and the theorem now has no extra hypothesis; c10_example_unit_ends / "
               "c10_example_image_then_update instantiate it on the old witnesses. (5) Decoded images whose means are unsorted or "
               "outside [min,max] are accepted by the crate's reader but are not image_ok: no theorem covers queries on them "
               "(harness only). (6) The ln-based merge decisions are not recomputed in Coq; that each real pass satisfies the "
               "relation is checked per run (valid_merge).",
    technique="Coq proofs over Q (piecewise-linear interpolation: per-branch bounds + a common monotone majorant/minorant argument; "
              "invariant over histories started in process or from an image) + differential correspondence (Q model vs crate at "
              "1e-9 on exactly representable inputs) + property oracle",
    trusted=["slice::binary_search_by with a never-Equal comparator returns the partition point (std; modelled by part_point)",
             "f64 sums of integer weights below 2^53 are exact (the model computes them in Z)",
             "binary64 evaluation vs exact rationals: compared at 1e-9 relative, not proved; overflow is not modelled"],
    assumptions=["query arguments are not NaN and q is in [0,1] (the crate asserts both)",
                 "weights total below 2^53 (exact f64 conversion of centroids_weight)"],
)
