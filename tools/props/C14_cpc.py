SPEC_PART = dict(
    props_file="C14_cpc",
    legs=[dict(family="cpc", focus="malformed", oracles=["malformed_ok"], profiles=["debug", "release"], n_quick=None, n_thorough=None, coq_sample=1,
               mask=[0, 1, 2, 3, 4, 5, 8], panic_is_violation=True)],
    trusted=["cpc: the reader (CpcSketch::deserialize, CompressedState::uncompress) has no Coq model; 'never panics' is "
             "observed by the harness on mutated images (debug and release, counting allocator), not proved",
             "cpc: PairTable's slot layout (set model) as in C05"],
    assumptions=[],
    covers="cpc (partial): Ok => wf => usable is carried by theorems - every state deserialize returns as Ok is dumped and run "
           "through the executable invariant check (Model/CpcCheck.v); c14_cpc_check_sound: a state that passes it satisfies the C05 "
           "invariant for its own bit matrix; c14_cpc_checked_state_usable: such a state validates, is a valid union input and accepts "
           "every further valid pair without reaching a panic site. Tie: single- and double-field mutations (bit flips, byte "
           "sets, boundary values in every u32 field, truncation at every offset, extension) of the real images of sketches of every "
           "flavor (lg_k 4..12) and raw/hand-made headers: the outcome must be Err or a checked Ok value, never a panic, abort or an "
           "allocation above 64*|input| + 1 MiB; each Ok value is then used (estimate, bounds, validate, 40 updates, serialize + "
           "deserialize, union, CpcWrapper)",
)
