SPEC_PART = dict(
    props_file="C14_cpc",
    legs=[dict(family="cpc", focus="malformed", oracles=["malformed_ok"], tie_oracles=["malformed_tie_ok"], profiles=["debug", "release"], n_quick=None, n_thorough=None, coq_sample=1,
               mask=[0, 1, 2, 3, 4, 5, 8], panic_is_violation=True),
          # the images at the edge of the domain once more, judged by the exact tie alone (the strict oracle's failure on these
          # cases, a known finding, would hide a failing tie): the use phase fails exactly when the model is Stuck
          dict(family="cpc", focus="malformed_edge", oracles=[], tie_oracles=["malformed_tie_ok"], profiles=["debug", "release"],
               n_quick=None, n_thorough=None, coq_sample=1, mask=[0, 1, 2, 3, 4, 5, 8], panic_is_violation=True)],
    trusted=["cpc: the reader (CpcSketch::deserialize, CompressedState::uncompress) and CpcWrapper::new have NO Coq model; 'never "
             "panics' is observed by the harness on mutated images (debug and release, counting allocator), not proved",
             "cpc: PairTable's slot layout (set model) as in C05",
             "cpc: the use phase is a fixed script (40 pairs via the hook verif_row_col_update, estimate, bounds, validate, "
             "serialize + deserialize, union of the value with its updated copy), not every possible use"],
    assumptions=["cpc: c14_cpc_checked_state_usable has the hypotheses of C05 on the FURTHER pairs: 8 * (C + 1) < 475 * K at every "
                 "step (window offset <= 56) and cpc_fits (the surprising values never outgrow the table's capacity "
                 "3/4 * 2^min(26, lg_k+5)); an accepted image next to either edge is valid and the next updates panic: known "
                 "finding C14-cpc-image-at-table-capacity"],
    covers="cpc (PARTIAL: there is no Coq model of the reader; what is proved is about the VALUE it returns, what is observed is "
           "the reader's behaviour on generated inputs). Theorems - every state deserialize returns as Ok is dumped and run "
           "through the executable invariant check (Model/CpcCheck.v); c14_cpc_check_sound: a state that passes it satisfies the C05 "
           "invariant for its own bit matrix; c14_cpc_checked_state_usable: such a state validates, is a valid union input, and "
           "accepts further valid pairs without reaching a panic site PROVIDED THAT the pairs keep it inside the C05 domain: "
           "8 * (C + 1) < 475 * K before every pair and cpc_fits for the stream (both are hypotheses of the theorem; at the edge "
           "they fail and the crate panics: lg_k 4, C = 949 is accepted and the next updates panic - known finding, matched only "
           "when the exact matrix of the accepted dump says the harness's pairs leave the domain). Tie: single- and double-field "
           "mutations (bit flips, byte sets, boundary values in every u32 field, truncation at every offset, extension) of the real "
           "images of sketches of every flavor (lg_k 4..12), the sketch's own images next to offset 56 and next to the table "
           "capacity, and raw/hand-made headers (lg_k, first interesting column and flags bytes varied): the outcome must be Err or "
           "a checked Ok value, never a panic, abort or an allocation above 64*|input| + 1 MiB; each Ok value is then used under an "
           "inner catch_unwind: oracle malformed_ok demands that the use succeeds (its failures at the edge are the known finding), "
           "oracle malformed_tie_ok that it fails exactly when the Coq model is Stuck on the same 40 pairs / the same union (run "
           "once more on the edge images alone, where no other oracle can hide it). CpcWrapper: on every accepted image "
           "CpcWrapper::new must be Ok and report the sketch's lg_k, is_empty, estimate and 2-sigma lower/upper bounds bit for bit "
           "(observed, no theorem; the 1- and 3-sigma bounds are not compared); on rejected images the wrapper's outcome is only "
           "recorded: it reads the preamble alone and accepts most images whose streams deserialize rejects (798 of 1256 rejected "
           "images in the quick run), so 'wrapper Err iff deserialize Err' does NOT hold and is not claimed",
)
