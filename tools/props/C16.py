SPEC = dict(
    props_file="C16",
    legs=[dict(family="hashes", oracles=["prop_ok"], profiles=["debug", "release"])],
    level_text="Theorems (Props/C16.v): for every seed and every chunking of every byte string the modelled streaming "
               "MurmurHash3-x64-128 and XXH64 hashers equal the one-shot reference functions (invariant over chunk lists, "
               "generic block-absorption lemmas); hash_u64 = XXH64 of 8 LE bytes; range theorems for every derived quantity; "
               "the source's constants and inline literals (re-read by the translator each run) equal the published ones. "
               "Tie: crate digest = model digest = independent Python reference on all lengths 0..200, all 2^(n-1) chunkings "
               "for small n, and derived quantities of HLL/theta/Count-Min/Bloom through the public API for i64, str and tuple items.",
    level_note="Trusted: Coq kernel; my transcription of the public algorithms (validated by published vectors in an Example and "
               "by an independent Python transcription); std's Hash impls' byte sequences for i64/&str/tuples; translator; harness.",
    technique="Coq proof by invariant over write sequences (Base/Absorb.v) + differential correspondence incl. exhaustive small chunkings",
    trusted=["reference algorithm = my Gallina transcription of MurmurHash3_x64_128 / XXH64, pinned by published vectors",
             "tools/pyref.py: independent Python transcription used as the oracle's expected digests",
             "CPC (row, col) derivation is proved in range here and tied to the crate in the C05 correspondence (needs a hook)"],
    assumptions=["byte strings shorter than 2^64 bytes (the model's length counter is unbounded, the crate's is u64)"],
)
