SPEC = dict(
    props_file="C16",
    legs=[dict(family="hashes", oracles=["prop_ok"], profiles=["debug", "release"])],
    level_text="Theorems (Props/C16.v): for every seed and every chunking of every byte string the modelled streaming "
               "MurmurHash3-x64-128 and XXH64 hashers equal the one-shot reference functions (invariant over chunk lists, "
               "generic block-absorption lemmas); hash_u64 = XXH64 of 8 LE bytes; range theorems for every derived quantity and, for every chunking of the item bytes, each derived quantity (HLL coupon, theta hash, CPC (row,col), Count-Min bucket, Bloom digests) equals the reference derivation applied to the one-shot digest of the concatenation; "
               "the source's constants and inline literals (re-read by the translator each run) equal the published ones. "
               "Tie: crate digest = model digest = independent Python reference on all lengths 0..200, all 2^(n-1) chunkings "
               "for small n, and derived quantities of HLL/theta/CPC/Count-Min/Bloom through the public API (CPC through the state-dump hook) for i64, str and tuple items.",
    level_note="Trusted: Coq kernel; my transcription of the public algorithms (validated by published vectors in Examples (MurmurHash3 quick-brown-fox digest; xxHash sanity-check vectors of lengths 0, 1, 32, 33, 100 for seeds 0 and PRIME32) and "
               "by an independent Python transcription); std's Hash impls' byte sequences for i64/&str/tuples; translator; harness.",
    technique="Coq proof by invariant over write sequences (Base/Absorb.v) + differential correspondence incl. exhaustive small chunkings",
    trusted=["reference algorithm = my Gallina transcription of MurmurHash3_x64_128 / XXH64, pinned by published vectors",
             "tools/pyref.py: independent Python transcription used as the oracle's expected digests",
             "the one-shot reference functions share the block/tail/finalisation definitions with the streaming model (Base/Absorb.v); their independence rests on the published vectors and on tools/pyref.py"],
    assumptions=["byte strings shorter than 2^64 bytes (the model's length counter is unbounded, the crate's is u64)"],
)
