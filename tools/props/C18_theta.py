SPEC_PART = dict(
    props_file="C18_theta",
    legs=[dict(family="theta", focus="size", oracles=["size_ok", "kmv_ok"], profiles=["debug"],
               mask=[1, 4, 7, 10, 11], n_quick=6, n_thorough=24)],
    trusted=[], assumptions=[], covers="theta: TBD")
