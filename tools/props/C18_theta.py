SPEC_PART = dict(
    props_file="C18_theta",
    legs=[dict(family="theta", focus="size", oracles=["size_ok", "kmv_ok"], profiles=["debug"],
               mask=[1, 4, 7, 10, 11], n_quick=10, n_thorough=30)],
    trusted=[], assumptions=[],
    covers="theta: retained <= 15/16 * 2^(lg_k+1) after every operation of every history, = min(n, k) after trim; "
           "|serialize()| = 8*preamble_longs + 8*retained <= 24 + 8*15/16*2^(lg_k+1). Tie: retained count and both image sizes "
           "after every power-of-two prefix of streams up to 2^17 (quick) / 2^20 (thorough) items, distinct / repeated / descending; "
           "and trim() on never-rebuilt sketches holding k+1, 1.5k, cap-1 and cap distinct values (cap = 15/16*2k), with repeats: "
           "retained = k afterwards (min(n, k) is part of the kmv_ok and size_ok oracles)")
