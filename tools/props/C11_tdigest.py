SPEC_PART = dict(
    props_file="C11_tdigest",
    legs=[dict(family="tdigest", focus="codec", oracles=["twin_ok", "codec_ok", "c15_ok"], tie_oracles=["tie_ok"], profiles=["debug", "release"],
               mask=[0, 1, 7, 8, 9, 10, 14, 15, 17, 19, 21], n_quick=40, n_thorough=200, panic_is_violation=True)],
    trusted=["tdigest: the byte-level codec model (Model/TDigestCodec.v) is written by hand from TDigestMut::serialize/deserialize; it is "
             "tied on every image the crate emits (reader accepts it, writer re-emits it byte for byte) and by the twin oracle"],
    assumptions=["tdigest: serializable states = what serialize() can be applied to after its compress() (wfb, Proofs/TDigestCodec.v); "
                 "nothing is assumed about one-sample digests: one whose sample, min and max differ (only reachable from a decoded "
                 "image) used to change under the round trip -- fixed defect tdigest-C11-one-sample-form (2b18cc9)"],
    covers="tdigest: deserialize(serialize(s)) = s for every serializable state (Props/C11_tdigest.v, byte-level model, floats as bit "
           "patterns), hence byte-identical re-serialization; tie: on every image the crate emits along random histories (k 10..500, all "
           "stream shapes, merges, freeze/unfreeze) the modelled reader accepts it and the modelled writer re-emits it byte for byte, and "
           "after fork = deserialize(serialize(src)) every further update / merge / query / dump / image applied to both copies gives "
           "identical observations (twin oracle), in debug and release")
