SPEC_PART = dict(
    props_file="C11_tdigest",
    legs=[dict(family="tdigest", focus="codec", oracles=["twin_ok", "codec_ok", "tie_ok", "c15_ok"], profiles=["debug", "release"],
               mask=[0, 1, 7, 8, 9, 10, 14, 15, 17, 19, 21], n_quick=40, n_thorough=500, panic_is_violation=True)],
    trusted=[], assumptions=[], covers="tdigest: TBD")
