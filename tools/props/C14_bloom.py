SPEC_PART = dict(
    props_file="C14_bloom",
    legs=[dict(family="bloom", focus="malformed", oracles=["no_panic", "prop_ok"], profiles=["debug", "release"], n_quick=150, n_thorough=2000,
               panic_is_violation=True)],
    trusted=["bloom: ops 18 (clone probe) and 19 (round-trip check) are answered by the model with a constant justified by a theorem (no false negatives; round trip + size formula): they are Spec checks on the crate (plus panic detection), not model-vs-crate comparisons of computed positions / bytes; used for filters with thousands of hash functions and for 2^20-bit filters",
             "bloom: the modelled panic sites of BloomFilter::deserialize are what I read in bloom/sketch.rs (none remain: every read is "
             "bounds-checked by SketchSlice); allocation accounting = bytes requested through the global allocator inside deserialize()"],
    assumptions=[],
    covers="bloom: bf_deserialize never Stuck for ANY byte list (c14_bloom_never_stuck); Ok => well formed, the bit array of a long-form "
           "image is backed by input bytes; the allocation is read off the reader itself: the instrumented reader bf_deserialize_cost follows "
           "deserialize()'s control flow, its outcome is bf_deserialize's and its request is bf_alloc_bytes (c14_bloom_cost_is_reader), which "
           "is <= the input length for every long-form input whatever the outcome (c14_bloom_reader_alloc_justified, c14_bloom_alloc_justified, "
           "c14_bloom_ok_is_wf); well formed => every later operation is safe "
           "(c14_bloom_ok_is_usable); tie: structure-aware mutations (bit/byte flips in preamble and payload, boundary values of "
           "num_hashes / num_longs / count, each numeric field of an otherwise valid image at each of its type boundaries, truncation at every offset, extension, form confusion, random bytes) through "
           "deserialize with allocation accounting, every accepted value queried, inserted into, inverted, forked, unioned / "
           "intersected with its fork, re-serialized, round-tripped, reset. Fixed on the way: fff8c98 (allocation before the "
           "length check), 6130c6a (stale bit count accepted). Known: the EMPTY-flag form allocates the announced all-zero array",
)
