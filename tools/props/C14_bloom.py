SPEC_PART = dict(
    props_file="C14_bloom",
    legs=[dict(family="bloom", focus="malformed", oracles=["no_panic"], profiles=["debug", "release"], n_quick=150, n_thorough=2000,
               panic_is_violation=True)],
    trusted=["bloom: the modelled panic sites of BloomFilter::deserialize are what I read in bloom/sketch.rs (none remain: every read is "
             "bounds-checked by SketchSlice); allocation accounting = bytes requested through the global allocator inside deserialize()"],
    assumptions=[],
    covers="bloom: bf_deserialize never Stuck for ANY byte list (c14_bloom_never_stuck); Ok => well formed, the bit array of a long-form "
           "image is backed by input bytes, the cost function bf_alloc_bytes equals the accepted array and is <= the input length for "
           "every long-form input (c14_bloom_ok_is_wf, c14_bloom_alloc_justified); well formed => every later operation is safe "
           "(c14_bloom_ok_is_usable); tie: structure-aware mutations (bit/byte flips in preamble and payload, boundary values of "
           "num_hashes / num_longs / count, each numeric field of an otherwise valid image at each of its type boundaries, truncation at every offset, extension, form confusion, random bytes) through "
           "deserialize with allocation accounting, every accepted value queried, inserted into, inverted, forked, unioned / "
           "intersected with its fork, re-serialized, round-tripped, reset. Fixed on the way: fff8c98 (allocation before the "
           "length check), 6130c6a (stale bit count accepted). Known: the EMPTY-flag form allocates the announced all-zero array",
)
