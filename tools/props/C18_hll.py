SPEC_PART = dict(
    props_file="C18_hll",
    legs=[dict(family="hll", focus="size", oracles=["layout_ok"], profiles=["debug"], mask=[1, 2, 7], n_quick=8, n_thorough=40)],
    trusted=[], assumptions=[], covers="hll: placeholder",
)
