SPEC_PART = dict(
    props_file="C18_hll",
    legs=[dict(family="hll", focus="size", oracles=["layout_ok"], profiles=["debug"], mask=[1, 2, 7], n_quick=8, n_thorough=40, panic_is_violation=True)],
    trusted=["hll: Model/HllCodec.v hll_serialize mirrors HllSketch::serialize (tied byte for byte by the correspondence run, op 7)"],
    assumptions=["hll: coupons with a value field in 1..63; 4 <= lg_k <= 21"],
    covers="hll: for every stream (all lg_k, types) the image of the reached sketch has exactly 8 + 4c (list, c <= 7 distinct "
           "coupons), 12 + 4c (set, 4c <= 3 * 2^(lg_k-3)), 40 + k/2 + 4 aux (Hll4; aux = number of registers >= cur_min + 15 <= k), "
           "40 + 3k/4 + 1 (Hll6) or 40 + k (Hll8) bytes -- c18_hll_image_size_of_stream, from the C02 refinement invariant; the same "
           "formula for any well-formed sketch (merged, deserialized). Tie: serialize().len() of the crate after every power-of-two "
           "prefix of growing streams (distinct, repeated, crafted coupons), checked by the Spec oracle (layout_ok computes the size "
           "from the exact coupon set / register maxima) and byte for byte against the model.",
)
