SPEC = dict(
    props_file="C14",
    legs=[dict(family="countmin", focus="malformed", oracles=["no_panic"], profiles=["debug", "release"], n_quick=150, n_thorough=2000,
               panic_is_violation=True)],
    level_text="Theorems (Props/C14.v and its parts Props/C14_<family>.v): the modelled deserializers are total and never reach a modelled panic site for ANY byte string; "
               "whatever they accept is well-shaped (table sizes, ranges) with allocation justified by the input length. Tie: structure-aware "
               "mutations of valid images and random bytes are fed to the crate (debug+release, catch_unwind, counting allocator: peak > 64*len+1MiB "
               "is flagged) and to the model; outcome classes must agree and every Ok value is queried, forked and re-serialized.",
    level_note="Partial: panics inside std, stack depth and real allocator behaviour are runtime facts observed by the harness, not modelled. "
               "The base file holds the Count-Min statements; the other families are parts (covered / NOT covered families are listed at the end of this note).",
    technique="Coq totality/no-stuck theorems over parser models + mutation-based differential testing with allocation accounting",
    trusted=["the set of modelled panic sites is what I read in the Rust readers"],
    assumptions=[],
)
