SPEC_PART = dict(
    props_file="C17_bloom",
    legs=[dict(family="bloom", focus="extremes", oracles=["no_panic"], profiles=["debug", "release"], n_quick=100, n_thorough=500,
               panic_is_violation=True),
          dict(family="bloom", focus="extremes-huge", oracles=["no_panic"], profiles=["debug", "release"], n_quick=8, n_thorough=60,
               panic_is_violation=True)],
    trusted=["bloom: ops 18 (clone probe) and 19 (round-trip check) are answered by the model with a constant justified by a theorem (no false negatives; round trip + size formula): they are Spec checks on the crate (plus panic detection), not model-vs-crate comparisons of computed positions / bytes; used for filters with thousands of hash functions and for 2^20-bit filters",
             "bloom: with_accuracy's assertions (max_items > 0, fpp in (0, 1]) and its float arithmetic / float->integer casts "
             "(ln-based sizing, ceil, `as u64`, clamp) have no Coq counterpart: the model receives the generator's recomputation of "
             "(num_bits, num_hashes) and the oracle only demands what the builder documents (capacity >= 64, multiple of 64, "
             "1 <= num_hashes <= 32767); covered by the harness only",
             "bloom: panic sites modelled as Stuck: builder range assertions, compatibility assertion of union/intersect, the subtraction "
             "in invert; indexing, % capacity and num_bits_set += 1 are covered by explicit bounds in c17_bloom_ops_safe"],
    assumptions=["bloom: builder arguments within the documented ranges (1 <= num_bits <= MAX_NUM_BITS, 1 <= num_hashes <= 32767), "
                 "union / intersect operands compatible"],
    covers="bloom: every history of valid calls evaluates to Ok - never Stuck (c17_bloom_history_never_stuck); operation-wise for any "
           "well-formed filter: insert / contains_and_insert / reset total, invert cannot underflow, union / intersect of compatible "
           "filters succeed, serialize+deserialize succeeds, num_bits_set + 1 < 2^64, capacity > 0, every bit index addresses a word "
           "(c17_bloom_ops_safe); tie: valid histories only, at the extremes (1 bit .. 2^20 bits, word boundaries, 1 .. 32767 hash "
           "functions, seeds 0 and 2^64-1, extreme i64 items, builder limits; with_accuracy at each documented extreme in every run: fpp = 1.0 exactly, the largest double below 1.0, 0.5, 1e-300, f64::MIN_POSITIVE with max_items 1, 2 and huge, every filter it builds then exercised), debug + release, any panic is a violation",
)
