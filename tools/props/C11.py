SPEC = dict(
    props_file="C11",
    legs=[dict(family="countmin", focus="codec", oracles=["prop_roundtrip"], profiles=["debug", "release"], panic_is_violation=True, n_quick=150, n_thorough=1500)],
    level_text="Theorems (Props/C11.v and its parts Props/C11_<family>.v): per family, deserialize(serialize(s)) = Ok s for every well-formed state and every reachable "
               "state is well-formed (so queries, re-serialization and all further behaviour coincide). Tie: model bytes = crate bytes, and "
               "a twin oracle on the crate alone: after forking a sketch through serialize/deserialize every subsequent operation "
               "applied to both copies must give identical observations.",
    level_note="Props/C11.v holds the Count-Min statements; every other family is a part (Props/C11_<family>.v); the families covered and NOT covered are listed at the end of this note.",
    technique="Coq round-trip theorems over byte-level codec models + differential twin testing of the crate",
    trusted=["codec models written by hand from the Rust writers/readers; tied by byte-for-byte comparison of serialize() output"],
    assumptions=[],
)
