SPEC_PART = dict(
    props_file="C12_bloom",
    legs=[dict(family="bloom", focus="codec", oracles=["prop_layout"], profiles=["debug"], n_quick=100, n_thorough=1000, panic_is_violation=True)],
    trusted=["bloom image layout = my reading of the Java/C++ BloomFilter format (DESIGN.md Appendix A; Spec/BloomLayout.v, literal "
             "constants only); doubt recorded: the decoder takes preamble-longs 3 or 4 for either form"],
    assumptions=[],
    covers="bloom: the independent layout decoder recovers (num_hashes, seed, word count, bit array, count) from the modelled "
           "writer's bytes for every well-formed filter (c12_bloom_writer_conforms); the writer's output is literally the "
           "specification's encoding (c12_bloom_writer_is_spec_encoding); spec decoder inverts spec encoder on every variant; "
           "translated constants (serial version 1, EMPTY flag 4, family 21, preamble longs 3/4, dirty marker 2^64-1) equal the "
           "specification's; tie: the spec decoder run on the crate's real serialize() output must give exactly the bit set the "
           "position-set Spec computes from the history",
)
