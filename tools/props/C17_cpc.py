SPEC_PART = dict(
    props_file="C17_cpc",
    legs=[dict(family="cpc", focus="extremes", oracles=["prop_ok", "extremes_ok"], profiles=["debug", "release"],
               n_quick=None, n_thorough=None, panic_is_violation=True)],
    trusted=["cpc: the modelled panic sites of cpc/sketch.rs, cpc/mod.rs, cpc/union.rs, determine_pseudo_phase and the capacity "
             "asserts of PairTable::rebuild are the debug_assert!/assert!/expect/index/overflow sites I read in the sources; "
             "PairTable's probing asserts (slot layout) are outside the set model",
             "cpc: serialize / deserialize / estimators / CpcWrapper have no Coq model of their own here (symbol-level coders: "
             "C11_cpc; framing: C12_cpc; reader: C14_cpc): on this leg they are executed at the configuration extremes "
             "(op big: lg_k 17..26 with a window, serialize + deserialize + estimate + bounds + wrapper + union) under "
             "catch_unwind in both profiles, any panic is a violation",
             "cpc: the scripted large sketches (lg_k 17..26) are answered by the model in closed form (C = number of distinct pairs, "
             "flavor and offset as functions of C, justified by c05_cpc_refines), not by executing the list model"],
    assumptions=["cpc: lg_k in 4..=26, pairs with row < K, 8C < 475K (offset <= 56), surprising values within the table capacity "
                 "3/4 * 2^min(26, lg_k+5) (cpc_fits / usteps_fit / result_fits of C05 / C06; c17_cpc_table_capacity_needed shows the "
                 "model Stuck and the crate panicking beyond it), one seed per union"],
    covers="cpc: update path, validate, build_bit_matrix (c17_cpc_update_no_stuck), union update / to_sketch (c17_cpc_union_no_stuck) "
           "never reach a modelled panic site; the u64 arithmetic of the repaired determine_flavor / determine_pseudo_phase equals the "
           "unbounded thresholds for every lg_k <= 26 and every u32 coupon count and never trips the overflow check "
           "(c17_cpc_flavor_u64_exact, c17_cpc_pseudo_phase_u64_exact, c17_cpc_pseudo_phase_no_stuck, c17_cpc_sliding_phase_lt_16: the "
           "serializer's table indices are in range); HISTORICAL, about the code before the repair: the u32 arithmetic is exact only on "
           "part of the domain and refuted with the replayed witnesses (c17_cpc_*_u32_exact_partial, c17_cpc_*_u32_refuted)",
)
