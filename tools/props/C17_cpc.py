SPEC_PART = dict(
    props_file="C17_cpc",
    legs=[dict(family="cpc", focus="extremes", oracles=["prop_ok", "extremes_ok"], profiles=["debug", "release"],
               n_quick=None, n_thorough=None, panic_is_violation=True)],
    trusted=["cpc: the modelled panic sites of cpc/sketch.rs, cpc/mod.rs, cpc/union.rs and determine_pseudo_phase are the "
             "debug_assert!/assert!/expect/index/overflow sites I read in the sources; PairTable's own asserts (capacity: more than "
             "24K surprising values) are outside the set model",
             "cpc: the scripted large sketches (lg_k 17..26) are answered by the model in closed form (C = number of distinct pairs, "
             "flavor and offset as functions of C, justified by c05_cpc_refines), not by executing the list model"],
    assumptions=["cpc: lg_k in 4..=26, pairs with row < K, 8C < 475K (offset <= 56), one seed per union"],
    covers="cpc: update path, validate, build_bit_matrix (c17_cpc_update_no_stuck), union update / to_sketch (c17_cpc_union_no_stuck) "
           "never reach a modelled panic site; the u64 arithmetic of the repaired determine_flavor / determine_pseudo_phase equals the "
           "unbounded thresholds for every lg_k <= 26 and every u32 coupon count and never trips the overflow check "
           "(c17_cpc_flavor_u64_exact, c17_cpc_pseudo_phase_u64_exact, c17_cpc_pseudo_phase_no_stuck); the pre-repair u32 arithmetic "
           "is refuted with the replayed witnesses (c17_cpc_flavor_u32_refuted, c17_cpc_pseudo_phase_u32_refuted)",
)
