SPEC_PART = dict(
    props_file="C14_theta",
    legs=[dict(family="theta", focus="malformed", oracles=["no_panic"], profiles=["debug", "release"],
               mask=[7, 12, 13], n_quick=150, n_thorough=2000, panic_is_violation=True)],
    trusted=["the set of modelled panic sites is what I read in theta/sketch.rs and theta/bit_pack.rs (asserts, unreachable!, "
             "indexing, shifts, subtraction/addition overflow)"],
    assumptions=["inputs are byte strings (every element below 256)"],
    covers="theta: c_deserialize never reaches a modelled panic site for any byte string; Ok => entries in (0, theta), theta in "
           "[1, 2^63-1], ascending when ordered, and at most 8*|input| entries; every such value re-serializes both ways without a "
           "panic. Six defects found and repaired in /repo (D14 entry_bits/count bytes, allocation before length check incl. an "
           "abort, delta-sum overflow, D12 ordered flag, theta = 0 bounds panic) - known_findings.d/theta-*.json. Tie: mutated "
           "images of all variants (field-aware: counts, theta, flags, entry_bits, count bytes, truncation, extension, adjacent "
           "swaps under ORDERED at odd and even indices) and random bytes: no panic, no allocation above 64*len+1MiB, outcome "
           "and value equal to the model's, every Ok value queried (estimate, bounds) and re-serialized both ways")
