SPEC_PART = dict(
    props_file="C14_theta",
    legs=[dict(family="theta", focus="malformed", oracles=["no_panic", "roundtrip_ok"], profiles=["debug", "release"],
               mask=[7, 12, 13, 15, 17, 18], n_quick=150, n_thorough=2000, panic_is_violation=True)],
    trusted=["the set of modelled panic sites is what I read in theta/sketch.rs and theta/bit_pack.rs (asserts, unreachable!, "
             "indexing, shifts, subtraction/addition overflow)",
             "CompactThetaSketch::lower_bound()/upper_bound() end in `.expect(\"compact theta should always be valid\")`: the only "
             "Err exit of binomial_bounds is theta outside (0, 1], excluded by 0 < theta <= 2^63-1 of every accepted value "
             "(c14_theta_ok_is_usable); the ln/sqrt code of common/binomial_bounds.rs itself is not modelled - the harness calls the "
             "bounds (1, 2, 3 std devs) on every accepted value in both profiles",
             "distinctness of the entries of an unordered image is not checked by the crate's reader (nor the C++ one) and is not "
             "part of c_safe / c_wf: `[5,5,5]` unordered is accepted with estimate 3"],
    assumptions=["inputs are byte strings (every element below 256)",
                 "any reader seed: one whose 16-bit seed hash is zero is answered with Err (c14_theta_zero_seed_hash_is_err; the "
                 "unrepaired crate panicked: known_findings.d/theta-zero-seed-hash-panic.json)"],
    covers="theta: c_deserialize never reaches a modelled panic site for any byte string (running out of loop fuel counts as "
           "one); Ok => well-formed for both writers (entries in (0, theta), theta in [1, 2^63-1], ascending when ordered, flagged "
           "empty only without entries and with theta = 2^63-1, seed hash the reader's unless empty, < 2^32 entries), hence "
           "deserialize(serialize[_compressed](value)) = value; at most 8*|input| entries for Ok results, and the two length "
           "guards in front of the reader's only allocations bound the request by the remaining bytes whatever the outcome (the "
           "model has no allocator: that part is the guards as modelled + the harness's counting allocator). Six defects found "
           "and repaired in /repo (D14 entry_bits/count bytes, allocation before length check incl. an "
           "abort, delta-sum overflow, D12 ordered flag, theta = 0 bounds panic, serVer 4 EMPTY flag with entries) - known_findings.d/theta-*.json. Tie: mutated "
           "images of all variants (field-aware: counts, theta, flags, entry_bits, count bytes, truncation, extension, adjacent "
           "swaps under ORDERED at odd and even indices, EMPTY set over entries with good and bad seed hash, ORDERED cleared in "
           "serVer 4, undefined flag bits) and random bytes: no panic, no allocation above 64*len+1MiB, outcome "
           "and value equal to the model's, every Ok value queried (estimate, bounds), re-serialized both ways and forked "
           "through a writer and the reader (op 15: equal dump, equal bytes)")
