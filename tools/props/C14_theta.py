SPEC_PART = dict(
    props_file="C14_theta",
    legs=[dict(family="theta", focus="malformed", oracles=["no_panic"], profiles=["debug", "release"],
               mask=[7, 12, 13], n_quick=150, n_thorough=2000, panic_is_violation=True)],
    trusted=[], assumptions=[], covers="theta: TBD")
