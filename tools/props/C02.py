SPEC = dict(
    props_file="C02",
    legs=[dict(family="hll", oracles=["prop_ok"], profiles=["debug", "release"], mask=[1, 2, 3, 4, 5, 6],
               n_quick=90, n_thorough=900)],
    level_text="placeholder",
    level_note="placeholder",
    technique="Coq proof by invariants + differential correspondence model vs crate",
    trusted=[],
    assumptions=[],
)
