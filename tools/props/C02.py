SPEC = dict(
    props_file="C02",
    legs=[dict(family="hll", oracles=["prop_ok"], profiles=["debug", "release"], mask=[1, 2, 3, 4, 5, 6],
               n_quick=90, n_thorough=900, panic_is_violation=True)],
    level_text="Theorems (Props/C02.v, 19 statements + 3 non-vacuity examples) over an executable Gallina model of "
               "hll/{sketch,list,hash_set,container,array4,aux_map,array6,array8,estimator}.rs written function by function "
               "(list -> hash set -> growth -> array promotion, Array4 nibbles + cur_min + aux map + shift_to_bigger_cur_min, "
               "Array6 16-bit windows, Array8, HIP state over binary64 primitive floats), generic in the estimator. "
               "Proved for ALL lg_k in 4..21, all three target types and ALL streams of coupons with value 1..63 (hence "
               "every prefix): c02_hll_refines -- update_with_coupon never reaches a panic site and the sketch shows "
               "exactly the Spec: mode = function of (lg_k, #distinct coupons), Container::iter = the distinct coupons "
               "(no duplicate, none lost) and len = their number in list/set mode, Array{4,6,8}::get j = max value over "
               "the coupons mapped to slot j in array mode; c02_hll_set_determined -- order/multiplicity independence; "
               "c02_hll_types_same_estimator(_estimates) -- Hll4/Hll6/Hll8 hand identical (old,new) transitions and the same "
               "unhit count to any estimator, so HIP estimate and all bounds are bit-identical; c02_array4_inv_* -- the "
               "nibble/aux/cur_min/num_at_cur_min invariant (DESIGN B.4) holds initially, is preserved by update (four "
               "branches) and by shift_to_bigger_cur_min, and the shift loop terminates within 64 - cur_min rounds; "
               "c02_array6_get_put / c02_array4_nibble_get_put -- bit-level packing; c02_openaddr_* -- odd stride => probe "
               "sequence is a permutation, find returns the key's cell or the first empty cell on its path, insert keeps "
               "the invariant, no key stored twice; instantiated for HashSet::update and AuxMap insert(+grow)/replace/get. "
               "The crate is tied to the model by the correspondence run: after every op of crafted and hashed streams "
               "(three types in lock step, two permuted groups) mode, lg sizes, sorted coupons, raw table order, register "
               "values, cur_min, num_at_cur_min, aux pairs, hip/kxq0/kxq1 bits, estimate and six bounds must be equal, in "
               "debug and release builds; the oracle re-evaluates the Spec (coupon set / per-slot max / mode / equality "
               "across types) on the crate's own observations.",
    level_note="No theorem is partial: the structural claim of C02 is proved in full for the model. What the proof does NOT "
               "carry: (1) the model-to-code step is the translator (constants, tables, in-function literals) plus the "
               "differential correspondence run, not a proof about the Rust source; (2) the item -> coupon map (MurmurHash3, "
               "leading zeros, 26-bit slot) is C16's subject, here items are hashed by tools/pyref.py and the coupon is "
               "checked through the observations; (3) u8/u32/usize width of the Rust variables is not modelled (unbounded "
               "N); the invariant bounds every modelled quantity (values <= 63, counts <= 2^21) far below the widths, but "
               "that argument is informal; (4) the HIP accumulator VALUE is order dependent by design and only its "
               "equality across types is proved; the composite (ln-based) estimator of out-of-order sketches is outside "
               "C02 (never reached by update histories).",
    technique="Coq proof by invariants and lock-step simulation (generic open-addressing development, Array4 invariant over "
              "an abstract register file, refinement to the per-slot-max Spec by induction over arbitrary coupon lists; two "
              "finite kernel sweeps: 256x16 nibble cases, lg_aux_arr_ints for lg_k 4..21) + differential correspondence "
              "model vs crate (extracted OCaml, primitive floats bit-for-bit) + Spec oracle on the crate's observations",
    trusted=["Coq 8.16 kernel incl. primitive floats/Int63 and vm_compute; extraction to OCaml (ExtrOcamlBasic, "
             "ExtrOCamlFloats, ExtrOCamlInt63) used only by the correspondence run",
             "tools/translate.py (constants KEY_BITS_26, RESIZE_*, AUX_TOKEN, LG_INIT_*, lg_aux_arr_ints table, the literals "
             "8 / 3 of update_with_coupon, 32 of update_kxq, X_ARR/Y_ARR/HIP_LB/HIP_UB) and the harness/driver",
             "the hooks HllSketch::verif_update_with_coupon (calls update_with_coupon) and verif_state (reads fields)",
             "item hashes come from tools/pyref.py (reference MurmurHash3, checked against the crate in C16 and here "
             "indirectly: the crate's own coupons must equal the reference coupons)",
             "Rust fixed-width arithmetic is outside the model (unbounded N); every modelled quantity is bounded by the "
             "proved invariant far below u8/u32 limits"],
    assumptions=["coupons have a value field in 1..63 (what coupon() produces: min(lz,62)+1); the all-zero coupon is the "
                 "container's EMPTY marker and is never produced",
                 "4 <= lg_k <= 21 (HllSketch::new panics otherwise; modelled as Stuck)"],
)
