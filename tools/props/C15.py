SPEC = dict(
    props_file="C15",
    legs=[dict(family="tdigest", focus="c15", oracles=["c15_ok"], tie_oracles=["tie_ok"], profiles=["debug", "release"],
               mask=[0, 1, 7, 8, 9, 10, 14, 15, 17], n_quick=80, n_thorough=160)],
    level_text="STRUCTURAL HALF ONLY. Theorems (Props/C15.v): do_merge is modelled as the relation merge_rel that every "
               "decision sequence of the pass satisfies (output = partition of the stably sorted input into contiguous "
               "non-empty groups, first and last group singletons, each output centroid = summed weight and exact weighted "
               "mean of its group); from it: weights are preserved, output means are sorted and inside the input's range, "
               "the first/last output centroid is a minimal/maximal input element; for every in-process history "
               "(update / compress / merge trees) centroid weights + buffered values = total_weight, means sorted and "
               "inside [min,max], first mean = min and last mean = max once compressed, buffer <= 4*(2k+fudge). The boolean "
               "checker valid_merge is proved sound for the relation. Tie (translation validation): after every real "
               "compression (dump, peek before each query, merge, freeze) the harness hands (previous centroids + buffered "
               "values, new centroids) to the extracted valid_merge (group means compared with the exact rational group "
               "means at 1e-9), and the structural claims are evaluated on every centroid dump of the crate (c15_ok), in "
               "debug and release builds, for k 10..500 and streams of every shape, merge trees, freeze/unfreeze, round trips.",
    level_note="NO THEOREM for (i) 'never more than 2k+30 centroids' (a consequence of the real-analytic shape of the k2 scale "
               "function q(1-q)*(4 ln(n/2k)+24)/(2k); the merge decisions depend on ln and are not recomputed in Coq) and "
               "(ii) the rank error against the empirical distribution (data-dependent). Both are MEASURED as labelled tests "
               "only: the oracle c15_ok fails a run whose in-process digest holds more than 2k+30 centroids or whose "
               "first/last centroid is not a unit-weight centroid sitting on min/max, and tools/families/tdigest.py records "
               "max centroids/(2k+30) and max |rank - empirical rank| (absolute and in units of q(1-q)/k) in "
               "evidence/measured/C15-tdigest-measured-tests.json, labelled 'test, not proof'. 'Unit-weight extremes' is an observed fact "
               "(it depends on the stability of the sort on ties); the theorem proved is 'first/last MEAN = min/max'. The "
               "theorems are over exact rationals: binary64 rounding of the group means is compared at 1e-9, not proved.",
    technique="Coq: relational model of the merge pass + proved-sound checker (translation validation of every real pass) + "
              "invariant over in-process histories; differential correspondence; measured tests for the analytic half",
    trusted=["slice::sort_by is a stable sort (std; modelled by a stable merge sort whose output is proved a sorted permutation)",
             "the extracted valid_merge sees the crate's centroids through serialize() (exact bit patterns -> exact rationals)",
             "the 2k+30 bound and the rank-error claims are measured, not proved (DESIGN.md section 9)"],
    assumptions=["finite f64 values; total weight below 2^53"],
)
