SPEC = dict(
    props_file="C15",
    legs=[dict(family="tdigest", focus="c15", oracles=["c15_ok", "acc_ok"], tie_oracles=["tie_ok"], profiles=["debug", "release"],
               mask=[0, 1, 7, 8, 9, 10, 14, 15, 17], n_quick=80, n_thorough=160)],
    level_text="STRUCTURAL HALF ONLY. Theorems (Props/C15.v): do_merge is modelled as the relation merge_rel that every "
               "decision sequence of the pass satisfies (output = partition of the stably sorted input into contiguous "
               "non-empty groups, first and last group singletons, each output centroid = summed weight and exact weighted "
               "mean of its group); from it: weights are preserved, output means are sorted and inside the input's range, "
               "the first/last output centroid is a minimal/maximal input element; for every in-process history "
               "(update / compress / merge trees from new(k); histories started from a decoded image keep sortedness and range, "
               "Props/C10.v) centroid weights + buffered values = total_weight, means sorted and inside [min,max], first mean = "
               "min and last mean = max once compressed, buffer <= 4*(2k+fudge). The boolean checker valid_merge is proved sound "
               "for the relation. Tie (translation validation): after every real compression (dump, peek before each query, "
               "merge, freeze) the harness hands (previous centroids + buffered values, new centroids) to the extracted "
               "valid_merge (group means compared with the exact rational group means at 1e-9), and the structural claims are "
               "evaluated on every centroid dump of the crate (c15_ok), in debug and release builds, for k 10..500 (and 32768.."
               "65535), streams of every shape incl. finite values of both signs next to f64::MAX with k 10..20 and n >= 1000 "
               "(Centroid::add's overflow fallback) and heavily repeated values, merge trees, freeze/unfreeze, round trips.",
    level_note="NO THEOREM for the analytic half: (i) 'never more than 2k+30 centroids' and (ii) accuracy. Both are LABELLED "
               "TESTS with a pass/fail threshold, evaluated by extracted Coq oracles on the crate's observations; the constants "
               "are calibrated on the unchanged crate, they detect regressions and prove nothing. (i) c15_ok fails a run whose "
               "in-process digest holds more than 2k+30 centroids (measured worst 0.56 of the bound in the quick tier; the second review measured 0.66) or whose first/last "
               "centroid is not a unit-weight centroid on min/max. (ii) acc_ok (Corr/TDigest.v): (B) on every dump of an "
               "in-process digest every centroid of weight w >= 2 satisfies w - 1 <= 2 * n * max(q0(1-q0), q2(1-q2)) * Z/(2k), "
               "Z = 4 ln(n/2k) + 24, i.e. twice the k2 scale-function limit the merge pass enforces at merge time, k = the "
               "smallest compression that contributed (measured worst ratio 1.00 against the threshold 2; the seeded 'equal "
               "means always merge' gives 2300); (A) on every rank query of a never-merged in-process digest whose values are "
               "all known, |rank(v) - exact empirical mid-rank| <= 1/(2n) + 4 * S/n, S = weight of the centroids around v (two "
               "below, those at v, two above) (measured worst ratio 0.46 quick tier / 1.76 on 60000-value streams against the threshold 4). "
               "Together: rank error <= 1/(2n) + 4 * (at most 4 + ties clusters) each <= 1 + 2 n q(1-q) Z/(2k). What the test "
               "does NOT show, and the measurement contradicts any stronger reading: there is no a-priori bound c*q(1-q)/k on "
               "the ABSOLUTE rank error for arbitrary data -- measured worst |rank - empirical rank| = 0.63 (0.857 at k = 10 and 0.376 at k = 100 in the second review's runs) (k = 10, n = 60000, "
               "magnitudes log-uniform over 2^+-300: linear interpolation between two clusters holding 30 % of the weight "
               "each), 0.47 after merging digests of different k (k = 10 side dominates); for k near 10 the scale-function "
               "limit exceeds the total weight and checks nothing. After a merge with a coarser digest clusters overlap and (A) "
               "is recorded only (worst ratio 12.5). The worst cases of every run are written to evidence/measured/"
               "C15-tdigest-measured-tests.json next to the thresholds, labelled 'test, not proof'. 'Unit-weight extremes' is an "
               "observed fact (it depends on the stability of the sort on ties); the theorem proved is 'first/last MEAN = "
               "min/max'. The theorems are over exact rationals and the exact relation merge_rel 0: binary64 rounding of the "
               "group means is compared at 1e-9, not proved.",
    technique="Coq: relational model of the merge pass + proved-sound checker (translation validation of every real pass) + "
              "invariant over in-process histories; differential correspondence; labelled threshold tests (extracted Coq "
              "oracles, no theorem) for the analytic half",
    trusted=["slice::sort_by is a stable sort (std; modelled by a stable merge sort whose output is proved a sorted permutation)",
             "the extracted valid_merge sees the crate's centroids through serialize() (exact bit patterns -> exact rationals)",
             "the 2k+30 bound, the cluster-size bound and the rank-error bound are threshold tests with calibrated constants, not "
             "proved (DESIGN.md section 9)"],
    assumptions=["finite f64 values; total weight below 2^53"],
)
