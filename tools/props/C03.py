SPEC = dict(
    props_file="C03",
    legs=[dict(family="hll", focus="union", oracles=["union_ok"], profiles=["debug", "release"],
               mask=[10, 11, 12, 13, 14, 15, 16, 17, 18, 20, 22], n_quick=120, n_thorough=1500, panic_is_violation=True)],
    level_text="Theorems (Props/C03.v) over an executable Gallina model of hll/union.rs and of the Array8 bulk functions it "
               "uses (Model/HllUnion.v, one definition per Rust function: update dispatch, clone fast path, coupon replay, "
               "copy_or_downsample, merge_array_same_lgk / with_downsample, gadget shrink, promote-and-merge, "
               "rebuild_cached_values, to_sketch with convert_array8_to_type, update_value, reset), on top of the C02 model. "
               "Inputs are arbitrary well-formed source sketches (SrcOK): any lg_k, any target type, list / set / array, "
               "ANY estimator state (in order or out of order). SrcOK is proved for sketches built by new + updates "
               "(c03_stream_is_source), their out-of-order copies (c03_estimator_state_irrelevant), results of to_sketch "
               "(c03_to_sketch_type_independent) and for what HllSketch::deserialize returns on a canonical image -- every "
               "image the crate / Java / C++ writes (c03_deserialized_is_source); accepted NON-canonical images (a set image "
               "with fewer than 8 coupons, an Hll4 image with no register at cur_min) are outside the theorems. Proved for all lg_max in 4..21 and all operation sequences (update, update_value, reset "
               "interleaved): c03_union_refines -- no panic site is reached and the gadget shows exactly the Spec: "
               "coupon-set union at lg_max while sparse (mode = function of the number of distinct coupons), otherwise "
               "register j = max over all merged coupons folded to slot j mod 2^lg with lg = min(lg_max, lg_k of the "
               "non-empty array-mode inputs); c03_union_order_independent -- any order, any repetition, any concrete "
               "representation of the same set of abstract inputs gives the same lg_k / mode / coupons / registers "
               "(commutative, idempotent); c03_union_associative -- to_sketch(t) of one union merged into another with further inputs shows "
               "the same state as a single union of everything; c03_to_sketch_type_independent -- to_sketch(Hll4/6/8) agree on registers, "
               "out-of-order flag and all estimator inputs (so estimate and bounds are bit-identical) and the result is "
               "again a well-formed source representing the Spec state (unions compose); c03_union_nonzero_partial -- an "
               "out-of-order source always leaves an out-of-order gadget with a non-zero register. The two defects D2/D3 "
               "were confirmed on the crate, repaired by fix: commits, and the repaired code is what is modelled. "
               "The crate is tied by the correspondence run (source sketches, gadget and to_sketch(t) dumps incl. flag, "
               "hip/kxq bits, lg_k, is_empty after every step, debug + release) and by the Spec oracle on the crate's own "
               "observations, which also compares estimate and six bounds across the three types and with the union's "
               "own, and requires them positive and finite once any coupon was merged.",
    level_note="PARTIAL in one respect: 'a union of non-empty inputs never reports an estimate of zero' is proved only "
               "structurally (c03_union_nonzero_partial: flag propagation + non-zero register); that the composite / HIP "
               "VALUE is > 0 needs float positivity and the ln-based composite estimator, which is not modelled -- it is "
               "checked on the crate by the oracle for every generated case. kxq0/kxq1 after rebuild_cached_values are float sums "
               "in slot order: mirrored bit-for-bit by the model and tied by correspondence, no rounding analysis. "
               "Deserialized inputs are represented in the correspondence run by array-mode sketches round-tripped through "
               "serialize/deserialize with the OUT_OF_ORDER flag forced (what Java/C++ unions emit); foreign and malformed-but-"
               "accepted images of every mode are merged into a union in the C13 / C14 legs (op 30). The union's own "
               "estimate()/bounds and those of to_sketch(t) are called on the crate only (ops 19, 21: the composite estimator is "
               "not modelled) and judged by the oracle; a union result is also sent through serialize / deserialize / serialize "
               "(op 22): the copy must show the union's Spec state and re-serialize to the same bytes (before fix e763c00 a copy "
               "of an in-order Hll8 source was out of order with a non-zero HIP accumulator and its image changed). Any panic of "
               "the crate in a case is a violation.",
    technique="Coq proof: gadget invariant by induction over arbitrary operation sequences, reusing the C02 lock-step "
              "invariant with a parametric array-mode side condition; register files compared through folding lemmas "
              "(max over s = j mod 2^lg); semilattice laws from the set-determined Spec; + differential correspondence "
              "model vs crate + Spec oracle on the crate's observations",
    trusted=["as C02 (kernel, translator, harness/driver, hooks verif_update_with_coupon / verif_state, pyref hashes)",
             "the composite estimator (ln, cubic interpolation over the composite tables) is not modelled: equality of "
             "estimates/bounds across types is proved through equality of ALL its inputs and checked on the crate",
             "Rust fixed-width arithmetic outside the model (unbounded N); register values <= 63 by the invariant"],
    assumptions=["source sketches are well formed (SrcOK): what HllSketch::new + updates, HllUnion::to_sketch and "
                 "HllSketch::deserialize (canonical images) produce -- each proved; register values in 0..63",
                 "4 <= lg_max_k <= 21"],
)
