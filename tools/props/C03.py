SPEC = dict(
    props_file="C03",
    legs=[dict(family="hll", focus="union", oracles=["union_ok"], profiles=["debug", "release"],
               mask=[10, 11, 12, 13, 14, 15, 16, 17, 18, 20], n_quick=120, n_thorough=1500)],
    level_text="placeholder",
    level_note="placeholder",
    technique="Coq proof + differential correspondence model vs crate",
    trusted=[],
    assumptions=[],
)
