SPEC_PART = dict(
    props_file="C17_hll",
    legs=[dict(family="hll", focus="extremes", oracles=["prop_ok", "union_ok", "no_panic"], profiles=["debug", "release"],
               mask=[1, 2, 3, 4, 5, 6, 7, 8, 10, 11, 12, 13, 14, 15, 16, 17, 18, 20, 22, 30, 31], n_quick=16, n_thorough=100,
               panic_is_violation=True)],
    trusted=["hll: the modelled panic sites are new()'s range assert, 'HashSet full', AuxMap's three unreachable!()s, Array4::update's "
             "expect()s / unreachable!() / counter underflow, the debug assertions and the 64-round bound of shift_to_bigger_cur_min, "
             "the union helpers' asserts / unreachable!()s; u8/u32/usize arithmetic is not modelled "
             "(bounded by the invariants: values <= 63, counts <= 2^21)",
             "hll: estimate() / upper_bound() / lower_bound() of HllSketch and HllUnion have NO theorem: their panic sites (debug "
             "assertions of cubic_interpolation, slice indexing in composite_interpolation / harmonic_numbers, get_rel_err's tables) "
             "have no Stuck counterpart, the model's hll_estimate is a total function and the composite estimator is not modelled; "
             "they are exercised by the run only (ops 4, 5, 19, 21, 32 in every phase of the extremes leg, debug + release)"],
    assumptions=["hll: 4 <= lg_k <= 21 (new() panics otherwise: documented); coupons as produced by coupon() (value 1..63)",
                 "hll: est_ok for 'the image of a reachable sketch is accepted' (see C11_hll)"],
    covers="hll: HllSketch::new / update for every lg_k in 4..21 (both extremes), type and stream; Array4's shift loop and its (repaired, "
           "D10) debug assertions; HllUnion new / update (any well-formed input) / update_value / reset / to_sketch(t); serialize, "
           "deserialize of reachable sketches and of arbitrary bytes; further updates of, and merges with, what the reader returned "
           "(canonical images: c17_hll_deserialized_updates_never_stuck, c17_hll_deserialized_is_union_input): the model returns Ok "
           "(or Err for bad bytes), never Stuck -- restatements of c02_hll_refines, c03_union_refines, c11_hll_roundtrip_of_stream, "
           "c14_hll_deserialize_total and of the bridge. NOT covered by a theorem: estimate / bounds of sketch and union (see "
           "trusted). Tie: valid histories at lg_k 4 (every stream kind: values up to 63, cur_min shifting to the top, aux growth and "
           "the exception boundary) and lg_k 21 (long list / set phases, set growth), unions with lg_max 4 and 21 over inputs at "
           "lg_k 4, 21 and in between, estimates and bounds, serialize / round trip / re-serialization / merge everywhere; debug and "
           "release, any panic is a violation.",
)
