SPEC = dict(
    props_file="C08",
    legs=[dict(family="countmin", oracles=["prop_ok", "prop_layout"], profiles=["debug", "release"], n_quick=160, n_thorough=2000,
               panic_is_violation=True)],
    level_text="Theorems (Props/C08.v) over an executable model of countmin/sketch.rs for an arbitrary bucket function: "
               "exact table, exact total, truth <= estimate <= total for every item and every stream, merge adds histories, "
               "halve/decay keep the one-sided bound, also for merges interleaved with halve/decay (any program: merge tree "
               "over updated / halved / decayed / round-tripped operands: scaled truth <= estimate <= total). The model is tied "
               "to the crate by running both on the same generated histories (8 counter types, i64 items and multi-write items: "
               "&str, tuples, u128, byte slices; debug+release) and comparing estimates, bounds, totals and serialized tables; "
               "the exact-frequency oracle and the exact-table oracle (independent layout decoder on every serialized image, exact "
               "minimum for every estimate) judge the crate's observations; any panic is a violation (the generator makes valid calls only).",
    level_note="Trusted: Coq kernel, translator (constants), harness/driver, pyref hashes (checked in C16). The (epsilon,delta) "
               "tail claim is distributional: no theorem. The crate's decay is c -> min(trunc(c as f64 * d), c) (clamp added by fix "
               "75cef6f): '0 -> 0' and 'never grows' are proved for any float part; monotonicity of the float part "
               "c -> trunc(c as f64 * d) is an assumption, checked by the oracles on every run (Corr/CountMin.v mono_on: op 6 of "
               "prop_from / layout_from, on every counter value and total the oracle holds at that moment). "
               "c08_halve_decay_one_sided and c08_programs_one_sided assume that the sum of ALL weights ever fed in (sum_w / "
               "pweight, merged partners included) fits the counter type - stronger than 'the final total fits' when halve/decay "
               "shrank the total in between. Negative weights of the signed counter types are outside the model (counters are "
               "naturals); compute_seed_hash's assert (seed hash 0) is modelled in cm_new only: deserialize_with_seed with a seed "
               "whose hash is 0 panics on its argument (not on the bytes) and is outside the model (generators avoid such seeds).",
    technique="Coq proof by induction over histories / programs (invariants Rep/LB) + differential correspondence model vs crate",
    trusted=["bucket indices are supplied by tools/pyref.py (reference MurmurHash3 over the std Hash byte stream of the item, cross-checked in C16)",
             "decay: the theorems are for any monotone scaling g with g 0 = 0 and g c <= c; for the crate's clamped decay the last two "
             "are proved (c08_decay_is_admissible_scaling, c08_decay_never_grows); monotonicity of c -> trunc(fl(c)*d) is checked on "
             "every run by the oracles on the values they see, not proved",
             "the (epsilon, delta) tail claim is distributional and has no theorem (DESIGN.md section 9)"],
    assumptions=["non-negative weights (negative weights of signed counter types are outside the model)",
                 "the sum of all weights fed into a sketch, merged partners included, fits the counter type (the property's own "
                 "precondition, in the strong form: before any halving/decay)",
                 "seeds whose 16-bit seed hash is 0 are rejected by the constructor (documented panic)"],
)
