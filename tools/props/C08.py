SPEC = dict(
    props_file="C08",
    legs=[dict(family="countmin", oracles=["prop_ok"], profiles=["debug", "release"], n_quick=160, n_thorough=2000)],
    level_text="Theorems (Props/C08.v) over an executable model of countmin/sketch.rs for an arbitrary bucket function: "
               "exact table, exact total, truth <= estimate <= total for every item and every stream, merge adds histories, "
               "halve/decay keep the one-sided bound. The model is tied to the crate by running both on the same generated "
               "histories (8 counter types, debug+release) and comparing estimates, totals and serialized tables.",
    level_note="Trusted: Coq kernel, translator (constants), harness/driver, pyref hashes (checked in C16). The (epsilon,delta) "
               "tail claim is distributional: no theorem. Monotonicity of the float decay function is checked per run, not proved.",
    technique="Coq proof by induction over histories (invariants Rep/LB) + differential correspondence model vs crate",
    trusted=["bucket indices are supplied by tools/pyref.py (reference MurmurHash3, cross-checked in C16)",
             "decay: the theorem is for any monotone scaling g with g 0 = 0 and g c <= c; that the crate's "
             "c -> trunc(fl(c)*d) is such a g is checked on every run by the oracle, not proved",
             "the (epsilon, delta) tail claim is distributional and has no theorem (DESIGN.md section 9)"],
    assumptions=["non-negative weights whose total fits the counter type (the property's own precondition)"],
)
