SPEC_PART = dict(
    props_file="C18_cpc",
    legs=[dict(family="cpc", focus="codec", oracles=["layout_ok"], profiles=["debug"], n_quick=20, n_thorough=None,
               mask=[0, 1, 2, 3, 4, 5, 6, 7, 8, 18])],
    trusted=["cpc: the bound on the surprising-value stream (safe_length_for_compressed_pair_buf) and the empirical "
             "max_serialized_bytes percentile have no theorem; the latter is a measured test, not an obligation"],
    assumptions=[],
    covers="cpc: preamble <= 10 ints (c18_cpc_preamble_ints_le_10); image length = 4 * (preamble ints + window words + table words) "
           "(c18_cpc_image_length); a window of K bytes takes between K and 12K bits with any of the 22 tables, so its padded "
           "stream fits ceil((12K+11)/32) words (c18_cpc_window_bits, c18_cpc_window_words); tie: on every serialized sketch the "
           "layout decoder's window word count lies in [ceil((K+11)/32), ceil((12K+11)/32)] and the byte length equals "
           "4 * (preamble ints + both word counts)",
)
