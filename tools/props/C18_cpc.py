SPEC_PART = dict(
    props_file="C18_cpc",
    legs=[dict(family="cpc", focus="size", oracles=["layout_ok"], profiles=["debug", "release"], n_quick=None, n_thorough=None,
               mask=[0, 1, 2, 3, 4, 5, 6, 7, 8, 18, 32], panic_is_violation=True)],
    trusted=["cpc: the bound on the surprising-value stream (safe_length_for_compressed_pair_buf) and the empirical "
             "max_serialized_bytes percentile have no theorem and NO test either: no operation of the harness compares the length of a serialized image with max_serialized_bytes(lg_k) (the table is an empirical percentile, an image may exceed it by design)"],
    assumptions=[],
    covers="cpc (PARTIAL: shape of the size table and the window stream only; no bound on the surprising-value stream, and the claim 'a serialized sketch takes at most max_serialized_bytes(lg_k)' is neither proved nor tested): the 16-entry empirical max_serialized_bytes table has the shape sizes must have - strictly increasing, each entry "
           "less than twice its predecessor (streams double with K, the header does not), at most the 1.5 K bytes of a 12-bit-per-byte "
           "window, meeting the 0.6 K rule at lg_k 19 within 0.1 % (c18_cpc_max_size_table_shape); max_serialized_bytes is defined and "
           "strictly increasing, less than doubling, over lg_k 4..26 across the switch to the binary64 0.6*K rule "
           "(c18_cpc_max_serialized_bytes_monotone; the model's value is compared with the crate's for every lg_k, and 3 / 27 "
           "must panic); preamble <= 10 ints (c18_cpc_preamble_ints_le_10); image length = 4 * (preamble ints + window words + table words) "
           "(c18_cpc_image_length); a window of K bytes takes between K and 12K bits with any of the 22 tables, so its padded "
           "stream fits ceil((12K+11)/32) words (c18_cpc_window_bits, c18_cpc_window_words); tie: on every serialized sketch the "
           "layout decoder's window word count lies in [ceil((K+11)/32), ceil((12K+11)/32)] and the byte length equals "
           "4 * (preamble ints + both word counts)",
)
