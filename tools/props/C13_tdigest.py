SPEC_PART = dict(
    props_file="C13_tdigest",
    legs=[dict(family="tdigest", focus="foreign", oracles=["foreign_ok", "prop_ok"], tie_oracles=["tie_ok"], profiles=["debug", "release"],
               mask=[0, 1, 7, 8, 9, 10, 14, 15, 17, 19, 21], n_quick=150, n_thorough=900, panic_is_violation=True)],
    trusted=["tdigest: images are built by the generator's own encoder (tools/families/tdigest.py: enc_own, enc_ref) from random abstract "
             "states; buffered values cannot be observed before the next compression (no hook): they are checked through total_weight and "
             "through valid_merge of the first compression"],
    assumptions=["tdigest: admissible content: k >= 10, finite values, weights >= 1 with total < 2^64, min/max not NaN"],
    covers="tdigest: for ALL byte strings the modelled reader reads exactly what the layout decoder says, and every image with admissible "
           "layout content is accepted and yields that content -- double and float flavours, empty / single / general form with buffered "
           "values, arbitrary unused bytes and undefined flag bits, reference-implementation big-endian double and float formats "
           "(Props/C13_tdigest.v); tie: spec-encoded images of every variant (and the two reference files) are fed to the crate: k, "
           "total_weight, min, max, is_empty, centroids bit for bit (or a valid merge pass of buffered + centroids), then queries against "
           "the exact model, updates, merges, round trips")
