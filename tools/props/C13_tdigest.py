SPEC_PART = dict(
    props_file="C13_tdigest",
    legs=[dict(family="tdigest", focus="foreign", oracles=["foreign_ok", "tie_ok", "prop_ok"], profiles=["debug", "release"],
               mask=[0, 1, 7, 8, 9, 10, 14, 15, 17, 19, 21], n_quick=150, n_thorough=1500, panic_is_violation=True)],
    trusted=[], assumptions=[], covers="tdigest: TBD")
