SPEC_PART = dict(
    props_file="C13_tdigest",
    legs=[dict(family="tdigest", focus="foreign", oracles=["foreign_ok", "prop_ok"], tie_oracles=["tie_ok"], profiles=["debug", "release"],
               mask=[0, 1, 7, 8, 9, 10, 14, 15, 17, 19, 21], n_quick=150, n_thorough=900, panic_is_violation=True)],
    trusted=["tdigest: Base/TDigestBits.v (f64_of_f32, uint_of_f64, is_nan64: bit-level float conversions) is shared by the modelled "
             "reader and the independent layout decoder, so a mistake there is invisible to the theorems (tied by the correspondence leg only)",
             "tdigest: images are built by the generator's own encoder (tools/families/tdigest.py: enc_own, enc_ref) from random abstract "
             "states; buffered values cannot be observed before the next compression (no hook): they are checked through total_weight and "
             "through valid_merge of the first compression"],
    assumptions=["tdigest: admissible content: k >= 10, finite values, weights >= 1 with total < 2^64, min/max not NaN"],
    covers="tdigest: for ALL byte strings the modelled reader reads exactly what the layout decoder says, and every image with admissible "
           "layout content is accepted and yields that content -- double and float flavours, empty / single / general form with buffered "
           "values, arbitrary unused bytes and undefined flag bits, reference-implementation big-endian double and float formats "
           "(Props/C13_tdigest.v); tie: spec-encoded images of every variant (and the two reference files) are fed to the crate: k, "
           "total_weight, min, max, is_empty, centroids bit for bit (or a valid merge pass of buffered + centroids), then queries against "
           "the exact model (quantile: where q*total is exact, else the property oracle), updates, merges, round trips; images with decimal means, min/max up to 1e15 away from the end means, and MORE buffered values than 4*capacity (fixed 5ca8d9c) are included. NOT covered: there is no theorem about a layout-level ENCODER (none is "
           "defined) -- 'every image a foreign writer can emit' is approximated by 'every byte string the layout decoder reads as an "
           "admissible state'; the bit-level float functions (Base/TDigestBits.v) are shared by the model and the layout decoder")
