(* Little-endian byte codec lemmas shared by every family's serialization proofs. *)
From DS Require Import Base.Prelude.
From Coq Require Import ZifyBool ZifyNat ZifyN.
Open Scope N_scope.

Lemma le_bytes_length n x : length (le_bytes n x) = n.
Proof. revert x; induction n as [|n IH]; intros x; cbn [le_bytes length]; auto. Qed.

Lemma le_val_le_bytes n x : le_val (le_bytes n x) = x mod 256 ^ N.of_nat n.
Proof.
  revert x; induction n as [|n IH]; intros x; cbn [le_bytes le_val].
  - change (256 ^ N.of_nat 0) with 1. rewrite N.mod_1_r. reflexivity.
  - rewrite IH. rewrite Nat2N.inj_succ, N.pow_succ_r'.
    rewrite (N.mul_comm 256), N.mod_mul_r by (try apply N.pow_nonzero; lia). lia.
Qed.

Lemma le_val_le_bytes_small n x : x < 256 ^ N.of_nat n -> le_val (le_bytes n x) = x.
Proof. intros H. rewrite le_val_le_bytes. apply N.mod_small; exact H. Qed.

Lemma le_bytes_ok n x : bytes_ok (le_bytes n x) = true.
Proof.
  revert x; induction n as [|n IH]; intros x; cbn [le_bytes bytes_ok forallb]; auto.
  change (forallb byte_ok (le_bytes n (x / 256))) with (bytes_ok (le_bytes n (x / 256))). rewrite IH.
  unfold byte_ok. pose proof (N.mod_lt x 256 ltac:(lia)). destruct (x mod 256 <? 256) eqn:E; [reflexivity|lia].
Qed.

Lemma le_val_bound l : bytes_ok l = true -> le_val l < 256 ^ N.of_nat (length l).
Proof.
  induction l as [|b l IH]; cbn [bytes_ok forallb le_val length]; intros H.
  - cbn. lia.
  - apply andb_prop in H as [Hb Hl]. specialize (IH Hl). unfold byte_ok in Hb.
    rewrite Nat2N.inj_succ, N.pow_succ_r'. lia.
Qed.

Lemma le_bytes_le_val l : bytes_ok l = true -> le_bytes (length l) (le_val l) = l.
Proof.
  induction l as [|b l IH]; cbn [bytes_ok forallb le_val length le_bytes]; intros H; auto.
  apply andb_prop in H as [Hb Hl]. unfold byte_ok in Hb.
  replace ((b + 256 * le_val l) mod 256) with b.
  2:{ replace (b + 256 * le_val l) with (b + le_val l * 256) by lia. rewrite N.mod_add by lia. symmetry; apply N.mod_small; lia. }
  replace ((b + 256 * le_val l) / 256) with (le_val l).
  2:{ replace (b + 256 * le_val l) with (le_val l * 256 + b) by lia. rewrite N.div_add_l by lia. rewrite (N.div_small b 256) by lia. lia. }
  rewrite IH by exact Hl. reflexivity.
Qed.

Lemma firstn_app_exact {A} (a b : list A) n : length a = n -> firstn n (a ++ b) = a.
Proof. intros <-. rewrite firstn_app, Nat.sub_diag, firstn_all. cbn. apply app_nil_r. Qed.

Lemma skipn_app_exact {A} (a b : list A) n : length a = n -> skipn n (a ++ b) = b.
Proof. intros <-. rewrite skipn_app, Nat.sub_diag, skipn_all. reflexivity. Qed.

Lemma bytes_ok_app a b : bytes_ok (a ++ b) = bytes_ok a && bytes_ok b.
Proof. apply forallb_app. Qed.
