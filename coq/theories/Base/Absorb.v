(* Generic block absorption: consume W-byte blocks from the front of a byte list while
   at least W bytes remain.  Both hashers' `write` loops and their one-shot references
   are instances; the lemmas here carry the chunking-independence proofs of C16. *)
From Coq Require Import List Arith Lia.
Import ListNotations.

Section Absorb.
Context {A B : Type}.
Variable W : nat.
Hypothesis HW : 0 < W.
Variable blk : A -> list B -> A.

Fixpoint absorb (fuel : nat) (a : A) (bs : list B) : A * list B :=
  match fuel with
  | O => (a, bs)
  | S f => if length bs <? W then (a, bs)
           else absorb f (blk a (firstn W bs)) (skipn W bs)
  end.

Definition absorb_all (a : A) (bs : list B) : A * list B := absorb (length bs) a bs.

Lemma div_step n : W <= n -> n / W = S ((n - W) / W).
Proof.
  intros H. replace n with (1 * W + (n - W)) at 1 by lia.
  rewrite Nat.div_add_l by lia. reflexivity.
Qed.

Lemma div_small n : n < W -> n / W = 0.
Proof. apply Nat.div_small. Qed.

Lemma absorb_fuel : forall f1 f2 a bs,
  length bs / W <= f1 -> length bs / W <= f2 -> absorb f1 a bs = absorb f2 a bs.
Proof.
  induction f1 as [|f1 IH]; intros f2 a bs H1 H2.
  - destruct f2 as [|f2]; cbn [absorb]; auto.
    destruct (Nat.ltb_spec (length bs) W) as [Hl|Hl]; auto.
    rewrite (div_step _ Hl) in H1. lia.
  - destruct f2 as [|f2]; cbn [absorb].
    + destruct (Nat.ltb_spec (length bs) W) as [Hl|Hl]; auto.
      rewrite (div_step _ Hl) in H2. lia.
    + destruct (Nat.ltb_spec (length bs) W) as [Hl|Hl]; auto.
      rewrite (div_step _ Hl) in H1, H2.
      apply IH; rewrite skipn_length; lia.
Qed.

Lemma div_le_self n : n / W <= n.
Proof. apply Nat.div_le_upper_bound; [lia|]. nia. Qed.

Lemma absorb_enough f a bs : length bs / W <= f -> absorb f a bs = absorb_all a bs.
Proof. intros H. apply absorb_fuel; auto. apply div_le_self. Qed.

Lemma absorb_all_small a bs : length bs < W -> absorb_all a bs = (a, bs).
Proof.
  intros H. unfold absorb_all. destruct (length bs) eqn:E; cbn [absorb]; auto.
  rewrite E. destruct (Nat.ltb_spec (S n) W); auto. lia.
Qed.

Lemma absorb_all_step a bs : W <= length bs ->
  absorb_all a bs = absorb_all (blk a (firstn W bs)) (skipn W bs).
Proof.
  intros H. unfold absorb_all at 1. destruct (length bs) eqn:E; [lia|]. cbn [absorb]. rewrite E.
  destruct (Nat.ltb_spec (S n) W); [lia|].
  apply absorb_enough. rewrite skipn_length, E.
  pose proof (div_le_self (S n - W)). lia.
Qed.

(* absorbing a concatenation = absorbing the first part, then the leftover ++ the second part *)
Lemma absorb_all_app : forall n xs ys a, length xs <= n ->
  absorb_all a (xs ++ ys) = let '(a', r) := absorb_all a xs in absorb_all a' (r ++ ys).
Proof.
  induction n as [|n IH]; intros xs ys a Hn.
  - destruct xs as [|x xs]; [|cbn [length] in Hn; lia]. rewrite (absorb_all_small a []) by (cbn [length]; lia). reflexivity.
  - destruct (Nat.lt_ge_cases (length xs) W) as [Hl|Hl].
    + rewrite (absorb_all_small a xs Hl). reflexivity.
    + rewrite (absorb_all_step a xs Hl).
      rewrite (absorb_all_step a (xs ++ ys)) by (rewrite app_length; lia).
      rewrite firstn_app, skipn_app.
      replace (W - length xs) with 0 by lia. cbn [firstn skipn]. rewrite app_nil_r.
      apply IH. rewrite skipn_length. lia.
Qed.

Lemma absorb_length : forall f a bs, f = length bs / W ->
  length (snd (absorb f a bs)) + W * f = length bs.
Proof.
  induction f as [|f IH]; intros a bs Hf; cbn [absorb].
  - cbn. lia.
  - destruct (Nat.ltb_spec (length bs) W) as [Hl|Hl].
    + rewrite (div_small _ Hl) in Hf. lia.
    + rewrite (div_step _ Hl) in Hf.
      specialize (IH (blk a (firstn W bs)) (skipn W bs)). rewrite skipn_length in IH.
      specialize (IH ltac:(lia)). lia.
Qed.

Lemma absorb_all_length a bs :
  length (snd (absorb_all a bs)) + W * (length bs / W) = length bs.
Proof. rewrite <- (absorb_enough (length bs / W)) by lia. apply absorb_length; reflexivity. Qed.

Lemma absorb_all_rest_lt a bs : length (snd (absorb_all a bs)) < W.
Proof.
  pose proof (absorb_all_length a bs) as H.
  pose proof (Nat.div_mod (length bs) W ltac:(lia)) as Hd.
  pose proof (Nat.mod_upper_bound (length bs) W ltac:(lia)). lia.
Qed.

End Absorb.
