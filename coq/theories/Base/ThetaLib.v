(* Small executable library used by the theta model (Model/Theta.v):
   - merge sort of N lists (the standard library's Mergesort functor instantiated with N.leb),
   - bounded iteration with binary (positive) fuel and early exit,
   - the slot array of an open-addressing table as a positive-keyed trie (absent = 0),
   - the index range [start, start+n).
   Lemmas about these definitions are in Proofs/ThetaLibProofs.v; the only proof here is the
   totality of N.leb that the Mergesort functor asks for. *)
From Coq Require Import List NArith Bool Lia Orders Mergesort FMapPositive.
Import ListNotations.
Open Scope N_scope.

(* ---------- sorting ---------- *)
Module NOrder <: TotalLeBool.
  Definition t := N.
  Definition leb := N.leb.
  Theorem leb_total : forall a1 a2, leb a1 a2 = true \/ leb a2 a1 = true.
  Proof. intros a b. unfold leb. destruct (N.leb_spec a b); [left; reflexivity | right; apply N.leb_le; lia]. Qed.
End NOrder.
Module NSort := Sort NOrder.

Definition sortN (l : list N) : list N := NSort.sort l.

(* ---------- iteration with early exit, binary fuel ---------- *)
(* [step s] either finishes with a result (inl r) or continues with a new state (inr s').
   [iter_until step p s] performs at most [p] steps. *)
Section IterUntil.
  Context {S R : Type} (step : S -> R + S).
  Fixpoint iter_until (p : positive) (s : S) : R + S :=
    match p with
    | xH => step s
    | xO q => match iter_until q s with inl r => inl r | inr s' => iter_until q s' end
    | xI q => match step s with
              | inl r => inl r
              | inr s1 => match iter_until q s1 with inl r => inl r | inr s' => iter_until q s' end
              end
    end.

  (* the same with unary fuel (used only in proofs) *)
  Fixpoint iter_until_nat (n : nat) (s : S) : R + S :=
    match n with
    | O => inr s
    | Datatypes.S m => match step s with inl r => inl r | inr s' => iter_until_nat m s' end
    end.
End IterUntil.

(* ---------- slot arrays ---------- *)
Definition slots := PositiveMap.t N.
Definition sl_empty : slots := PositiveMap.empty N.
Definition sl_get (t : slots) (i : N) : N :=
  match PositiveMap.find (N.succ_pos i) t with Some v => v | None => 0 end.
Definition sl_set (t : slots) (i : N) (v : N) : slots := PositiveMap.add (N.succ_pos i) v t.

(* ---------- index ranges ---------- *)
Fixpoint rangeN (n : nat) (start : N) : list N :=
  match n with O => [] | S m => start :: rangeN m (start + 1) end.

(* the non-zero slot values of the first [size] slots, in slot order *)
Definition sl_values (t : slots) (size : N) : list N :=
  filter (fun v => negb (v =? 0)) (map (sl_get t) (rangeN (N.to_nat size) 0)).

(* all first [size] slot values, in slot order (0 = empty) *)
Definition sl_raw (t : slots) (size : N) : list N := map (sl_get t) (rangeN (N.to_nat size) 0).
