(* Two binary64 facts the theta estimate needs (Coq primitive floats = Rust f64), through
   Flocq's bridge IEEE754.PrimFloat:
     - `n as f64` (u64 below 2^63) is finite;
     - x / 1.0 = x for every finite x (so `num_retained as f64 / 1.0` is exactly the count).
   Axioms pulled in: the standard library's FloatAxioms (specification of the primitive
   operations) and, through Reals/Flocq, classic, sig_forall_dec, sig_not_dec,
   functional_extensionality_dep. *)
From Coq Require Import ZArith Reals Lia Lra Psatz Bool.
From Flocq Require Import Core IEEE754.BinarySingleNaN IEEE754.PrimFloat.
From Coq Require Import Floats.FloatOps Floats.SpecFloat.
From Coq Require Floats Uint63.
Module PF := Coq.Floats.PrimFloat.
Local Existing Instance Flocq.IEEE754.PrimFloat.Hprec.
Local Existing Instance Flocq.IEEE754.PrimFloat.Hmax.
Local Notation Hprec := Flocq.IEEE754.PrimFloat.Hprec.
Local Notation Hmax := Flocq.IEEE754.PrimFloat.Hmax.
Local Notation rnd := (round radix2 (SpecFloat.fexp prec emax) (round_mode mode_NE)).

Lemma tf_fexp_valid : Valid_exp (SpecFloat.fexp prec emax).
Proof. apply (fexp_correct prec emax Hprec). Qed.
Local Existing Instance tf_fexp_valid.

Lemma one_B2R : B2R (Prim2B PF.one) = 1%R.
Proof. rewrite one_equiv. unfold Bone. cbn. unfold F2R. cbn. lra. Qed.

Lemma one_finite : is_finite (Prim2B PF.one) = true.
Proof. rewrite one_equiv. reflexivity. Qed.

Lemma one_sign : Bsign (Prim2B PF.one) = false.
Proof. rewrite one_equiv. reflexivity. Qed.

(* x / 1.0 = x *)
Lemma fdiv_one : forall x, is_finite (Prim2B x) = true -> PF.div x PF.one = x.
Proof.
  intros x Hx. apply Prim2B_inj. rewrite div_equiv.
  assert (H1 : B2R (Prim2B PF.one) <> 0%R) by (rewrite one_B2R; lra).
  pose proof (Bdiv_correct prec emax Hprec Hmax mode_NE (Prim2B x) (Prim2B PF.one) H1) as H.
  rewrite one_B2R in H. unfold Rdiv in H. rewrite Rinv_1, Rmult_1_r in H.
  rewrite (round_generic radix2 (SpecFloat.fexp prec emax) (round_mode mode_NE) (B2R (Prim2B x))) in H
    by (apply generic_format_B2R).
  rewrite Rlt_bool_true in H by (apply abs_B2R_lt_emax).
  destruct H as (HR & HF & HS).
  apply B2R_Bsign_inj.
  - rewrite HF. exact Hx.
  - exact Hx.
  - exact HR.
  - rewrite HS.
    + rewrite one_sign. apply xorb_false_r.
    + rewrite Hx in HF. destruct (Bdiv mode_NE (Prim2B x) (Prim2B PF.one)); try reflexivity.
      discriminate.
Qed.

(* `i as f64` is finite for every 63-bit unsigned i *)
Lemma of_uint63_finite : forall i, is_finite (Prim2B (PF.of_uint63 i)) = true.
Proof.
  intros i. rewrite of_int63_equiv.
  pose proof (binary_normalize_correct prec emax Hprec Hmax mode_NE (Uint63.to_Z i) 0 false) as H.
  cbv zeta in H.
  set (x := F2R (Float radix2 (Uint63.to_Z i) 0)) in *.
  assert (Hx : (0 <= x <= bpow radix2 63)%R).
  { unfold x, F2R. cbn [Fnum Fexp bpow]. rewrite Rmult_1_r.
    pose proof (Uint63.to_Z_bounded i) as Hb. split.
    - apply IZR_le. apply Hb.
    - change (bpow radix2 63) with (IZR 9223372036854775808). apply IZR_le.
      change (Z.pow_pos radix2 63) with 9223372036854775808%Z.
      unfold Uint63.wB, Uint63.size in Hb.
      assert (E : (2 ^ Z.of_nat 63 = 9223372036854775808)%Z) by reflexivity. rewrite E in Hb. lia. }
  assert (Hr : (0 <= rnd x <= bpow radix2 63)%R).
  { split.
    - rewrite <- (round_0 radix2 (SpecFloat.fexp prec emax) (round_mode mode_NE)).
      apply round_le; auto with typeclass_instances. lra.
    - rewrite <- (round_generic radix2 (SpecFloat.fexp prec emax) (round_mode mode_NE) (bpow radix2 63)).
      + apply round_le; auto with typeclass_instances. lra.
      + apply generic_format_bpow. unfold SpecFloat.fexp, emin, prec, emax. lia. }
  rewrite Rlt_bool_true in H.
  - apply H.
  - rewrite Rabs_pos_eq by lra. eapply Rle_lt_trans; [apply Hr|]. apply bpow_lt. unfold emax. lia.
Qed.
