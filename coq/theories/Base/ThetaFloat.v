(* Two binary64 facts the theta estimate needs (Coq primitive floats = Rust f64), through
   Flocq's bridge IEEE754.PrimFloat:
     - `n as f64` (u64 below 2^63) is finite;
     - x / 1.0 = x for every finite x (so `num_retained as f64 / 1.0` is exactly the count).
   Axioms pulled in: the standard library's FloatAxioms (specification of the primitive
   operations) and, through Reals/Flocq, classic, sig_forall_dec, sig_not_dec,
   functional_extensionality_dep. *)
From Coq Require Import ZArith Reals Lia Lra Psatz Bool.
From Flocq Require Import Core IEEE754.BinarySingleNaN IEEE754.PrimFloat.
From Coq Require Import Floats.FloatOps Floats.SpecFloat.
From Coq Require Floats Uint63.
Module PF := Coq.Floats.PrimFloat.
Local Existing Instance Flocq.IEEE754.PrimFloat.Hprec.
Local Existing Instance Flocq.IEEE754.PrimFloat.Hmax.
Local Notation Hprec := Flocq.IEEE754.PrimFloat.Hprec.
Local Notation Hmax := Flocq.IEEE754.PrimFloat.Hmax.
Local Notation rnd := (round radix2 (SpecFloat.fexp prec emax) (round_mode mode_NE)).

Lemma tf_fexp_valid : Valid_exp (SpecFloat.fexp prec emax).
Proof. apply (fexp_correct prec emax Hprec). Qed.
Local Existing Instance tf_fexp_valid.

Lemma one_B2R : B2R (Prim2B PF.one) = 1%R.
Proof. rewrite one_equiv. unfold Bone. cbn. unfold F2R. cbn. lra. Qed.

Lemma one_finite : is_finite (Prim2B PF.one) = true.
Proof. rewrite one_equiv. reflexivity. Qed.

Lemma one_sign : Bsign (Prim2B PF.one) = false.
Proof. rewrite one_equiv. reflexivity. Qed.

(* x / 1.0 = x *)
Lemma fdiv_one : forall x, is_finite (Prim2B x) = true -> PF.div x PF.one = x.
Proof.
  intros x Hx. apply Prim2B_inj. rewrite div_equiv.
  assert (H1 : B2R (Prim2B PF.one) <> 0%R) by (rewrite one_B2R; lra).
  pose proof (Bdiv_correct prec emax Hprec Hmax mode_NE (Prim2B x) (Prim2B PF.one) H1) as H.
  rewrite one_B2R in H. unfold Rdiv in H. rewrite Rinv_1, Rmult_1_r in H.
  rewrite (round_generic radix2 (SpecFloat.fexp prec emax) (round_mode mode_NE) (B2R (Prim2B x))) in H
    by (apply generic_format_B2R).
  rewrite Rlt_bool_true in H by (apply abs_B2R_lt_emax).
  destruct H as (HR & HF & HS).
  apply B2R_Bsign_inj.
  - rewrite HF. exact Hx.
  - exact Hx.
  - exact HR.
  - rewrite HS.
    + rewrite one_sign. apply xorb_false_r.
    + rewrite Hx in HF. destruct (Bdiv mode_NE (Prim2B x) (Prim2B PF.one)); try reflexivity.
      discriminate.
Qed.

(* `i as f64` is finite for every 63-bit unsigned i *)
Lemma of_uint63_finite : forall i, is_finite (Prim2B (PF.of_uint63 i)) = true.
Proof.
  intros i. rewrite of_int63_equiv.
  pose proof (binary_normalize_correct prec emax Hprec Hmax mode_NE (Uint63.to_Z i) 0 false) as H.
  cbv zeta in H.
  set (x := F2R (Float radix2 (Uint63.to_Z i) 0)) in *.
  assert (Hx : (0 <= x <= bpow radix2 63)%R).
  { unfold x, F2R. cbn [Fnum Fexp bpow]. rewrite Rmult_1_r.
    pose proof (Uint63.to_Z_bounded i) as Hb. split.
    - apply IZR_le. apply Hb.
    - change (bpow radix2 63) with (IZR 9223372036854775808). apply IZR_le.
      change (Z.pow_pos radix2 63) with 9223372036854775808%Z.
      unfold Uint63.wB, Uint63.size in Hb.
      assert (E : (2 ^ Z.of_nat 63 = 9223372036854775808)%Z) by reflexivity. rewrite E in Hb. lia. }
  assert (Hr : (0 <= rnd x <= bpow radix2 63)%R).
  { split.
    - rewrite <- (round_0 radix2 (SpecFloat.fexp prec emax) (round_mode mode_NE)).
      apply round_le; auto with typeclass_instances. lra.
    - rewrite <- (round_generic radix2 (SpecFloat.fexp prec emax) (round_mode mode_NE) (bpow radix2 63)).
      + apply round_le; auto with typeclass_instances. lra.
      + apply generic_format_bpow. unfold SpecFloat.fexp, emin, prec, emax. lia. }
  rewrite Rlt_bool_true in H.
  - apply H.
  - rewrite Rabs_pos_eq by lra. eapply Rle_lt_trans; [apply Hr|]. apply bpow_lt. unfold emax. lia.
Qed.

(* ---------- (2^63 as f64 * p) as u64 <= 2^63 - 1 for every f64 p < 1 ---------- *)
From DS Require Import Base.FloatBits.

Definition M63 : PF.float := float_of_Z63 9223372036854775807.

Lemma M63_SF : Prim2SF M63 = S754_finite false 4503599627370496 11.
Proof. vm_compute. reflexivity. Qed.

Lemma M63_B : B2R (Prim2B M63) = bpow radix2 63 /\ is_finite (Prim2B M63) = true /\ Bsign (Prim2B M63) = false.
Proof.
  pose proof (B2SF_Prim2B M63) as H. rewrite M63_SF in H.
  destruct (Prim2B M63) as [s|s| |s m e Hb]; cbn in H; try discriminate.
  inversion H. subst. cbn. unfold F2R. cbn. split; [lra|split; reflexivity].
Qed.

Lemma M63_form : exists m e Hb, Prim2B M63 = B754_finite false m e Hb.
Proof.
  pose proof (B2SF_Prim2B M63) as H. rewrite M63_SF in H.
  destruct (Prim2B M63) as [s|s| |s m e Hb]; cbn in H; try discriminate.
  inversion H. subst. eexists _, _, Hb. reflexivity.
Qed.

(* truncation toward zero of a finite float whose value is at most the integer T >= 0 *)
Lemma trunc_sat_le : forall (b : binary_float prec emax) mx T, (0 <= T)%Z -> is_finite b = true ->
  (B2R b <= IZR T)%R ->
  (match B2SF b with
   | S754_zero _ => 0
   | S754_nan => 0
   | S754_infinity s => if s then 0 else mx
   | S754_finite s m e =>
       let mag := if (0 <=? e)%Z then (Zpos m * 2 ^ e)%Z else (Zpos m / 2 ^ (- e))%Z in
       let v := if s then (- mag)%Z else mag in
       if (v <? 0)%Z then 0 else if (mx <? v)%Z then mx else v
   end <= T)%Z.
Proof.
  intros b mx T HT Hf Hle. destruct b as [s|s| |s m e Hb]; cbn [B2SF]; try discriminate; try lia.
  cbv zeta. cbn [B2R] in Hle.
  set (mag := if (0 <=? e)%Z then (Zpos m * 2 ^ e)%Z else (Zpos m / 2 ^ (- e))%Z).
  assert (Hmag0 : (0 <= mag)%Z).
  { unfold mag. destruct (0 <=? e)%Z eqn:E.
    - apply Z.leb_le in E. assert (0 < 2 ^ e)%Z by (apply Z.pow_pos_nonneg; lia). lia.
    - apply Z.leb_gt in E. apply Z.div_pos; [lia|]. apply Z.pow_pos_nonneg; lia. }
  destruct s.
  - (* negative: the result is clamped at 0 *)
    destruct (Z.ltb_spec (- mag) 0); [lia|]. destruct (Z.ltb_spec mx (- mag)); lia.
  - assert (Hmag : (IZR mag <= F2R (Float radix2 (Zpos m) e))%R).
    { unfold mag, F2R. cbn [Fnum Fexp cond_Zopp]. destruct (0 <=? e)%Z eqn:E.
      - apply Z.leb_le in E. rewrite mult_IZR. rewrite (IZR_Zpower radix2) by exact E. apply Rle_refl.
      - apply Z.leb_gt in E.
        replace e with (- (- e))%Z at 2 by lia. rewrite bpow_opp.
        assert (Hd : (0 < 2 ^ (- e))%Z) by (apply Z.pow_pos_nonneg; lia).
        rewrite <- (IZR_Zpower radix2) by lia. change (radix2 ^ (- e))%Z with (2 ^ (- e))%Z.
        pose proof (Z.div_mod (Zpos m) (2 ^ (- e)) ltac:(lia)) as Hdm.
        pose proof (Z.mod_pos_bound (Zpos m) (2 ^ (- e)) Hd) as Hmb.
        apply (Rmult_le_reg_r (IZR (2 ^ (- e)))); [apply IZR_lt; exact Hd|].
        rewrite Rmult_assoc, Rinv_l, Rmult_1_r by (apply not_0_IZR; lia).
        rewrite <- mult_IZR. apply IZR_le. lia. }
    cbn [cond_Zopp] in Hle.
    assert (mag <= T)%Z by (apply le_IZR; lra).
    destruct (Z.ltb_spec mag 0); [lia|]. destruct (Z.ltb_spec mx mag); lia.
Qed.

Lemma pred_one : pred radix2 (SpecFloat.fexp prec emax) 1 = (1 - bpow radix2 (-53))%R.
Proof.
  change 1%R with (bpow radix2 0). rewrite pred_bpow. f_equal.
Qed.

Theorem starting_theta_le : forall p, PF.ltb p PF.one = true ->
  (Z_of_float_trunc_sat 0 18446744073709551615 (PF.mul M63 p) <= 9223372036854775807)%Z.
Proof.
  intros p Hlt. unfold Z_of_float_trunc_sat. rewrite <- B2SF_Prim2B, mul_equiv.
  destruct M63_B as [MR [MF MS]]. destruct M63_form as [mM [eM [HbM EM]]].
  rewrite ltb_equiv in Hlt. rewrite EM in *.
  set (bM := B754_finite false mM eM HbM) in *. set (bp := Prim2B p) in *.
  assert (H1R : B2R (Prim2B PF.one) = 1%R) by apply one_B2R.
  assert (Hgoal : forall b : binary_float prec emax,
            (is_finite b = true /\ (B2R b <= IZR 9223372036854774784)%R) \/ B2SF b = S754_infinity true \/ (exists s, B2SF b = S754_zero s) ->
            (match B2SF b with
             | S754_zero _ => 0 | S754_nan => 0
             | S754_infinity s => if s then 0 else 18446744073709551615
             | S754_finite s m e =>
                 let mag := if (0 <=? e)%Z then (Zpos m * 2 ^ e)%Z else (Zpos m / 2 ^ (- e))%Z in
                 let v := if s then (- mag)%Z else mag in
                 if (v <? 0)%Z then 0 else if (18446744073709551615 <? v)%Z then 18446744073709551615 else v
             end <= 9223372036854775807)%Z).
  { intros b [[Hf Hle]|[Hi|[s Hz]]].
    - pose proof (trunc_sat_le b 18446744073709551615 9223372036854774784 ltac:(lia) Hf Hle). lia.
    - rewrite Hi. lia.
    - rewrite Hz. lia. }
  apply Hgoal. clear Hgoal.
  destruct bp as [sp|sp| |sp mp ep Hbp] eqn:Ebp.
  - (* p = +-0 *)
    right. right. unfold bM. cbn. eexists. reflexivity.
  - (* infinity *)
    destruct sp.
    + right. left. unfold bM. reflexivity.
    + exfalso. rewrite one_equiv in Hlt. cbn in Hlt. discriminate.
  - exfalso. rewrite one_equiv in Hlt. cbn in Hlt. discriminate.
  - (* finite *)
    assert (Hpf : is_finite (B754_finite sp mp ep Hbp) = true) by reflexivity.
    rewrite (Bltb_correct prec emax _ _ Hpf one_finite) in Hlt. rewrite H1R in Hlt.
    apply Rlt_bool_true_iff in Hlt || idtac.
    assert (Hr : (B2R (B754_finite sp mp ep Hbp) < 1)%R).
    { destruct (Rlt_bool_spec (B2R (B754_finite sp mp ep Hbp)) 1); [assumption|discriminate]. }
    set (r := B2R (B754_finite sp mp ep Hbp)) in *.
    pose proof (Bmult_correct prec emax Hprec Hmax mode_NE bM (B754_finite sp mp ep Hbp)) as HM.
    fold r in HM. rewrite MR in HM.
    assert (Hrle : (bpow radix2 63 * r <= IZR 9223372036854774784)%R).
    { assert (Fr : generic_format radix2 (SpecFloat.fexp prec emax) r) by apply generic_format_B2R.
      assert (F1 : generic_format radix2 (SpecFloat.fexp prec emax) 1).
      { change 1%R with (bpow radix2 0). apply generic_format_bpow. unfold SpecFloat.fexp, emin, prec, emax. lia. }
      pose proof (pred_ge_gt radix2 (SpecFloat.fexp prec emax) r 1 Fr F1 Hr) as Hp. rewrite pred_one in Hp.
      assert (ET : IZR 9223372036854774784 = (bpow radix2 63 - bpow radix2 10)%R).
      { change (bpow radix2 63) with (IZR 9223372036854775808). change (bpow radix2 10) with (IZR 1024).
        rewrite <- minus_IZR. reflexivity. }
      rewrite ET.
      replace (bpow radix2 63 - bpow radix2 10)%R with (bpow radix2 63 * (1 - bpow radix2 (-53)))%R.
      - apply Rmult_le_compat_l; [apply bpow_ge_0|exact Hp].
      - rewrite Rmult_minus_distr_l, Rmult_1_r, <- bpow_plus. reflexivity. }
    assert (FT : generic_format radix2 (SpecFloat.fexp prec emax) (IZR 9223372036854774784)).
    { replace (IZR 9223372036854774784) with (F2R (Float radix2 9007199254740991 10)).
      - apply generic_format_canonical. unfold canonical. cbn [Fexp]. unfold cexp.
        rewrite (mag_unique radix2 _ 63).
        + unfold SpecFloat.fexp, emin, prec, emax. lia.
        + unfold F2R. cbn [Fnum Fexp]. rewrite Rabs_pos_eq.
          * split.
            -- change (bpow radix2 (63 - 1)) with (IZR 4611686018427387904). change (bpow radix2 10) with (IZR 1024).
               rewrite <- mult_IZR. apply IZR_le. lia.
            -- change (bpow radix2 63) with (IZR 9223372036854775808). change (bpow radix2 10) with (IZR 1024).
               rewrite <- mult_IZR. apply IZR_lt. lia.
          * apply Rmult_le_pos; [apply IZR_le; lia|apply bpow_ge_0].
      - unfold F2R. cbn [Fnum Fexp]. change (bpow radix2 10) with (IZR 1024). rewrite <- mult_IZR. reflexivity. }
    set (q := round radix2 (SpecFloat.fexp prec emax) (round_mode mode_NE) (bpow radix2 63 * r)) in *.
    assert (Hq : (q <= IZR 9223372036854774784)%R).
    { unfold q. rewrite <- (round_generic radix2 (SpecFloat.fexp prec emax) (round_mode mode_NE) _ FT).
      apply round_le; auto with typeclass_instances. }
    destruct (Rlt_bool_spec (Rabs q) (bpow radix2 emax)) as [Hno|Hov].
    + left. destruct HM as [HR [HF _]]. split; [rewrite HF, MF; reflexivity|rewrite HR; exact Hq].
    + (* overflow: only towards -infinity *)
      right. left. rewrite HM. rewrite MS. cbn [xorb]. unfold binary_overflow, overflow_to_inf.
      destruct sp; [reflexivity|exfalso].
      (* positive p: q <= 2^63 - 2^10 and q >= 0 *)
      assert (Hr0 : (0 <= r)%R).
      { unfold r. cbn [B2R]. apply F2R_ge_0. cbn. lia. }
      assert (Hq0 : (0 <= q)%R).
      { unfold q. rewrite <- (round_0 radix2 (SpecFloat.fexp prec emax) (round_mode mode_NE)).
        apply round_le; auto with typeclass_instances. apply Rmult_le_pos; [apply bpow_ge_0|exact Hr0]. }
      rewrite Rabs_pos_eq in Hov by exact Hq0.
      assert (IZR 9223372036854774784 < bpow radix2 emax)%R.
      { eapply Rlt_trans; [|apply (bpow_lt radix2 63 emax); unfold emax; lia].
        change (bpow radix2 63) with (IZR 9223372036854775808). apply IZR_lt. lia. }
      lra.
Qed.
