(* IEEE-754 binary64 <-> bit pattern, inside Coq, for primitive floats.  The crate's
   f64 state is compared bit-for-bit with the model through these functions. *)
From Coq Require Import ZArith NArith List Floats Uint63.
From Coq Require Import Floats.FloatOps Floats.SpecFloat.
Import ListNotations.
Open Scope Z_scope.

Definition NAN_BITS : Z := 0x7ff8000000000000.

(* float of a bit pattern (any NaN payload gives nan) *)
Definition float_of_bits (b : Z) : float :=
  let s := Z.testbit b 63 in
  let e := Z.land (Z.shiftr b 52) 0x7ff in
  let m := Z.land b 0xfffffffffffff in
  let mag :=
    if e =? 0x7ff then (if m =? 0 then infinity else nan)
    else if e =? 0 then
      (* subnormal: m * 2^-1074 *)
      ldshiftexp (of_uint63 (Uint63.of_Z m)) (Uint63.of_Z (-1074 + FloatOps.shift))
    else
      ldshiftexp (of_uint63 (Uint63.of_Z (m + 0x10000000000000))) (Uint63.of_Z (e - 1075 + FloatOps.shift))
  in if s then PrimFloat.opp mag else mag.

(* canonical bit pattern of a float (every NaN maps to NAN_BITS) *)
Definition bits_of_float (f : float) : Z :=
  match Prim2SF f with
  | S754_zero s => if s then 0x8000000000000000 else 0
  | S754_infinity s => if s then 0xfff0000000000000 else 0x7ff0000000000000
  | S754_nan => NAN_BITS
  | S754_finite s m e =>
      let sb := if s then 0x8000000000000000 else 0 in
      let m := Zpos m in
      if m <? 0x10000000000000 then sb + m   (* subnormal, e = -1074 *)
      else sb + (e + 1075) * 0x10000000000000 + (m - 0x10000000000000)
  end.

(* u64/usize `as f64` for values below 2^63 (exactly what of_uint63 does: round to nearest even) *)
Definition float_of_Z63 (z : Z) : float := of_uint63 (Uint63.of_Z z).

(* `x.trunc() as uN` / `x as uN` : truncate toward zero, saturate to [0, mx], NaN -> 0 *)
Definition Z_of_float_trunc_sat (mn mx : Z) (f : float) : Z :=
  match Prim2SF f with
  | S754_zero _ => 0
  | S754_nan => 0
  | S754_infinity s => if s then mn else mx
  | S754_finite s m e =>
      let mag := if 0 <=? e then Zpos m * 2 ^ e else Zpos m / 2 ^ (- e) in
      let v := if s then - mag else mag in
      if v <? mn then mn else if mx <? v then mx else v
  end.

Definition is_nan_bits (b : Z) : bool :=
  (Z.land (Z.shiftr b 52) 0x7ff =? 0x7ff) && negb (Z.land b 0xfffffffffffff =? 0).

(* canonicalise a bit pattern the way the harness does *)
Definition canon_bits (b : Z) : Z := if is_nan_bits b then NAN_BITS else b.
