(* IEEE-754 bit patterns as naturals (N): the few float operations the t-digest readers and the
   format description need -- NaN / infinity tests, the exact widening f32 -> f64, the saturating
   casts float -> unsigned integer.  Shared by Model/TDigestCodec.v and Spec/TDigestLayout.v
   (they are facts about IEEE-754, not about the crate or the format).  Definitions only. *)
From DS Require Import Base.Prelude.
Open Scope N_scope.

(* ---------------- bit patterns ---------------- *)
Definition P52 : N := 4503599627370496.          (* 2^52 *)
Definition P63 : N := 9223372036854775808.       (* 2^63 *)
Definition PINF : N := 0x7ff0000000000000.       (* f64::INFINITY *)
Definition NINF : N := 0xfff0000000000000.       (* f64::NEG_INFINITY *)

Definition exp64 (b : N) : N := (b / P52) mod 2048.
Definition man64 (b : N) : N := b mod P52.
Definition is_nan64 (b : N) : bool := (exp64 b =? 2047) && negb (man64 b =? 0).
Definition is_inf64 (b : N) : bool := (exp64 b =? 2047) && (man64 b =? 0).

Definition P23 : N := 8388608.                   (* 2^23 *)
Definition P31 : N := 2147483648.                (* 2^31 *)
Definition exp32 (b : N) : N := (b / P23) mod 256.
Definition man32 (b : N) : N := b mod P23.

(* `x as f64` for an f32 bit pattern: exact (subnormals are normalised; NaN payloads widen) *)
Definition f64_of_f32 (b : N) : N :=
  let s := b / P31 in let e := exp32 b in let m := man32 b in
  s * P63 +
  (if e =? 255 then 2047 * P52 + m * 536870912
   else if e =? 0 then
     (if m =? 0 then 0
      else let p := N.log2 m in (p + 874) * P52 + (m - 2 ^ p) * 2 ^ (52 - p))   (* m * 2^-149, 874 = 1023 - 149 *)
   else (e + 896) * P52 + m * 536870912).                                     (* 896 = 1023 - 127, 2^29 *)

(* `x as uN` for an f64 bit pattern: truncate toward zero, saturate to [0, mx], NaN -> 0 *)
Definition uint_of_f64 (mx : N) (b : N) : N :=
  if is_nan64 b then 0 else
  if P63 <=? b then 0 else                                       (* negative, -0.0, -inf *)
  let e := exp64 b in
  if e =? 2047 then mx else
  if e =? 0 then 0 else
  let mant := P52 + man64 b in                                    (* value = mant * 2^(e - 1075) *)
  let v := if 1075 <=? e then mant * 2 ^ (e - 1075) else mant / 2 ^ (1075 - e) in
  N.min v mx.

Definition U16MAX : N := 65535.
Definition U64MAX : N := 18446744073709551615.

