(* Deep embedding of the straight-line bit expressions of theta/bit_pack.rs.
   tools/translate.py re-reads the 63 `pack_bits_N` and 63 `unpack_bits_N` functions on every
   run and writes their bodies as lists of [exp] into Gen/GenBitPack.v; the hand-modelled
   BitPacker/BitUnpacker (Model/ThetaCodec.v) build the same kind of terms.
   [den] is the Rust meaning on u64 (`<<` discards the bits shifted out; `as u8` keeps the low
   byte).  `<<` is only ever applied to u64-typed operands: [shl_on_u64] below is the check
   (part of the validated conditions in Proofs/ThetaBitSym.v) that makes that faithful.
   Definitions only; the symbolic evaluator and its soundness proof are in Proofs/ThetaBitSym.v. *)
From Coq Require Import List NArith Bool.
Import ListNotations.
Open Scope N_scope.

Inductive exp :=
| Var (i : nat)                 (* values[i] (u64) in a packer, bytes[i] (u8) in an unpacker *)
| Zero                          (* the 0 a buffer is initialised with *)
| Shl (e : exp) (n : N)
| Shr (e : exp) (n : N)
| And (e : exp) (m : N)
| Or (a b : exp)
| Cast8 (e : exp)               (* as u8 *)
| Cast64 (e : exp).             (* as u64 *)

Definition TWO64 : N := 18446744073709551616.

Fixpoint den (rho : nat -> N) (e : exp) : N :=
  match e with
  | Var i => rho i
  | Zero => 0
  | Shl e n => (N.shiftl (den rho e) n) mod TWO64
  | Shr e n => N.shiftr (den rho e) n
  | And e m => N.land (den rho e) m
  | Or a b => N.lor (den rho a) (den rho b)
  | Cast8 e => (den rho e) mod 256
  | Cast64 e => den rho e
  end.

(* the environment given by a list (missing = 0) *)
Definition env (l : list N) : nat -> N := fun i => nth i l 0.

(* static type of an expression: true = u64, false = u8; None = ill-typed for our purposes
   (`<<` applied to a u8, `|` of different types, shift amount >= the width: Rust would reject or panic) *)
Fixpoint ty (var64 : bool) (e : exp) : option bool :=
  match e with
  | Var _ => Some var64
  | Zero => Some false
  | Shl e n => match ty var64 e with Some true => if n <? 64 then Some true else None | _ => None end
  | Shr e n => match ty var64 e with
               | Some true => if n <? 64 then Some true else None
               | Some false => if n <? 8 then Some false else None
               | None => None end
  | And e m => match ty var64 e with
               | Some true => Some true
               | Some false => if m <? 256 then Some false else None
               | None => None end
  | Or a b => match ty var64 a, ty var64 b with
              | Some x, Some y => if Bool.eqb x y then Some x else None
              | _, _ => None end
  | Cast8 e => match ty var64 e with Some _ => Some false | None => None end
  | Cast64 e => match ty var64 e with Some _ => Some true | None => None end
  end.

(* the number whose bit t (t < n) is [f t] *)
Fixpoint N_of_bits (f : nat -> bool) (n : nat) : N :=
  match n with
  | O => 0
  | S m => N_of_bits f m + (if f m then 2 ^ N.of_nat m else 0)
  end.
