(* The theta estimate `retained as f64 / (theta as f64 / MAX_THETA as f64)` in binary64 (Coq primitive
   floats = Rust f64), for every theta in [1, 2^63-1] and every count below 2^63: the fraction
   theta/2^63 is a positive float <= 1, the estimate is finite and not below the retained count.
   Uses the division lemmas of Base/FloatLemmas.v (Flocq).  Axioms: as there (FloatAxioms; classic,
   sig_forall_dec, sig_not_dec, functional_extensionality_dep through Reals/Flocq). *)
From Coq Require Import ZArith Reals Lia Lra Psatz Bool.
From Flocq Require Import Core IEEE754.BinarySingleNaN IEEE754.PrimFloat.
From Coq Require Import Floats.FloatOps Floats.SpecFloat.
From Coq Require Floats Uint63.
From DS Require Import Base.FloatBits Base.FloatLemmas Base.ThetaFloat.
Local Existing Instance Flocq.IEEE754.PrimFloat.Hprec.
Local Existing Instance Flocq.IEEE754.PrimFloat.Hmax.
Local Notation Hprec := Flocq.IEEE754.PrimFloat.Hprec.
Local Notation Hmax := Flocq.IEEE754.PrimFloat.Hmax.
Local Notation rnd := (round radix2 (SpecFloat.fexp prec emax) (round_mode mode_NE)).
Local Existing Instance fexp_valid.

(* `i as f64`: finite, and the correctly rounded value of i *)
Lemma of_uint63_FR : forall i, fin (PF.of_uint63 i) /\ FR (PF.of_uint63 i) = rnd (IZR (Uint63.to_Z i)).
Proof.
  intros i. unfold fin, FR. rewrite of_int63_equiv.
  pose proof (binary_normalize_correct prec emax Hprec Hmax mode_NE (Uint63.to_Z i) 0 false) as H.
  cbv zeta in H.
  assert (Ex : F2R (Float radix2 (Uint63.to_Z i) 0) = IZR (Uint63.to_Z i)).
  { unfold F2R. cbn [Fnum Fexp bpow]. apply Rmult_1_r. }
  rewrite Ex in H.
  pose proof (Uint63.to_Z_bounded i) as Hb. unfold Uint63.wB, Uint63.size in Hb.
  assert (E : (2 ^ Z.of_nat 63 = 9223372036854775808)%Z) by reflexivity. rewrite E in Hb.
  assert (Hr : (0 <= rnd (IZR (Uint63.to_Z i)) <= bpow radix2 63)%R).
  { split.
    - rewrite <- rnd_0. apply rnd_le. apply IZR_le. lia.
    - rewrite <- (round_generic radix2 (SpecFloat.fexp prec emax) (round_mode mode_NE) (bpow radix2 63)).
      + apply rnd_le. change (bpow radix2 63) with (IZR 9223372036854775808). apply IZR_le. lia.
      + apply generic_format_bpow. unfold SpecFloat.fexp, emin, prec, emax. lia. }
  rewrite Rlt_bool_true in H.
  - destruct H as (H1 & H2 & _). split; assumption.
  - rewrite Rabs_pos_eq by lra. eapply Rle_lt_trans; [apply Hr|]. apply bpow_lt. unfold emax. lia.
Qed.

Lemma rnd_bpow : forall e, (-1074 <= e <= 1023)%Z -> rnd (bpow radix2 e) = bpow radix2 e.
Proof.
  intros e He. apply round_generic; auto with typeclass_instances.
  apply generic_format_bpow. unfold SpecFloat.fexp, emin, prec, emax. lia.
Qed.

(* n as f64 for 0 <= n < 2^63: finite, >= 0, <= 2^63; and >= 1 when n >= 1 *)
Lemma of_Z63_props : forall n, (0 <= n < 9223372036854775808)%Z ->
  fnn (float_of_Z63 n) /\ (FR (float_of_Z63 n) <= bpow radix2 63)%R /\ ((1 <= n)%Z -> (1 <= FR (float_of_Z63 n))%R).
Proof.
  intros n Hn. unfold float_of_Z63. destruct (of_uint63_FR (Uint63.of_Z n)) as [Hf HR].
  assert (Ez : Uint63.to_Z (Uint63.of_Z n) = n).
  { rewrite Uint63.of_Z_spec. apply Z.mod_small. unfold Uint63.wB, Uint63.size.
    assert (E : (2 ^ Z.of_nat 63 = 9223372036854775808)%Z) by reflexivity. rewrite E. lia. }
  rewrite Ez in HR. split; [split; [exact Hf|]|split].
  - rewrite HR, <- rnd_0. apply rnd_le. apply IZR_le. lia.
  - rewrite HR. rewrite <- (rnd_bpow 63) by lia. apply rnd_le. change (bpow radix2 63) with (IZR 9223372036854775808). apply IZR_le. lia.
  - intros H1. rewrite HR. change 1%R with (bpow radix2 0). rewrite <- (rnd_bpow 0) by lia. apply rnd_le.
    change (bpow radix2 0) with (IZR 1). apply IZR_le. lia.
Qed.

Lemma M63_fpos : fpos M63 /\ FR M63 = bpow radix2 63.
Proof. destruct M63_B as [MR [MF _]]. unfold fpos, fin, FR. rewrite MR. split; [split; [exact MF|apply bpow_gt_0]|reflexivity]. Qed.

(* theta as f64 / MAX_THETA as f64  for 1 <= theta <= 2^63-1: a positive finite float, at most 1, at least 2^-63 *)
Lemma theta_frac_props : forall th, (1 <= th <= 9223372036854775807)%Z ->
  let d := PF.div (float_of_Z63 th) M63 in
  fpos d /\ (FR d <= 1)%R /\ (bpow radix2 (-63) <= FR d)%R.
Proof.
  intros th Hth d. destruct (of_Z63_props th ltac:(lia)) as [Ha [Hle H1]]. specialize (H1 ltac:(lia)).
  destruct M63_fpos as [HM EM].
  destruct (fdiv_cases (float_of_Z63 th) M63 Ha HM) as [(Hlt & Hf & HR)|(Hge & _)].
  - fold d in Hf, HR. rewrite EM in HR.
    assert (Hq1 : (FR (float_of_Z63 th) / bpow radix2 63 <= 1)%R).
    { apply (Rmult_le_reg_r (bpow radix2 63)); [apply bpow_gt_0|]. unfold Rdiv. rewrite Rmult_assoc, Rinv_l, Rmult_1_r, Rmult_1_l; [exact Hle|].
      apply Rgt_not_eq, bpow_gt_0. }
    assert (Hq2 : (bpow radix2 (-63) <= FR (float_of_Z63 th) / bpow radix2 63)%R).
    { unfold Rdiv. rewrite <- bpow_opp. rewrite <- (Rmult_1_l (bpow radix2 (-63))) at 1.
      apply Rmult_le_compat_r; [apply bpow_ge_0|exact H1]. }
    assert (Hd1 : (FR d <= 1)%R).
    { rewrite HR. change 1%R with (bpow radix2 0). rewrite <- (rnd_bpow 0) by lia. apply rnd_le. exact Hq1. }
    assert (Hd2 : (bpow radix2 (-63) <= FR d)%R).
    { rewrite HR. rewrite <- (rnd_bpow (-63)) at 1 by lia. apply rnd_le. exact Hq2. }
    split; [split; [exact Hf|]|split; assumption].
    eapply Rlt_le_trans; [apply (bpow_gt_0 radix2 (-63))|exact Hd2].
  - exfalso. rewrite EM in Hge.
    assert (rnd (FR (float_of_Z63 th) / bpow radix2 63) <= 1)%R.
    { change 1%R with (bpow radix2 0). rewrite <- (rnd_bpow 0) by lia. apply rnd_le.
      apply (Rmult_le_reg_r (bpow radix2 63)); [apply bpow_gt_0|]. unfold Rdiv. rewrite Rmult_assoc, Rinv_l, Rmult_1_r; [|apply Rgt_not_eq, bpow_gt_0].
      change (bpow radix2 0) with 1%R. rewrite Rmult_1_l. exact Hle. }
    assert (1 < bpow radix2 emax)%R by (change 1%R with (bpow radix2 0); apply bpow_lt; unfold emax; lia). lra.
Qed.

(* the estimate n / (theta / 2^63): finite and >= n *)
Theorem estimate_finite_ge : forall n th, (0 <= n < 9223372036854775808)%Z -> (1 <= th <= 9223372036854775807)%Z ->
  let e := PF.div (float_of_Z63 n) (PF.div (float_of_Z63 th) M63) in
  PF.is_finite e = true /\ PF.leb (float_of_Z63 n) e = true.
Proof.
  intros n th Hn Hth e. destruct (theta_frac_props th Hth) as [Hd [Hd1 Hd2]].
  destruct (of_Z63_props n Hn) as [Hnn [Hnle _]].
  set (d := PF.div (float_of_Z63 th) M63) in *.
  destruct (fdiv_ge_self (float_of_Z63 n) d Hnn Hd Hd1) as [_ Hle]. split; [|exact Hle].
  destruct (fdiv_cases (float_of_Z63 n) d Hnn Hd) as [(_ & Hf & _)|(Hge & _)].
  - rewrite is_finite_equiv. exact Hf.
  - exfalso.
    assert (Hq : (FR (float_of_Z63 n) / FR d <= bpow radix2 126)%R).
    { destruct Hd as [_ Hdpos]. apply (Rmult_le_reg_r (FR d)); [exact Hdpos|].
      unfold Rdiv. rewrite Rmult_assoc, Rinv_l, Rmult_1_r by lra.
      eapply Rle_trans; [exact Hnle|]. replace (bpow radix2 63) with (bpow radix2 126 * bpow radix2 (-63))%R by (rewrite <- bpow_plus; reflexivity).
      apply Rmult_le_compat_l; [apply bpow_ge_0|exact Hd2]. }
    pose proof (rnd_le _ _ Hq) as Hr. rewrite (rnd_bpow 126) in Hr by lia.
    assert (bpow radix2 126 < bpow radix2 emax)%R by (apply bpow_lt; unfold emax; lia). lra.
Qed.
