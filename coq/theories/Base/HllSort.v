(* Merge sort on N (standard library functor), used to canonicalise coupon sets and aux
   pairs in the HLL correspondence driver. *)
From Coq Require Import NArith List Orders Mergesort.

Module NLeBool <: TotalLeBool.
  Definition t := N.
  Definition leb := N.leb.
  Theorem leb_total : forall a1 a2, leb a1 a2 = true \/ leb a2 a1 = true.
  Proof.
    intros a1 a2. unfold leb. destruct (N.leb_spec a1 a2) as [H|H]; [now left|right].
    apply N.leb_le. apply N.lt_le_incl. exact H.
  Qed.
End NLeBool.

Module NSort := Sort NLeBool.
Definition sortN (l : list N) : list N := NSort.sort l.
