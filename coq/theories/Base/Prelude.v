(* Common definitions shared by every model: fixed-width arithmetic written
   explicitly over N, little-endian byte codecs, and the uniform case format used
   by the correspondence check (configuration, operations and observations are all
   lists of Z so that one generic driver serves every family). *)
From Coq Require Export List NArith ZArith Bool Lia.
Export ListNotations.
Open Scope N_scope.

Arguments N.add : simpl never.
Arguments N.sub : simpl never.
Arguments N.mul : simpl never.
Arguments N.div : simpl never.
Arguments N.modulo : simpl never.
Arguments N.eqb : simpl never.
Arguments N.ltb : simpl never.
Arguments N.leb : simpl never.
Arguments N.pow : simpl never.
Arguments N.shiftl : simpl never.
Arguments N.shiftr : simpl never.
Arguments N.land : simpl never.
Arguments N.lor : simpl never.
Arguments N.lxor : simpl never.
Arguments Z.add : simpl never.
Arguments Z.sub : simpl never.
Arguments Z.mul : simpl never.
Arguments Z.eqb : simpl never.
Arguments Z.ltb : simpl never.
Arguments Z.leb : simpl never.

(* ---------- fixed-width unsigned arithmetic, written out ---------- *)
Definition M8  : N := 256.
Definition M16 : N := 65536.
Definition M32 : N := 4294967296.
Definition M64 : N := 18446744073709551616.

Definition wrap64 (x : N) : N := x mod M64.
Definition add64 (a b : N) : N := (a + b) mod M64.
Definition sub64 (a b : N) : N := (a + M64 - (b mod M64)) mod M64.
Definition mul64 (a b : N) : N := (a * b) mod M64.
Definition shl64 (a n : N) : N := (N.shiftl a n) mod M64.
Definition rotl64 (a n : N) : N :=
  N.lor (shl64 a n) (N.shiftr a (64 - n)).

(* ---------- bytes ---------- *)
(* a byte is an N < 256; [bytes_ok] says so for a list *)
Definition byte_ok (b : N) : bool := b <? 256.
Definition bytes_ok (l : list N) : bool := forallb byte_ok l.

(* little-endian encode of the low [n] bytes of [x] *)
Fixpoint le_bytes (n : nat) (x : N) : list N :=
  match n with
  | O => []
  | S n' => (x mod 256) :: le_bytes n' (x / 256)
  end.

(* little-endian decode *)
Fixpoint le_val (l : list N) : N :=
  match l with
  | [] => 0
  | b :: r => b + 256 * le_val r
  end.

(* ---------- list helpers ---------- *)
Fixpoint list_eqb {A} (eqb : A -> A -> bool) (a b : list A) : bool :=
  match a, b with
  | [], [] => true
  | x :: a', y :: b' => eqb x y && list_eqb eqb a' b'
  | _, _ => false
  end.

Fixpoint set_nth {A} (n : nat) (x : A) (l : list A) : list A :=
  match l, n with
  | [], _ => []
  | _ :: r, O => x :: r
  | y :: r, S n' => y :: set_nth n' x r
  end.

Definition nthN {A} (l : list A) (i : N) (d : A) : A := nth (N.to_nat i) l d.
Definition set_nthN {A} (i : N) (x : A) (l : list A) : list A := set_nth (N.to_nat i) x l.

Fixpoint sumN (l : list N) : N :=
  match l with [] => 0 | x :: r => x + sumN r end.

(* ---------- outcomes of partial operations ---------- *)
Inductive outcome (A : Type) : Type :=
| Ok (a : A)
| Err            (* the crate returns Err(Error) *)
| Stuck.         (* the crate panics (a modelled panic site) *)
Arguments Ok {A} a.
Arguments Err {A}.
Arguments Stuck {A}.

Definition obind {A B} (x : outcome A) (f : A -> outcome B) : outcome B :=
  match x with Ok a => f a | Err => Err | Stuck => Stuck end.

(* ---------- uniform case format for the correspondence check ---------- *)
Open Scope Z_scope.
Definition zop : Type := (Z * list Z)%type.
Record case := mkCase { c_cfg : list Z; c_ops : list zop; c_obs : list (list Z) }.

Definition obs_eqb (a b : list (list Z)) : bool := list_eqb (list_eqb Z.eqb) a b.

(* indices of the cases on which the model's observations differ from the crate's *)
Fixpoint failures_from (i : N) (f : case -> bool) (cs : list case) : list N :=
  match cs with
  | [] => []
  | c :: r => if f c then failures_from (N.succ i) f r else i :: failures_from (N.succ i) f r
  end.
Definition failures := failures_from 0%N.

Definition corr_ok (run : list Z -> list zop -> list (list Z)) (c : case) : bool :=
  obs_eqb (run (c_cfg c) (c_ops c)) (c_obs c).

(* observation emitted when an operation panics in the crate / is stuck in the model *)
Definition PANIC : list Z := [-999].
(* observation emitted when an operation returns Err *)
Definition ERR : list Z := [-998].

Definition zN (z : Z) : N := Z.to_N z.
Definition Nz (n : N) : Z := Z.of_N n.
Definition zbool (b : bool) : Z := if b then 1 else 0.

(* comparison restricted to the operations a property observes (mask on the op code) *)
Fixpoint obs_eqb_masked (mask : Z -> bool) (ops : list zop) (a b : list (list Z)) : bool :=
  match ops, a, b with
  | [], [], [] => true
  | (code, _) :: ops', x :: a', y :: b' =>
      (if mask code then list_eqb Z.eqb x y else true) && obs_eqb_masked mask ops' a' b'
  | _, _, _ => false
  end.

Definition corr_ok_masked (mask : Z -> bool) (run : list Z -> list zop -> list (list Z)) (c : case) : bool :=
  obs_eqb_masked mask (c_ops c) (run (c_cfg c) (c_ops c)) (c_obs c).

(* first operation index at which two observation lists differ: (index, model, crate) *)
Fixpoint first_diff_from (i : N) (a b : list (list Z)) : option (N * list Z * list Z) :=
  match a, b with
  | [], [] => None
  | x :: a', y :: b' => if list_eqb Z.eqb x y then first_diff_from (N.succ i) a' b' else Some (i, x, y)
  | x :: _, [] => Some (i, x, [])
  | [], y :: _ => Some (i, [], y)
  end.
Definition first_diff := first_diff_from 0%N.
