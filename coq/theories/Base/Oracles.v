(* Generic, model-independent oracles on the crate's observations, shared by the families. *)
From DS Require Import Base.Prelude.
Open Scope Z_scope.

(* observation of an operation addressed to a slot that holds no sketch (e.g. after a failed
   deserialize): a harness-level no-op, identical on both sides *)
Definition EMPTY : list Z := [-996].
(* observation of a parse op whose peak allocation exceeded 64 * input length + 1 MiB *)
Definition ALLOC : list Z := [-997].

(* ---- C11 twin oracle ----
   An op with code [fork] and arguments [src; dst] makes dst := deserialize(serialize(src)).
   From then on the generator applies every operation to src and then, immediately after,
   the same operation (same code, same remaining arguments) to dst.  The property demands
   that the two observations are equal (queries, re-serialization bytes, behaviour under
   further updates and merges). *)
Definition twins := list (Z * Z).
Definition is_twin (t : twins) (a b : Z) : bool := existsb (fun p => (fst p =? a) && (snd p =? b)) t.
Definition untwin (t : twins) (s : Z) : twins := filter (fun p => negb ((fst p =? s) || (snd p =? s))) t.

Fixpoint twin_from (fork : Z) (breakers : list Z) (t : twins) (prev : option (zop * list Z))
         (ops : list zop) (obs : list (list Z)) : bool :=
  match ops, obs with
  | (code, a) :: r, ob :: obr =>
      if code =? fork then
        (* the fork itself must succeed *)
        negb (list_eqb Z.eqb ob ERR) && negb (list_eqb Z.eqb ob PANIC) &&
        twin_from fork breakers ((nth 0 a 0, nth 1 a 0) :: untwin t (nth 1 a 0)) None r obr
      else
        let ok :=
          match prev with
          | Some ((pc, pa), pob) =>
              if (pc =? code) && is_twin t (nth 0 pa 0) (nth 0 a 0) && list_eqb Z.eqb (skipn 1 pa) (skipn 1 a)
              then list_eqb Z.eqb pob ob else true
          | None => true
          end in
        (* ops in [breakers] (e.g. "new", "deserialize bytes") re-initialise a slot: it stops being a twin *)
        let t' := if existsb (Z.eqb code) breakers then untwin t (nth 0 a 0) else t in
        ok && twin_from fork breakers t' (Some ((code, a), ob)) r obr
  | _, _ => true
  end.

Definition twin_oracle (fork : Z) (breakers : list Z) (c : case) : bool :=
  twin_from fork breakers [] None (c_ops c) (c_obs c).

(* ---- no observation is a panic / runaway allocation marker ---- *)
Definition is_panic_obs (ob : list Z) : bool :=
  match ob with x :: _ => (x =? -999) || (x =? -997) | [] => false end.
Definition no_panic_oracle (c : case) : bool := negb (existsb is_panic_obs (c_obs c)).
