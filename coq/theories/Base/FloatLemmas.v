(* Facts about IEEE-754 binary64 arithmetic (Coq primitive floats = Rust f64, round to nearest even),
   obtained through Flocq's bridge IEEE754.PrimFloat.  Everything the cardinality bounds (C01) need:
   correctly rounded division is monotone in the dividend and antitone in a positive divisor, also when the
   quotient overflows to +infinity.  Axioms pulled in: the standard library's FloatAxioms (specification of the
   primitive operations) and, through Reals/Flocq, classic, sig_forall_dec, sig_not_dec,
   functional_extensionality_dep. *)
From Coq Require Import ZArith Reals Lia Lra Psatz Bool.
From Flocq Require Import Core IEEE754.BinarySingleNaN IEEE754.PrimFloat.
From Coq Require Import Floats.FloatOps Floats.SpecFloat.
From Coq Require Floats.
Module PF := Coq.Floats.PrimFloat.
Local Existing Instance Flocq.IEEE754.PrimFloat.Hprec.
Local Existing Instance Flocq.IEEE754.PrimFloat.Hmax.
Local Notation Hprec := Flocq.IEEE754.PrimFloat.Hprec.
Local Notation Hmax := Flocq.IEEE754.PrimFloat.Hmax.

Definition fin (x : PF.float) : Prop := is_finite (Prim2B x) = true.
Definition FR (x : PF.float) : R := B2R (Prim2B x).
Definition pinf (x : PF.float) : Prop := Prim2B x = B754_infinity false.
(* the f64 comparison  x <= y  *)
Definition fle (x y : PF.float) : Prop := PF.leb x y = true.
(* finite and >= 0 (either zero) *)
Definition fnn (x : PF.float) : Prop := fin x /\ (0 <= FR x)%R.
(* finite and > 0 *)
Definition fpos (x : PF.float) : Prop := fin x /\ (0 < FR x)%R.
(* a non-negative result that may have overflowed *)
Definition fnn_inf (x : PF.float) : Prop := fnn x \/ pinf x.

Local Notation rnd := (round radix2 (SpecFloat.fexp prec emax) (round_mode mode_NE)).

Lemma fexp_valid : Valid_exp (SpecFloat.fexp prec emax).
Proof. apply (fexp_correct prec emax Hprec). Qed.
Local Existing Instance fexp_valid.

Lemma rnd_le : forall x y, (x <= y)%R -> (rnd x <= rnd y)%R.
Proof. intros. apply round_le; auto with typeclass_instances. Qed.

Lemma rnd_FR : forall x, rnd (FR x) = FR x.
Proof. intros. apply round_generic; auto with typeclass_instances. apply generic_format_B2R. Qed.

Lemma rnd_0 : rnd 0 = 0%R.
Proof. apply round_0; auto with typeclass_instances. Qed.

Lemma FR_lt_emax : forall x, (FR x < bpow radix2 emax)%R.
Proof.
  intros. unfold FR. eapply Rle_lt_trans; [apply Rle_abs|]. apply abs_B2R_lt_emax.
Qed.

(* ---- comparisons ---- *)
Lemma fle_fin : forall x y, fin x -> fin y -> (fle x y <-> (FR x <= FR y)%R).
Proof.
  intros x y Hx Hy. unfold fle. rewrite leb_equiv, (Bleb_correct _ _ _ _ Hx Hy).
  unfold FR. destruct (Rle_bool_spec (B2R (Prim2B x)) (B2R (Prim2B y))); split; intros; try reflexivity; try lra; discriminate.
Qed.

Lemma fle_pinf : forall x y, fnn_inf x -> pinf y -> fle x y.
Proof.
  intros x y Hx Hy. unfold fle, pinf in *. rewrite leb_equiv, Hy.
  destruct Hx as [[Hf _]|Hi].
  - unfold fin in Hf. destruct (Prim2B x) as [s|s| |s m e H]; try discriminate; destruct s; reflexivity.
  - unfold pinf in Hi. rewrite Hi. reflexivity.
Qed.

Lemma fle_refl_nn : forall x, fnn_inf x -> fle x x.
Proof.
  intros x [[Hf H0]|Hi].
  - apply fle_fin; auto. lra.
  - apply fle_pinf; [right|]; assumption.
Qed.

Lemma fle_trans_nn : forall x y z, fnn_inf x -> fnn_inf y -> fnn_inf z -> fle x y -> fle y z -> fle x z.
Proof.
  intros x y z Hx Hy Hz Hxy Hyz.
  destruct Hz as [[Fz Z0]|Iz]; [|now apply fle_pinf].
  destruct Hy as [[Fy Y0]|Iy].
  - destruct Hx as [[Fx X0]|Ix].
    + apply fle_fin; auto. apply (fle_fin x y) in Hxy; auto. apply (fle_fin y z) in Hyz; auto. lra.
    + exfalso. unfold fle, pinf, fin in *. rewrite leb_equiv, Ix in Hxy.
      destruct (Prim2B y) as [s|s| |s m e H]; try discriminate; destruct s; discriminate.
  - exfalso. unfold fle, pinf, fin in *. rewrite leb_equiv, Iy in Hyz.
    destruct (Prim2B z) as [s|s| |s m e H]; try discriminate; destruct s; discriminate.
Qed.

(* a strictly positive finite float has sign bit 0 *)
Lemma pos_sign : forall b : binary_float prec emax, (0 < B2R b)%R -> Bsign b = false.
Proof.
  intros b H. destruct b as [s|s| |s m e Hb]; cbn in *; try lra.
  destruct s; [|reflexivity]. exfalso.
  pose proof (F2R_lt_0 radix2 (Float radix2 (Z.neg m) e)) as Hn. cbn in Hn.
  unfold SpecFloat.cond_Zopp in H. cbn in H. specialize (Hn ltac:(lia)). lra.
Qed.

Lemma SF_inf_inv : forall b : binary_float prec emax, B2SF b = S754_infinity false -> b = B754_infinity false.
Proof. intros b H. destruct b as [s|s| |s m e Hb]; cbn in H; try discriminate. now inversion H. Qed.

(* ---- division: the two possible shapes of  e / d  for  e >= 0, d > 0 ---- *)
Lemma fdiv_cases : forall e d, fnn e -> fpos d ->
  let rq := rnd (FR e / FR d) in
  ((rq < bpow radix2 emax)%R /\ fin (PF.div e d) /\ FR (PF.div e d) = rq) \/
  ((bpow radix2 emax <= rq)%R /\ pinf (PF.div e d)).
Proof.
  intros e d [Fe He] [Fd Hd] rq. unfold fin, FR, pinf in *.
  rewrite div_equiv.
  assert (Hd0 : B2R (Prim2B d) <> 0%R) by lra.
  pose proof (Bdiv_correct prec emax Hprec Hmax mode_NE (Prim2B e) (Prim2B d) Hd0) as H.
  assert (Hq0 : (0 <= B2R (Prim2B e) / B2R (Prim2B d))%R).
  { unfold Rdiv. apply Rmult_le_pos; [lra|]. left. apply Rinv_0_lt_compat. lra. }
  assert (Hr0 : (0 <= rq)%R).
  { unfold rq. rewrite <- rnd_0. apply rnd_le. exact Hq0. }
  fold rq in H.
  destruct (Rlt_bool_spec (Rabs rq) (bpow radix2 emax)) as [Hlt|Hge].
  - left. rewrite Rabs_pos_eq in Hlt by exact Hr0. destruct H as (HR & HF & _).
    repeat split; [exact Hlt| rewrite HF; exact Fe | exact HR].
  - right. rewrite Rabs_pos_eq in Hge by exact Hr0. split; [exact Hge|].
    assert (Hepos : (0 < B2R (Prim2B e))%R).
    { destruct (Rle_lt_or_eq_dec _ _ He) as [Hp|Hz]; [exact Hp|]. exfalso.
      assert (rq = 0%R). { unfold rq. rewrite <- Hz. unfold Rdiv. rewrite Rmult_0_l. apply rnd_0. }
      pose proof (bpow_gt_0 radix2 emax). lra. }
    rewrite (pos_sign _ Hepos), (pos_sign _ Hd) in H. cbn in H.
    apply SF_inf_inv. exact H.
Qed.

Lemma fdiv_nn_inf : forall e d, fnn e -> fpos d -> fnn_inf (PF.div e d).
Proof.
  intros e d He Hd. destruct (fdiv_cases e d He Hd) as [(Hlt & Hf & HR)|(_ & Hi)]; [left|right; exact Hi].
  split; [exact Hf|]. rewrite HR. rewrite <- rnd_0. apply rnd_le.
  destruct He as [_ He], Hd as [_ Hd]. unfold Rdiv. apply Rmult_le_pos; [lra|]. left. apply Rinv_0_lt_compat. lra.
Qed.

(* monotone in the real quotient *)
Lemma fdiv_mono : forall e1 d1 e2 d2, fnn e1 -> fpos d1 -> fnn e2 -> fpos d2 ->
  (FR e1 / FR d1 <= FR e2 / FR d2)%R -> fle (PF.div e1 d1) (PF.div e2 d2).
Proof.
  intros e1 d1 e2 d2 He1 Hd1 He2 Hd2 Hq.
  pose proof (rnd_le _ _ Hq) as Hr.
  destruct (fdiv_cases e2 d2 He2 Hd2) as [(Hlt2 & Hf2 & HR2)|(_ & Hi2)].
  - destruct (fdiv_cases e1 d1 He1 Hd1) as [(Hlt1 & Hf1 & HR1)|(Hge1 & _)].
    + apply fle_fin; auto. rewrite HR1, HR2. exact Hr.
    + exfalso. lra.
  - apply fle_pinf; [apply fdiv_nn_inf; assumption|exact Hi2].
Qed.

(* antitone in the divisor *)
Lemma fdiv_antitone : forall e d1 d2, fnn e -> fpos d1 -> fpos d2 -> (FR d1 <= FR d2)%R ->
  fle (PF.div e d2) (PF.div e d1).
Proof.
  intros e d1 d2 He Hd1 Hd2 Hle. apply fdiv_mono; auto.
  destruct He as [_ He], Hd1 as [_ Hd1], Hd2 as [_ Hd2]. unfold Rdiv. apply Rmult_le_compat_l; [lra|].
  apply Rinv_le_contravar; lra.
Qed.

(* monotone in the dividend *)
Lemma fdiv_monotone_num : forall e1 e2 d, fnn e1 -> fnn e2 -> fpos d -> (FR e1 <= FR e2)%R ->
  fle (PF.div e1 d) (PF.div e2 d).
Proof.
  intros e1 e2 d He1 He2 Hd Hle. apply fdiv_mono; auto.
  destruct Hd as [_ Hd]. unfold Rdiv. apply Rmult_le_compat_r; [|lra]. left. apply Rinv_0_lt_compat. lra.
Qed.

(* e / d <= e  when d >= 1 ;  the quotient is finite *)
Lemma fdiv_le_self : forall e d, fnn e -> fin d -> (1 <= FR d)%R ->
  fnn (PF.div e d) /\ fle (PF.div e d) e.
Proof.
  intros e d He Fd Hd. assert (Hdp : fpos d) by (split; [exact Fd|lra]).
  assert (Hq : (FR e / FR d <= FR e)%R).
  { destruct He as [_ He]. unfold Rdiv. rewrite <- (Rmult_1_r (FR e)) at 2. apply Rmult_le_compat_l; [lra|].
    rewrite <- Rinv_1. apply Rinv_le_contravar; lra. }
  pose proof (rnd_le _ _ Hq) as Hr. rewrite rnd_FR in Hr.
  destruct (fdiv_cases e d He Hdp) as [(Hlt & Hf & HR)|(Hge & _)].
  - assert (Hnn : fnn (PF.div e d)).
    { split; [exact Hf|]. rewrite HR, <- rnd_0. apply rnd_le. destruct He as [_ He].
      unfold Rdiv. apply Rmult_le_pos; [lra|]. left. apply Rinv_0_lt_compat. lra. }
    split; [exact Hnn|]. apply fle_fin; [exact Hf|apply He|]. rewrite HR. exact Hr.
  - exfalso. pose proof (FR_lt_emax e). lra.
Qed.

(* e <= e / d  when 0 < d <= 1  (the quotient may be +infinity) *)
Lemma fdiv_ge_self : forall e d, fnn e -> fpos d -> (FR d <= 1)%R ->
  fnn_inf (PF.div e d) /\ fle e (PF.div e d).
Proof.
  intros e d He Hd Hd1. split; [now apply fdiv_nn_inf|].
  assert (Hq : (FR e <= FR e / FR d)%R).
  { destruct He as [_ He], Hd as [_ Hd]. unfold Rdiv. rewrite <- (Rmult_1_r (FR e)) at 1. apply Rmult_le_compat_l; [lra|].
    rewrite <- Rinv_1. apply Rinv_le_contravar; lra. }
  pose proof (rnd_le _ _ Hq) as Hr. rewrite rnd_FR in Hr.
  destruct (fdiv_cases e d He Hd) as [(Hlt & Hf & HR)|(_ & Hi)].
  - apply fle_fin; [apply He|exact Hf|]. rewrite HR. exact Hr.
  - apply fle_pinf; [left; exact He|exact Hi].
Qed.

(* ---- bridging computed facts (vm_compute over primitive floats) to the real-number side ---- *)
Lemma fin_of_bool : forall x, PF.is_finite x = true -> fin x.
Proof. intros x H. unfold fin. rewrite <- is_finite_equiv. exact H. Qed.

Lemma FR_le_of_bool : forall x y, PF.is_finite x = true -> PF.is_finite y = true -> PF.leb x y = true -> (FR x <= FR y)%R.
Proof. intros x y Hx Hy H. apply (fle_fin x y); auto using fin_of_bool. Qed.

Lemma FR_lt_of_bool : forall x y, PF.is_finite x = true -> PF.is_finite y = true -> PF.ltb x y = true -> (FR x < FR y)%R.
Proof.
  intros x y Hx Hy H. apply fin_of_bool in Hx. apply fin_of_bool in Hy.
  rewrite ltb_equiv, (Bltb_correct _ _ _ _ Hx Hy) in H. unfold FR.
  destruct (Rlt_bool_spec (B2R (Prim2B x)) (B2R (Prim2B y))); [assumption|discriminate].
Qed.

Lemma FR_one : FR PF.one = 1%R.
Proof. unfold FR. rewrite one_equiv, Prim2B_B2Prim. apply Bone_correct. Qed.

Lemma FR_zero : FR PF.zero = 0%R.
Proof. unfold FR. rewrite zero_equiv, Prim2B_B2Prim. reflexivity. Qed.

Lemma fnn_of_bool : forall x, PF.is_finite x = true -> PF.leb PF.zero x = true -> fnn x.
Proof.
  intros x Hf H. split; [now apply fin_of_bool|]. rewrite <- FR_zero. apply FR_le_of_bool; auto.
Qed.

Lemma fpos_of_bool : forall x, PF.is_finite x = true -> PF.ltb PF.zero x = true -> fpos x.
Proof.
  intros x Hf H. split; [now apply fin_of_bool|]. rewrite <- FR_zero. apply FR_lt_of_bool; auto.
Qed.

(* ---- more comparison facts (x < y as the f64 comparison) ---- *)
Lemma fle_refl_nonnan : forall a, PF.is_nan a = false -> fle a a.
Proof.
  intros a H. unfold fle. rewrite leb_equiv. rewrite is_nan_equiv in H.
  destruct (Prim2B a) as [s|s| |s m e Hb] eqn:E; try discriminate; try (destruct s; reflexivity).
  rewrite Bleb_correct by reflexivity. apply Rle_bool_true. lra.
Qed.

Lemma flt_fle : forall a b, PF.ltb a b = true -> fle a b.
Proof.
  intros a b H. unfold fle. rewrite leb_equiv. rewrite ltb_equiv in H.
  unfold Bltb, SFltb in H. unfold Bleb, SFleb. fold (Bcompare (Prim2B a) (Prim2B b)) in *.
  destruct (Bcompare (Prim2B a) (Prim2B b)) as [[| |]|]; try discriminate; reflexivity.
Qed.

Lemma fnn_inf_nonnan : forall a, fnn_inf a -> PF.is_nan a = false.
Proof.
  intros a [[Hf _]|Hi]; rewrite is_nan_equiv.
  - unfold fin in Hf. destruct (Prim2B a); try discriminate; reflexivity.
  - unfold pinf in Hi. rewrite Hi. reflexivity.
Qed.

Lemma fltb_false_fle : forall a b, fnn_inf a -> fnn_inf b -> PF.ltb a b = false -> fle b a.
Proof.
  intros a b Ha Hb H.
  destruct Ha as [[Fa A0]|Ia]; [|apply fle_pinf; assumption].
  destruct Hb as [[Fb B0]|Ib].
  - apply fle_fin; auto. rewrite ltb_equiv, (Bltb_correct _ _ _ _ Fa Fb) in H.
    unfold FR. destruct (Rlt_bool_spec (B2R (Prim2B a)) (B2R (Prim2B b))); [discriminate|assumption].
  - exfalso. rewrite ltb_equiv in H. unfold pinf in Ib. rewrite Ib in H. unfold fin in Fa.
    destruct (Prim2B a) as [s|s| |s m e Hbb]; try discriminate; destruct s; discriminate.
Qed.

(* `if r < c { c } else { r }` *)
Definition sel_max (r c : PF.float) : PF.float := if PF.ltb r c then c else r.

Lemma sel_max_nn : forall r c, fnn_inf r -> fnn_inf c -> fnn_inf (sel_max r c).
Proof. intros r c Hr Hc. unfold sel_max. destruct (PF.ltb r c); assumption. Qed.

Lemma sel_max_le : forall r c e, fle r e -> fle c e -> fle (sel_max r c) e.
Proof. intros r c e Hr Hc. unfold sel_max. destruct (PF.ltb r c); assumption. Qed.

Lemma sel_max_ge_c : forall r c, fnn_inf r -> fnn_inf c -> fle c (sel_max r c).
Proof.
  intros r c Hr Hc. unfold sel_max. destruct (PF.ltb r c) eqn:E; [now apply fle_refl_nn|now apply fltb_false_fle].
Qed.

Lemma sel_max_mono : forall r1 r2 c, fnn_inf r1 -> fnn_inf r2 -> fnn_inf c -> fle r1 r2 ->
  fle (sel_max r1 c) (sel_max r2 c).
Proof.
  intros r1 r2 c H1 H2 Hc Hle. unfold sel_max.
  destruct (PF.ltb r1 c) eqn:E1, (PF.ltb r2 c) eqn:E2.
  - now apply fle_refl_nn.
  - now apply fltb_false_fle.
  - apply (fle_trans_nn r1 r2 c); auto. now apply flt_fle.
  - exact Hle.
Qed.

(* f64::min / f64::max (a NaN operand is ignored) *)
Definition fmin (a b : PF.float) : PF.float :=
  if PF.ltb a b then a else if PF.ltb b a then b else if PF.is_nan a then b else a.
Definition fmax (a b : PF.float) : PF.float :=
  if PF.ltb a b then b else if PF.ltb b a then a else if PF.is_nan a then b else a.

(* for a non-NaN a and ANY b (NaN included):  min(a, b) <= a <= max(a, b) *)
Lemma fmin_le_left : forall a b, PF.is_nan a = false -> fle (fmin a b) a.
Proof.
  intros a b Ha. unfold fmin. destruct (PF.ltb a b) eqn:E1; [now apply fle_refl_nonnan|].
  destruct (PF.ltb b a) eqn:E2; [now apply flt_fle|]. rewrite Ha. now apply fle_refl_nonnan.
Qed.
Lemma fmax_ge_left : forall a b, PF.is_nan a = false -> fle a (fmax a b).
Proof.
  intros a b Ha. unfold fmax. destruct (PF.ltb a b) eqn:E1; [now apply flt_fle|].
  destruct (PF.ltb b a) eqn:E2; [now apply fle_refl_nonnan|]. rewrite Ha. now apply fle_refl_nonnan.
Qed.

(* x / 1.0 = x for every finite x *)
Lemma fdiv_one : forall x, fin x -> PF.div x PF.one = x.
Proof.
  intros x Fx. apply Prim2B_inj. rewrite div_equiv. unfold fin in Fx.
  assert (H1 : B2R (Prim2B PF.one) <> 0%R). { fold (FR PF.one). rewrite FR_one. lra. }
  pose proof (Bdiv_correct prec emax Hprec Hmax mode_NE (Prim2B x) (Prim2B PF.one) H1) as H.
  fold (FR PF.one) in H. rewrite FR_one in H. unfold Rdiv in H. rewrite Rinv_1, Rmult_1_r in H.
  fold (FR x) in H. rewrite rnd_FR in H.
  rewrite Rlt_bool_true in H.
  2:{ unfold FR. apply abs_B2R_lt_emax. }
  destruct H as (HR & HF & HS).
  apply B2R_Bsign_inj.
  - rewrite HF. exact Fx.
  - exact Fx.
  - exact HR.
  - rewrite HS.
    + assert (Bsign (Prim2B PF.one) = false). { rewrite one_equiv, Prim2B_B2Prim. reflexivity. }
      rewrite H. now rewrite xorb_false_r.
    + rewrite Fx in HF. destruct (Bdiv mode_NE (Prim2B x) (Prim2B PF.one)); try discriminate; reflexivity.
Qed.
