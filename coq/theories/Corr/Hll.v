(* Correspondence driver for the HLL family: replays a Z-encoded case on the model and
   yields the observations the Rust harness (harness/src/hll.rs) prints; plus the property
   oracle of C02 (the Spec: coupon set / per-slot maximum, kept independently of the model,
   and equality of estimates and bounds across Hll4/Hll6/Hll8).  (No proofs here.)

   cfg = [lg_k].  A case holds two groups g = 0,1 of three sketches t = 0,1,2 (Hll4, Hll6,
   Hll8); stream ops feed the three sketches of a group in lock-step.
   ops: 1 upd [g; item; coupon]   2 cpn [g; coupon]   3 dump [g; t]   4 est [g; t]
        5 bounds [g; t]           6 raw [g; t]        7 ser [g; t] (not modelled yet) *)
From DS Require Import Base.Prelude Base.FloatBits Base.HllSort Model.Hll.
From Coq Require Import Floats FMapPositive.
Open Scope Z_scope.

Definition tgt_of (t : Z) : tgt := match t with 0 => T4 | 1 => T6 | _ => T8 end.
Definition tgt_code (t : tgt) : Z := match t with T4 => 0 | T6 => 1 | T8 => 2 end.
Definition fb (f : float) : Z := bits_of_float f.

Definition sk_tgt (s : hsketch) : tgt :=
  match sk_mode s with MList _ t => t | MSet _ t => t | MArr4 _ => T4 | MArr6 _ => T6 | MArr8 _ => T8 end.

Definition hip_obs (e : hip) : list Z := [zbool (h_ooo e); fb (h_accum e); fb (h_kxq0 e); fb (h_kxq1 e)].

(* register values of an Array4: Stuck if a lookup is stuck *)
Fixpoint a4_values (a : arr4 hip) (slots : list N) : outcome (list Z) :=
  match slots with
  | [] => Ok []
  | s :: r => obind (a4_get a s) (fun v => obind (a4_values a r) (fun vs => Ok (Nz v :: vs)))
  end.

Definition aux_obs (m : option auxmap) : list Z :=
  match m with
  | None => [0]
  | Some a =>
      let ps := sortN (map (fun p => (fst p * 64 + snd p)%N) (aux_pairs a)) in
      Z.of_nat (length ps) :: flat_map (fun x => [Nz (x / 64); Nz (x mod 64)]) ps
  end.

Definition dump (s : hsketch) : list Z :=
  let lgk := sk_lgk s in
  let slots := Nseq 0 (N.to_nat (2 ^ lgk)) in
  match sk_mode s with
  | MList l t => [0; Nz lgk; tgt_code t; Nz (hl_lg l); Nz (hl_len l)] ++ map Nz (sortN (list_iter l))
  | MSet st t => [1; Nz lgk; tgt_code t; Nz (hs_lg st); Nz (hs_len st)] ++ map Nz (sortN (set_iter st))
  | MArr4 a =>
      match a4_values a slots with
      | Ok vs => [2; Nz lgk; 0; Nz (a4_cur_min a); Nz (a4_num a)] ++ hip_obs (a4_est a) ++ aux_obs (a4_aux a) ++ vs
      | _ => PANIC
      end
  | MArr6 a => [2; Nz lgk; 1; 0; Nz (a6_nz a)] ++ hip_obs (a6_est a) ++ [0] ++ map (fun j => Nz (a6_get a j)) slots
  | MArr8 a => [2; Nz lgk; 2; 0; Nz (a8_nz a)] ++ hip_obs (a8_est a) ++ [0] ++ map (fun j => Nz (a8_get a j)) slots
  end.

Definition raw (s : hsketch) : list Z :=
  match sk_mode s with
  | MList l _ => [Nz (hl_lg l); Nz (hl_len l)] ++ map Nz (hl_coupons l)
  | MSet st _ => [Nz (hs_lg st); Nz (hs_len st)] ++ map Nz (acells (hs_tab st) (2 ^ hs_lg st))
  | MArr4 a => match a4_aux a with
               | Some m => [Nz (ax_lg m); Nz (ax_count m)] ++ map Nz (acells (ax_tab m) (2 ^ ax_lg m))
               | None => [0; 0]
               end
  | _ => [0; 0]
  end.

Definition bounds (s : hsketch) : list Z :=
  [fb (hll_lower_bound s 1); fb (hll_lower_bound s 2); fb (hll_lower_bound s 3);
   fb (hll_upper_bound s 1); fb (hll_upper_bound s 2); fb (hll_upper_bound s 3)].

Definition slots := list (option hsketch).
Definition get_sk (st : slots) (i : Z) : option hsketch := nth (Z.to_nat i) st None.

(* feed one coupon to the three sketches of group g; None if any of them is stuck *)
Definition feed (st : slots) (g : Z) (c : N) : option slots :=
  let upd (i : Z) (st : option slots) : option slots :=
    match st with
    | None => None
    | Some st => match get_sk st i with
                 | Some s => match hll_update s c with
                             | Ok s' => Some (set_nth (Z.to_nat i) (Some s') st)
                             | _ => None end
                 | None => None end
    end in
  upd (3 * g + 2) (upd (3 * g + 1) (upd (3 * g) (Some st))).

Definition step (st : slots) (o : zop) : slots * list Z :=
  let '(code, a) := o in
  let g := nth 0 a 0 in
  let idx := 3 * g + nth 1 a 0 in
  match code with
  | 1 => match feed st g (zN (nth 2 a 0)) with Some st' => (st', []) | None => (st, PANIC) end
  | 2 => match feed st g (zN (nth 1 a 0)) with Some st' => (st', []) | None => (st, PANIC) end
  | 3 => match get_sk st idx with Some s => (st, dump s) | None => (st, PANIC) end
  | 4 => match get_sk st idx with Some s => (st, [fb (hll_estimate s)]) | None => (st, PANIC) end
  | 5 => match get_sk st idx with Some s => (st, bounds s) | None => (st, PANIC) end
  | 6 => match get_sk st idx with Some s => (st, raw s) | None => (st, PANIC) end
  | _ => (st, PANIC)
  end.

Fixpoint run_from (st : slots) (ops : list zop) : list (list Z) :=
  match ops with
  | [] => []
  | o :: r => let '(st', ob) := step st o in ob :: run_from st' r
  end.

Definition init (lgk : N) : slots :=
  map (fun t => match hll_new lgk t with Ok s => Some s | _ => None end) [T4; T6; T8; T4; T6; T8].

Definition run (cfg : list Z) (ops : list zop) : list (list Z) :=
  run_from (init (zN (nth 0 cfg 0))) ops.

(* ---------- property oracle (the Spec, not the model) ----------
   Per group: the set of distinct coupons fed so far, their number d, and the per-slot
   maximum (slot = (coupon mod 2^26) mod 2^lg_k, value = coupon / 2^26).  A [dump] must show
   the mode that (lg_k, d) determines; in list/set mode exactly the distinct coupons; in
   array mode exactly the per-slot maxima.  [est]/[bounds] observations made at the same
   stream position must be equal across the three types. *)
Record ogroup := mkOg { og_set : PositiveMap.t unit; og_d : N; og_regs : PositiveMap.t N; og_n : N;
                        og_q : list (Z * N * Z * list Z) (* code, position, type, obs *) }.
Definition og_empty : ogroup := mkOg (PositiveMap.empty unit) 0 (PositiveMap.empty N) 0 [].

Definition og_mem (o : ogroup) (c : N) : bool :=
  match PositiveMap.find (N.succ_pos c) (og_set o) with Some _ => true | None => false end.
Definition og_reg (o : ogroup) (j : N) : N :=
  match PositiveMap.find (N.succ_pos j) (og_regs o) with Some v => v | None => 0%N end.

Definition og_add (lgk : N) (o : ogroup) (c : N) : ogroup :=
  let j := ((c mod 67108864) mod 2 ^ lgk)%N in
  let v := (c / 67108864)%N in
  let regs := if (og_reg o j <? v)%N then PositiveMap.add (N.succ_pos j) v (og_regs o) else og_regs o in
  if og_mem o c then mkOg (og_set o) (og_d o) regs (og_n o + 1) (og_q o)
  else mkOg (PositiveMap.add (N.succ_pos c) tt (og_set o)) (og_d o + 1) regs (og_n o + 1) (og_q o).

(* mode as a function of (lg_k, number of distinct coupons): 0 list, 1 set, 2 array *)
Definition spec_mode_code (lgk d : N) : Z :=
  if (d <? 8)%N then 0
  else if (lgk <? 8)%N then 2
  else if (3 * 2 ^ (lgk - 3) <? 4 * d)%N then 2 else 1.

Fixpoint strictly_increasing (l : list Z) : bool :=
  match l with
  | x :: ((y :: _) as r) => (x <? y) && strictly_increasing r
  | _ => true
  end.

Fixpoint regs_match (o : ogroup) (j : N) (vs : list Z) : bool :=
  match vs with
  | [] => true
  | v :: r => (Nz (og_reg o j) =? v) && regs_match o (j + 1) r
  end.

Definition dump_ok (lgk : N) (o : ogroup) (t : Z) (ob : list Z) : bool :=
  let m := nth 0 ob (-1) in
  (m =? spec_mode_code lgk (og_d o)) && (nth 1 ob (-1) =? Nz lgk) && (nth 2 ob (-1) =? t) &&
  if m =? 2 then
    let naux := nth 9 ob 0 in
    let vs := skipn (10 + 2 * Z.to_nat naux) ob in
    (Z.of_nat (length vs) =? 2 ^ Nz lgk) && regs_match o 0 vs
  else
    let cs := skipn 5 ob in
    (Z.of_nat (length cs) =? Nz (og_d o)) && strictly_increasing cs && forallb (fun c => og_mem o (zN c)) cs &&
    (nth 4 ob (-1) =? Nz (og_d o)).

(* an est/bounds observation agrees with every earlier one of the same kind made at the same
   stream position of the same group (by another type) *)
Definition query_ok (o : ogroup) (code t : Z) (ob : list Z) : bool :=
  forallb (fun q => let '(c, n, t', ob') := q in
                    if (c =? code) && (n =? og_n o)%N then list_eqb Z.eqb ob ob' else true) (og_q o).
Definition og_push (o : ogroup) (code t : Z) (ob : list Z) : ogroup :=
  mkOg (og_set o) (og_d o) (og_regs o) (og_n o)
       ((code, og_n o, t, ob) :: filter (fun q => let '(_, n, _, _) := q in (n =? og_n o)%N) (og_q o)).

Fixpoint prop_from (lgk : N) (g0 g1 : ogroup) (ops : list zop) (obs : list (list Z)) : bool :=
  match ops, obs with
  | (code, a) :: r, ob :: obr =>
      if list_eqb Z.eqb ob PANIC then false      (* no valid update history may panic *)
      else
      let g := nth 0 a 0 in
      let o := if g =? 0 then g0 else g1 in
      let continue (o' : ogroup) := if g =? 0 then prop_from lgk o' g1 r obr else prop_from lgk g0 o' r obr in
      match code with
      | 1 => continue (og_add lgk o (zN (nth 2 a 0)))
      | 2 => continue (og_add lgk o (zN (nth 1 a 0)))
      | 3 => dump_ok lgk o (nth 1 a 0) ob && continue o
      | 4 | 5 => query_ok o code (nth 1 a 0) ob && continue (og_push o code (nth 1 a 0) ob)
      | _ => continue o
      end
  | _, _ => true
  end.

Definition prop_ok (c : case) : bool :=
  prop_from (zN (nth 0 (c_cfg c) 0)) og_empty og_empty (c_ops c) (c_obs c).

Definition oracles : list (Z * (case -> bool)) := [(0, prop_ok)].
