(* Correspondence driver for the HLL family: replays a Z-encoded case on the model and
   yields the observations the Rust harness (harness/src/hll.rs) prints; plus the property
   oracle of C02 (the Spec: coupon set / per-slot maximum, kept independently of the model,
   and equality of estimates and bounds across Hll4/Hll6/Hll8).  (No proofs here.)

   cfg = [lg_k].  A case holds two groups g = 0,1 of three sketches t = 0,1,2 (Hll4, Hll6,
   Hll8); stream ops feed the three sketches of a group in lock-step.
   ops: 1 upd [g; item; coupon]   2 cpn [g; coupon]   3 dump [g; t]   4 est [g; t]
        5 bounds [g; t]           6 raw [g; t]        7 ser [g; t] -> the image bytes
        8 rt [g; t]   sketch := deserialize(serialize(sketch))
        9 deser [g; t; bytes...]  sketch := deserialize(bytes) -> [1] | ERR
        30 merge [g; t]  dump of u.to_sketch(Hll8) where u = HllUnion::new(lg_k of the sketch); u.update(&sketch)
        31 reser [g; t]  [exact; modaux; has_aux]: serialize(deserialize(serialize(sk))) = serialize(sk) byte for
                         byte / up to the order of the Hll4 exception list; has_aux = the image lists exceptions
        32 qry [g; t]    estimate and the six bounds, crate only (the composite estimator of out-of-order
                         sketches is not modelled): the model answers [] *)
From DS Require Import Base.Prelude Base.FloatBits Base.HllSort Model.Hll Model.HllUnion Model.HllCodec Spec.HllLayout.
From Coq Require Import Floats FMapPositive.
Open Scope Z_scope.

Definition tgt_of (t : Z) : tgt := match t with 0 => T4 | 1 => T6 | _ => T8 end.
Definition tgt_code (t : tgt) : Z := match t with T4 => 0 | T6 => 1 | T8 => 2 end.
Definition fb (f : float) : Z := bits_of_float f.

Definition sk_tgt (s : hsketch) : tgt :=
  match sk_mode s with MList _ t => t | MSet _ t => t | MArr4 _ => T4 | MArr6 _ => T6 | MArr8 _ => T8 end.

Definition hip_obs (e : hip) : list Z := [zbool (h_ooo e); fb (h_accum e); fb (h_kxq0 e); fb (h_kxq1 e)].

(* register values of an Array4: Stuck if a lookup is stuck *)
Fixpoint a4_values (a : arr4 hip) (slots : list N) : outcome (list Z) :=
  match slots with
  | [] => Ok []
  | s :: r => obind (a4_get a s) (fun v => obind (a4_values a r) (fun vs => Ok (Nz v :: vs)))
  end.

Definition aux_obs (m : option auxmap) : list Z :=
  match m with
  | None => [0]
  | Some a =>
      let ps := sortN (map (fun p => (fst p * 64 + snd p)%N) (aux_pairs a)) in
      Z.of_nat (length ps) :: flat_map (fun x => [Nz (x / 64); Nz (x mod 64)]) ps
  end.

Definition dump (s : hsketch) : list Z :=
  let lgk := sk_lgk s in
  (* the slot list is built only in array mode (a list-mode sketch of lg_k 21 must not pay for 2^21 slots) *)
  let slots (_ : unit) := Nseq 0 (N.to_nat (2 ^ lgk)) in
  match sk_mode s with
  | MList l t => [0; Nz lgk; tgt_code t; Nz (hl_lg l); Nz (hl_len l)] ++ map Nz (sortN (list_iter l))
  | MSet st t => [1; Nz lgk; tgt_code t; Nz (hs_lg st); Nz (hs_len st)] ++ map Nz (sortN (set_iter st))
  | MArr4 a =>
      match a4_values a (slots tt) with
      | Ok vs => [2; Nz lgk; 0; Nz (a4_cur_min a); Nz (a4_num a)] ++ hip_obs (a4_est a) ++ aux_obs (a4_aux a) ++ vs
      | _ => PANIC
      end
  | MArr6 a => [2; Nz lgk; 1; 0; Nz (a6_nz a)] ++ hip_obs (a6_est a) ++ [0] ++ map (fun j => Nz (a6_get a j)) (slots tt)
  | MArr8 a => [2; Nz lgk; 2; 0; Nz (a8_nz a)] ++ hip_obs (a8_est a) ++ [0] ++ map (fun j => Nz (a8_get a j)) (slots tt)
  end.

Definition raw (s : hsketch) : list Z :=
  match sk_mode s with
  | MList l _ => [Nz (hl_lg l); Nz (hl_len l)] ++ map Nz (hl_coupons l)
  | MSet st _ => [Nz (hs_lg st); Nz (hs_len st)] ++ map Nz (acells (hs_tab st) (2 ^ hs_lg st))
  | MArr4 a => match a4_aux a with
               | Some m => [Nz (ax_lg m); Nz (ax_count m)] ++ map Nz (acells (ax_tab m) (2 ^ ax_lg m))
               | None => [0; 0]
               end
  | _ => [0; 0]
  end.

Definition bounds (s : hsketch) : list Z :=
  [fb (hll_lower_bound s 1); fb (hll_lower_bound s 2); fb (hll_lower_bound s 3);
   fb (hll_upper_bound s 1); fb (hll_upper_bound s 2); fb (hll_upper_bound s 3)].

(* an image up to the order of the Hll4 exception list (its order is the iteration order of the aux
   hash table, which a rebuilt table need not share) *)
Fixpoint u32_vals (l : list N) : list N :=
  match l with
  | a :: b :: c :: d :: r => (a + 256 * b + 65536 * c + 16777216 * d)%N :: u32_vals r
  | _ => []
  end.
Definition image_is_hll4 (bs : list N) : bool :=
  let b7 := nth 7 bs 0%N in
  (40 <=? length bs)%nat && (N.land b7 3 =? 2)%N && (N.land (N.shiftr b7 2) 3 =? 0)%N.
Definition norm_image (bs : list N) : list N :=
  if image_is_hll4 bs && (nth 3 bs 0 <=? 21)%N then          (* lg_k is read from the image: bounded first *)
    let half := (2 ^ (nth 3 bs 0 - 1))%N in
    let n := (40 + N.to_nat half)%nat in
    firstn n bs ++ sortN (u32_vals (skipn n bs))
  else bs.
Definition image_aux_count (bs : list N) : N :=
  if image_is_hll4 bs then le_val (firstn 4 (skipn 36 bs)) else 0%N.

(* [exact; modaux; has_aux] for an image and the image of its deserialized copy *)
Definition reser_obs (img img' : list N) : list Z :=
  [zbool (list_eqb N.eqb img' img); zbool (list_eqb N.eqb (norm_image img') (norm_image img));
   zbool (negb (image_aux_count img =? 0)%N)].

Definition slots := list (option hsketch).
Definition get_sk (st : slots) (i : Z) : option hsketch := nth (Z.to_nat i) st None.

(* feed one coupon to the three sketches of group g; None if any of them is stuck *)
Definition feed (st : slots) (g : Z) (c : N) : option slots :=
  let upd (i : Z) (st : option slots) : option slots :=
    match st with
    | None => None
    | Some st => match get_sk st i with
                 | Some s => match hll_update s c with
                             | Ok s' => Some (set_nth (Z.to_nat i) (Some s') st)
                             | _ => None end
                 | None => None end
    end in
  upd (3 * g + 2) (upd (3 * g + 1) (upd (3 * g) (Some st))).

Definition step (st : slots) (o : zop) : slots * list Z :=
  let '(code, a) := o in
  let g := nth 0 a 0 in
  let idx := 3 * g + nth 1 a 0 in
  match code with
  | 1 => match feed st g (zN (nth 2 a 0)) with Some st' => (st', []) | None => (st, PANIC) end
  | 2 => match feed st g (zN (nth 1 a 0)) with Some st' => (st', []) | None => (st, PANIC) end
  | 3 => match get_sk st idx with Some s => (st, dump s) | None => (st, PANIC) end
  | 4 => match get_sk st idx with Some s => (st, [fb (hll_estimate s)]) | None => (st, PANIC) end
  | 5 => match get_sk st idx with Some s => (st, bounds s) | None => (st, PANIC) end
  | 6 => match get_sk st idx with Some s => (st, raw s) | None => (st, PANIC) end
  | 7 => match get_sk st idx with Some s => (st, map Nz (hll_serialize s)) | None => (st, PANIC) end
  | 8 => match get_sk st idx with
         | Some s => match hll_deserialize (hll_serialize s) with
                     | Ok s' => (set_nth (Z.to_nat idx) (Some s') st, [])
                     | Err => (st, ERR)
                     | Stuck => (st, PANIC) end
         | None => (st, PANIC) end
  | 9 => match hll_deserialize (map zN (skipn 2 a)) with
         | Ok s' => (set_nth (Z.to_nat idx) (Some s') st, [1])
         | Err => (st, ERR)
         | Stuck => (st, PANIC) end
  | 30 => match get_sk st idx with
          | Some s => match obind (union_new (sk_lgk s)) (fun u => obind (union_update u s) (fun u' => union_to_sketch u' T8)) with
                      | Ok r => (st, dump r)
                      | _ => (st, PANIC) end
          | None => (st, PANIC) end
  | 31 => match get_sk st idx with
          | Some s => let img := hll_serialize s in
                      match hll_deserialize img with
                      | Ok s' => (st, reser_obs img (hll_serialize s'))
                      | Err => (st, ERR)
                      | Stuck => (st, PANIC) end
          | None => (st, PANIC) end
  | 32 => (st, [])
  | _ => (st, PANIC)
  end.

Fixpoint run_from (st : slots) (ops : list zop) : list (list Z) :=
  match ops with
  | [] => []
  | o :: r => let '(st', ob) := step st o in ob :: run_from st' r
  end.

Definition init (lgk : N) : slots :=
  map (fun t => match hll_new lgk t with Ok s => Some s | _ => None end) [T4; T6; T8; T4; T6; T8].

Definition run_c02 (cfg : list Z) (ops : list zop) : list (list Z) :=
  run_from (init (zN (nth 0 cfg 0))) ops.

(* ---------- property oracle (the Spec, not the model) ----------
   Per group: the set of distinct coupons fed so far, their number d, and the per-slot
   maximum (slot = (coupon mod 2^26) mod 2^lg_k, value = coupon / 2^26).  A [dump] must show
   the mode that (lg_k, d) determines; in list/set mode exactly the distinct coupons; in
   array mode exactly the per-slot maxima.  [est]/[bounds] observations made at the same
   stream position must be equal across the three types. *)
Record ogroup := mkOg { og_set : PositiveMap.t unit; og_d : N; og_regs : PositiveMap.t N; og_n : N;
                        og_q : list (Z * N * Z * list Z) (* code, position, type, obs *) }.
Definition og_empty : ogroup := mkOg (PositiveMap.empty unit) 0 (PositiveMap.empty N) 0 [].

Definition og_mem (o : ogroup) (c : N) : bool :=
  match PositiveMap.find (N.succ_pos c) (og_set o) with Some _ => true | None => false end.
Definition og_reg (o : ogroup) (j : N) : N :=
  match PositiveMap.find (N.succ_pos j) (og_regs o) with Some v => v | None => 0%N end.

Definition og_add (lgk : N) (o : ogroup) (c : N) : ogroup :=
  let j := ((c mod 67108864) mod 2 ^ lgk)%N in
  let v := (c / 67108864)%N in
  let regs := if (og_reg o j <? v)%N then PositiveMap.add (N.succ_pos j) v (og_regs o) else og_regs o in
  if og_mem o c then mkOg (og_set o) (og_d o) regs (og_n o + 1) (og_q o)
  else mkOg (PositiveMap.add (N.succ_pos c) tt (og_set o)) (og_d o + 1) regs (og_n o + 1) (og_q o).

(* mode as a function of (lg_k, number of distinct coupons): 0 list, 1 set, 2 array *)
Definition spec_mode_code (lgk d : N) : Z :=
  if (d <? 8)%N then 0
  else if (lgk <? 8)%N then 2
  else if (3 * 2 ^ (lgk - 3) <? 4 * d)%N then 2 else 1.

Fixpoint strictly_increasing (l : list Z) : bool :=
  match l with
  | x :: ((y :: _) as r) => (x <? y) && strictly_increasing r
  | _ => true
  end.

Fixpoint regs_match (o : ogroup) (j : N) (vs : list Z) : bool :=
  match vs with
  | [] => true
  | v :: r => (Nz (og_reg o j) =? v) && regs_match o (j + 1) r
  end.

(* the register values of an array-mode dump; None unless the observation IS an array-mode dump with
   a plausible exception count.  Every quantity taken from an OBSERVATION is bounded before it drives
   a recursion (Z.to_nat of a coupon or of a float bit pattern would never return): an out-of-range
   observation is an oracle failure, reported at once. *)
Definition dump_regs (ob : list Z) : option (list Z) :=
  let naux := nth 9 ob (-1) in
  if (nth 0 ob (-1) =? 2) && (0 <=? naux) && (naux <=? 2097152)
  then Some (skipn (10 + 2 * Z.to_nat naux) ob) else None.

Definition dump_ok (lgk : N) (o : ogroup) (t : Z) (ob : list Z) : bool :=
  let m := nth 0 ob (-1) in
  (m =? spec_mode_code lgk (og_d o)) && (nth 1 ob (-1) =? Nz lgk) && (nth 2 ob (-1) =? t) &&
  if m =? 2 then
    match dump_regs ob with
    | Some vs => (Z.of_nat (length vs) =? 2 ^ Nz lgk) && regs_match o 0 vs
    | None => false
    end
  else
    let cs := skipn 5 ob in
    (Z.of_nat (length cs) =? Nz (og_d o)) && strictly_increasing cs && forallb (fun c => og_mem o (zN c)) cs &&
    (nth 4 ob (-1) =? Nz (og_d o)).

(* an est/bounds observation agrees with every earlier one of the same kind made at the same
   stream position of the same group (by another type) *)
Definition query_ok (o : ogroup) (code t : Z) (ob : list Z) : bool :=
  forallb (fun q => let '(c, n, t', ob') := q in
                    if (c =? code) && (n =? og_n o)%N then list_eqb Z.eqb ob ob' else true) (og_q o).
Definition og_push (o : ogroup) (code t : Z) (ob : list Z) : ogroup :=
  mkOg (og_set o) (og_d o) (og_regs o) (og_n o)
       ((code, og_n o, t, ob) :: filter (fun q => let '(_, n, _, _) := q in (n =? og_n o)%N) (og_q o)).

(* a group becomes None when one of its sketches was replaced by an arbitrary image (op 9): there is
   no Spec state to compare with any more, but the rest of the case is still judged (panics; the
   other group) *)
Fixpoint prop_from (lgk : N) (g0 g1 : option ogroup) (ops : list zop) (obs : list (list Z)) : bool :=
  match ops, obs with
  | [], [] => true
  | (code, a) :: r, ob :: obr =>
      if list_eqb Z.eqb ob PANIC then false      (* no valid update history may panic *)
      else
      let g := nth 0 a 0 in
      let continue (o' : option ogroup) := if g =? 0 then prop_from lgk o' g1 r obr else prop_from lgk g0 o' r obr in
      match (if g =? 0 then g0 else g1) with
      | None => continue None
      | Some o =>
          match code with
          | 1 => continue (Some (og_add lgk o (zN (nth 2 a 0))))
          | 2 => continue (Some (og_add lgk o (zN (nth 1 a 0))))
          | 3 => dump_ok lgk o (nth 1 a 0) ob && continue (Some o)
          | 4 | 5 => query_ok o code (nth 1 a 0) ob && continue (Some (og_push o code (nth 1 a 0) ob))
          | 8 => (match ob with [] => true | _ => false end) && continue (Some o)   (* its own image must be accepted *)
          | 9 => continue None
          | _ => continue (Some o)
          end
      end
  | _, _ => false
  end.

Definition is_union_case (cfg : list Z) : bool := nth 1 cfg 0 =? 1.

Fixpoint NoDup_b (l : list Z) : bool :=
  match l with [] => true | x :: r => negb (existsb (Z.eqb x) r) && NoDup_b r end.

Definition prop_ok (c : case) : bool :=
  if is_union_case (c_cfg c) then true
  else prop_from (zN (nth 0 (c_cfg c) 0)) (Some og_empty) (Some og_empty) (c_ops c) (c_obs c).

(* ================= union cases (C03): cfg = [lg_max_k; 1] =================
   A table of source sketches (slots 0..7) and one HllUnion.
   ops: 10 new [i; lg_k; t]      slot i := HllSketch::new(lg_k, t)
        11 cpn [i; coupon]       hook verif_update_with_coupon on slot i
        12 upd [i; item; coupon] public update(item) on slot i (coupon = reference value)
        13 ooo [i]               array-mode slot i := deserialize(serialize() with OUT_OF_ORDER set)
        14 uni [i]               union.update(&slot i)
        15 uval [item; coupon]   union.update_value(item)
        16 reset []              union.reset()
        17 sdump [i]             state of slot i
        18 tosk [t]              state of union.to_sketch(t)
        19 est [t]               estimate and six bounds of union.to_sketch(t) (crate only)
        20 uinfo []              [lg_config_k; lg_max_k; is_empty] of the union
        21 uest []               estimate and six bounds of the union itself (crate only)
        22 tosk_rt [t]           r = union.to_sketch(t); r' = deserialize(serialize(r));
                                 [exact; modaux; has_aux] (see op 31) ++ state of r' *)
Record ustate := mkUs { us_slots : slots; us_union : option hunion }.

Definition mark_ooo (s : hsketch) : hsketch :=
  match sk_mode s with
  | MArr4 a => mkSketch (sk_lgk s) (MArr4 (mkA4 (a4_lgk a) (a4_bytes a) (a4_cur_min a) (a4_num a) (a4_aux a) (hip_set_ooo true (a4_est a))))
  | MArr6 a => mkSketch (sk_lgk s) (MArr6 (mkA6 (a6_lgk a) (a6_bytes a) (a6_nz a) (hip_set_ooo true (a6_est a))))
  | MArr8 a => mkSketch (sk_lgk s) (MArr8 (mkA8 (a8_lgk a) (a8_bytes a) (a8_nz a) (hip_set_ooo true (a8_est a))))
  | _ => s
  end.

Definition ustep (st : ustate) (o : zop) : ustate * list Z :=
  let '(code, a) := o in
  let i := nth 0 a 0 in
  let with_slot (f : hsketch -> outcome hsketch) : ustate * list Z :=
    match get_sk (us_slots st) i with
    | Some s => match f s with
                | Ok s' => (mkUs (set_nth (Z.to_nat i) (Some s') (us_slots st)) (us_union st), [])
                | _ => (st, PANIC) end
    | None => (st, [-996])        (* a slot never created (only a shrunk case names one): no-op, answers [-996] *)
    end in
  let with_union (f : hunion -> outcome hunion) : ustate * list Z :=
    match us_union st with
    | Some u => match f u with Ok u' => (mkUs (us_slots st) (Some u'), []) | _ => (st, PANIC) end
    | None => (st, PANIC)
    end in
  match code with
  | 10 => match hll_new (zN (nth 1 a 0)) (tgt_of (nth 2 a 0)) with
          | Ok s => (mkUs (set_nth (Z.to_nat i) (Some s) (us_slots st)) (us_union st), [])
          | _ => (st, PANIC) end
  | 11 => with_slot (fun s => hll_update s (zN (nth 1 a 0)))
  | 12 => with_slot (fun s => hll_update s (zN (nth 2 a 0)))
  | 13 => with_slot (fun s => Ok (mark_ooo s))
  | 14 => match get_sk (us_slots st) i with
          | Some s => with_union (fun u => union_update u s)
          | None => (st, [-996]) end
  | 15 => with_union (fun u => union_update_value u (zN (nth 1 a 0)))
  | 16 => with_union union_reset
  | 17 => match get_sk (us_slots st) i with Some s => (st, dump s) | None => (st, [-996]) end
  | 18 => match us_union st with
          | Some u => match union_to_sketch u (tgt_of (nth 0 a 0)) with Ok s => (st, dump s) | _ => (st, PANIC) end
          | None => (st, PANIC) end
  | 19 | 21 => (st, [])
  | 22 => match us_union st with
          | Some u => match union_to_sketch u (tgt_of (nth 0 a 0)) with
                      | Ok r => let img := hll_serialize r in
                                match hll_deserialize img with
                                | Ok r' => (st, reser_obs img (hll_serialize r') ++ dump r')
                                | Err => (st, ERR)
                                | Stuck => (st, PANIC) end
                      | _ => (st, PANIC) end
          | None => (st, PANIC) end
  | 20 => match us_union st with
          | Some u => (st, [Nz (sk_lgk (un_gadget u)); Nz (un_lg_max u); zbool (sketch_is_empty (un_gadget u))])
          | None => (st, PANIC) end
  | _ => (st, PANIC)
  end.

Fixpoint urun_from (st : ustate) (ops : list zop) : list (list Z) :=
  match ops with
  | [] => []
  | o :: r => let '(st', ob) := ustep st o in ob :: urun_from st' r
  end.

Definition uinit (lg_max : N) : ustate :=
  mkUs (repeat None 8) (match union_new lg_max with Ok u => Some u | _ => None end).

Definition run (cfg : list Z) (ops : list zop) : list (list Z) :=
  if is_union_case cfg then urun_from (uinit (zN (nth 0 cfg 0))) ops else run_c02 cfg ops.

(* ---------- the C03 oracle: the Spec of the union, evaluated on the crate's observations ----------
   Per source slot: lg_k, type and the set of coupons fed (its mode is spec_mode lg_k #distinct).
   For the union since the last reset: U = union of the coupon sets of the merged non-empty
   sketches and of update_value; has_array = some merged non-empty input was in array mode;
   lg_cur = min(lg_max, lg_k of those array-mode inputs).
   to_sketch(t) must show: array mode iff has_array or spec_mode lg_max |U| = array, then lg_k =
   lg_cur and register j = max value over the coupons of U with slot mod 2^lg_cur = j; otherwise
   the coupon set U at lg_max in the mode spec_mode lg_max |U|.  Estimates and bounds taken at
   the same position must not depend on t, must equal the union's own, and must be positive
   and finite once U is non-empty. *)
Record oslot := mkOs { os_lgk : N; os_set : PositiveMap.t unit; os_d : N }.
Record ounion := mkOu { ou_set : PositiveMap.t unit; ou_d : N; ou_arr : bool; ou_lg : N;
                        ou_est : option (list Z) (* est obs at the current position *) }.

Definition pm_mem (m : PositiveMap.t unit) (c : N) : bool :=
  match PositiveMap.find (N.succ_pos c) m with Some _ => true | None => false end.
Definition os_add (o : oslot) (c : N) : oslot :=
  if pm_mem (os_set o) c then o else mkOs (os_lgk o) (PositiveMap.add (N.succ_pos c) tt (os_set o)) (os_d o + 1).
Definition ou_add (u : ounion) (c : N) : ounion :=
  if pm_mem (ou_set u) c then mkOu (ou_set u) (ou_d u) (ou_arr u) (ou_lg u) None
  else mkOu (PositiveMap.add (N.succ_pos c) tt (ou_set u)) (ou_d u + 1) (ou_arr u) (ou_lg u) None.
Definition pm_keys (m : PositiveMap.t unit) : list N := map (fun p => Pos.pred_N (fst p)) (PositiveMap.elements m).

Definition ou_merge (u : ounion) (o : oslot) : ounion :=
  if (os_d o =? 0)%N then mkOu (ou_set u) (ou_d u) (ou_arr u) (ou_lg u) None
  else
    let u1 := fold_left ou_add (pm_keys (os_set o)) u in
    if spec_mode_code (os_lgk o) (os_d o) =? 2
    then mkOu (ou_set u1) (ou_d u1) true (N.min (ou_lg u1) (os_lgk o)) None
    else u1.

Definition ou_is_array (lg_max : N) (u : ounion) : bool :=
  ou_arr u || (spec_mode_code lg_max (ou_d u) =? 2).

(* per-slot maxima of a coupon set at lg *)
Definition regs_of (lg : N) (cs : list N) : PositiveMap.t N :=
  fold_left (fun (m : PositiveMap.t N) (c : N) =>
               let j := ((c mod 67108864) mod 2 ^ lg)%N in
               let v := (c / 67108864)%N in
               match PositiveMap.find (N.succ_pos j) m with
               | Some w => if (w <? v)%N then PositiveMap.add (N.succ_pos j) v m else m
               | None => PositiveMap.add (N.succ_pos j) v m
               end) cs (PositiveMap.empty N).
Fixpoint regs_match_pm (m : PositiveMap.t N) (j : N) (vs : list Z) : bool :=
  match vs with
  | [] => true
  | v :: r => (Nz (match PositiveMap.find (N.succ_pos j) m with Some w => w | None => 0%N end) =? v)
              && regs_match_pm m (j + 1) r
  end.

Definition tosk_ok (lg_max : N) (u : ounion) (t : Z) (ob : list Z) : bool :=
  let m := nth 0 ob (-1) in
  if ou_is_array lg_max u then
    let lg := ou_lg u in
    match dump_regs ob with
    | Some vs => (m =? 2) && (nth 1 ob (-1) =? Nz lg) && (nth 2 ob (-1) =? t) &&
                 (Z.of_nat (length vs) =? 2 ^ Nz lg) && regs_match_pm (regs_of lg (pm_keys (ou_set u))) 0 vs
    | None => false          (* not an array-mode dump *)
    end
  else
    let cs := skipn 5 ob in
    (m =? spec_mode_code lg_max (ou_d u)) && (nth 1 ob (-1) =? Nz lg_max) && (nth 2 ob (-1) =? t) &&
    (Z.of_nat (length cs) =? Nz (ou_d u)) && strictly_increasing cs && forallb (fun c => pm_mem (ou_set u) (zN c)) cs &&
    (nth 4 ob (-1) =? Nz (ou_d u)).

(* a positive finite binary64 bit pattern *)
Definition pos_finite_bits (b : Z) : bool := (0 <? b) && (b <? 9218868437227405312).

Definition est_ok (u : ounion) (ob : list Z) : bool :=
  (Z.of_nat (length ob) =? 7) &&
  (match ou_est u with Some ob' => list_eqb Z.eqb ob ob' | None => true end) &&
  (if (ou_d u =? 0)%N then true else pos_finite_bits (nth 0 ob 0)).
Definition ou_set_est (u : ounion) (ob : list Z) : ounion :=
  mkOu (ou_set u) (ou_d u) (ou_arr u) (ou_lg u) (Some ob).

Definition oslot_dump_ok (o : oslot) (ob : list Z) : bool :=
  let m := nth 0 ob (-1) in
  (m =? spec_mode_code (os_lgk o) (os_d o)) && (nth 1 ob (-1) =? Nz (os_lgk o)) &&
  if m =? 2 then
    match dump_regs ob with
    | Some vs => (Z.of_nat (length vs) =? 2 ^ Nz (os_lgk o)) && regs_match_pm (regs_of (os_lgk o) (pm_keys (os_set o))) 0 vs
    | None => false
    end
  else
    let cs := skipn 5 ob in
    (Z.of_nat (length cs) =? Nz (os_d o)) && strictly_increasing cs && forallb (fun c => pm_mem (os_set o) (zN c)) cs.

(* the deserialized copy of an image re-serializes to the same bytes: up to the order of the Hll4
   exception list always, byte for byte when the image lists no exceptions *)
Definition reser_flags_ok (ob : list Z) : bool :=
  (nth 1 ob 0 =? 1) && ((nth 2 ob 1 =? 1) || (nth 0 ob 0 =? 1)) && (3 <=? Z.of_nat (length ob)).

Definition oget (sl : list (option oslot)) (i : Z) : option oslot := nth (Z.to_nat i) sl None.

Fixpoint union_from (lg_max : N) (sl : list (option oslot)) (u : ounion) (ops : list zop) (obs : list (list Z)) : bool :=
  match ops, obs with
  | (code, a) :: r, ob :: obr =>
      if list_eqb Z.eqb ob PANIC then false
      else
      let i := nth 0 a 0 in
      match code with
      | 10 => union_from lg_max (set_nth (Z.to_nat i) (Some (mkOs (zN (nth 1 a 0)) (PositiveMap.empty unit) 0)) sl) u r obr
      | 11 | 12 =>
          match oget sl i with
          | Some o => union_from lg_max (set_nth (Z.to_nat i) (Some (os_add o (zN (nth (if code =? 11 then 1%nat else 2%nat) a 0)))) sl) u r obr
          | None => union_from lg_max sl u r obr end      (* slot never created: a no-op on both sides, no claim *)
      | 14 => match oget sl i with Some o => union_from lg_max sl (ou_merge u o) r obr | None => union_from lg_max sl u r obr end
      | 15 => union_from lg_max sl (ou_add u (zN (nth 1 a 0))) r obr
      | 16 => union_from lg_max sl (mkOu (PositiveMap.empty unit) 0 false lg_max None) r obr
      | 17 => match oget sl i with Some o => oslot_dump_ok o ob && union_from lg_max sl u r obr | None => union_from lg_max sl u r obr end
      | 18 => tosk_ok lg_max u (nth 0 a 0) ob && union_from lg_max sl u r obr
      | 19 | 21 => est_ok u ob && union_from lg_max sl (ou_set_est u ob) r obr
      | 20 => (nth 0 ob (-1) =? Nz (if ou_is_array lg_max u then ou_lg u else lg_max)) && (nth 1 ob (-1) =? Nz lg_max) &&
              (nth 2 ob (-1) =? zbool (ou_d u =? 0)%N) && union_from lg_max sl u r obr
      | 22 => reser_flags_ok ob && tosk_ok lg_max u (nth 0 a 0) (skipn 3 ob) && union_from lg_max sl u r obr
      | 13 => (match oget sl i, ob with Some _, [] => true | None, _ => true | _, _ => false end) && union_from lg_max sl u r obr
      | _ => false
      end
  | [], [] => true
  | _, _ => false
  end.

Definition union_ok (c : case) : bool :=
  if is_union_case (c_cfg c) then
    let lg_max := zN (nth 0 (c_cfg c) 0) in
    union_from lg_max (repeat None 8) (mkOu (PositiveMap.empty unit) 0 false lg_max None) (c_ops c) (c_obs c)
  else true.

(* ================= codec oracles (C11 / C12 / C13 / C14 / C18 parts) ================= *)
(* C11 twin: group 0 and group 1 are fed the same stream in the same order; group 0 is forked
   through serialize/deserialize (op 8) at arbitrary points.  Observations (dump, estimate, bounds,
   the image bytes up to the order of the Hll4 exception list, the merge of the sketch into a fresh
   union) taken at the same stream position by the same type must be identical across the two
   groups; every round trip must succeed (op 8: no ERR) and every re-serialization must reproduce
   the image (op 31). *)
Definition norm_obs (code : Z) (ob : list Z) : list Z :=
  if code =? 7 then map Nz (norm_image (map zN ob)) else ob.

Fixpoint twin_from (n0 n1 : N) (seen : list (Z * N * Z * Z * list Z)) (ops : list zop) (obs : list (list Z)) : bool :=
  match ops, obs with
  | [], [] => true
  | (code, a) :: r, ob :: obr =>
      if list_eqb Z.eqb ob PANIC then false else
      let g := nth 0 a 0 in
      let t := nth 1 a 0 in
      let n := if g =? 0 then n0 else n1 in
      match code with
      | 1 | 2 => if g =? 0 then twin_from (n0 + 1) n1 seen r obr else twin_from n0 (n1 + 1) seen r obr
      | 3 | 4 | 5 | 7 | 30 =>
          let nob := norm_obs code ob in
          negb (list_eqb Z.eqb ob ERR) &&
          forallb (fun e => let '(c, m, t', g', ob') := e in
                            if (c =? code) && (m =? n)%N && (t' =? t) && negb (g' =? g) then list_eqb Z.eqb nob ob' else true) seen
          && twin_from n0 n1 ((code, n, t, g, nob) :: seen) r obr
      | 8 => (match ob with [] => true | _ => false end) && twin_from n0 n1 seen r obr
      | 31 => reser_flags_ok ob && twin_from n0 n1 seen r obr
      | 6 | 32 => twin_from n0 n1 seen r obr
      | _ => false          (* op 9 and unknown codes do not belong in a twin case *)
      end
  | _, _ => false
  end.

Definition twin_ok (c : case) : bool :=
  if is_union_case (c_cfg c) then true else twin_from 0 0 [] (c_ops c) (c_obs c).

(* C12 / C18: the independent decoder (Spec/HllLayout.v) applied to the crate's image recovers the
   Spec state of the stream: lg_k, type, mode = function of the number of distinct coupons, the
   coupon set / the per-slot maxima, cur_min = min register, num_at_cur_min, the exceptions; array
   images carry the COMPACT flag; and the image has exactly the size the mode dictates. *)
Definition spec_min_reg (o : ogroup) (lgk : N) : N :=
  fold_left (fun m j => N.min m (og_reg o j)) (lseq 0 (N.to_nat (2 ^ lgk))) 63%N.
Definition spec_count_regs (o : ogroup) (lgk : N) (p : N -> bool) : N :=
  N.of_nat (length (filter (fun j => p (og_reg o j)) (lseq 0 (N.to_nat (2 ^ lgk))))).

Definition image_ok (lgk : N) (o : ogroup) (t : Z) (ob : list Z) : bool :=
  let bs := map zN ob in
  match hll_spec_decode bs with
  | None => false
  | Some im =>
      let m := spec_mode_code lgk (og_d o) in
      (Nz (im_mode im) =? m) && (im_lgk im =? lgk)%N && (Nz (im_type im) =? t) &&
      negb (im_ooo im) &&        (* sketches built by updates (and their round-trip copies) are in order *)
      if m =? 2 then
        let k := (2 ^ lgk)%N in
        let is4 := (im_type im =? 0)%N in
        let is6 := (im_type im =? 1)%N in
        let cm := if is4 then spec_min_reg o lgk else 0%N in
        let naux := if is4 then spec_count_regs o lgk (fun v => (cm + 15 <=? v)%N) else 0%N in
        let body := (if is4 then k / 2 + 4 * naux else if is6 then 3 * k / 4 + 1 else k)%N in
        regs_match o 0 (map Nz (im_regs im)) && (N.of_nat (length (im_regs im)) =? k)%N &&
        (im_cur_min im =? cm)%N && (im_num_at_cur_min im =? spec_count_regs o lgk (fun v => (v =? cm)%N))%N &&
        (N.of_nat (length (im_aux im)) =? naux)%N &&
        negb (N.land (nth 5 bs 0%N) 8 =? 0)%N &&
        (* C18: 40 + k/2 | 3k/4+1 | k bytes, plus 4 per aux entry *)
        (N.of_nat (length bs) =? 40 + body)%N
      else
        let cs := map Nz (im_coupons im) in
        (Z.of_nat (length cs) =? Nz (og_d o)) && forallb (fun c => og_mem o (zN c)) cs &&
        NoDup_b cs &&
        (* C18: 8 + 4c | 12 + 4c *)
        let pre := if m =? 0 then 8%N else 12%N in
        (N.of_nat (length bs) =? pre + 4 * og_d o)%N
  end.

Fixpoint layout_from (lgk : N) (g0 g1 : option ogroup) (ops : list zop) (obs : list (list Z)) : bool :=
  match ops, obs with
  | [], [] => true
  | (code, a) :: r, ob :: obr =>
      if list_eqb Z.eqb ob PANIC then false else
      let g := nth 0 a 0 in
      let continue (o' : option ogroup) := if g =? 0 then layout_from lgk o' g1 r obr else layout_from lgk g0 o' r obr in
      match (if g =? 0 then g0 else g1) with
      | None => continue None
      | Some o =>
          match code with
          | 1 => continue (Some (og_add lgk o (zN (nth 2 a 0))))
          | 2 => continue (Some (og_add lgk o (zN (nth 1 a 0))))
          | 7 => image_ok lgk o (nth 1 a 0) ob && continue (Some o)
          | 8 => (match ob with [] => true | _ => false end) && continue (Some o)
          | 9 => continue None
          | _ => continue (Some o)
          end
      end
  | _, _ => false
  end.

Definition layout_ok (c : case) : bool :=
  if is_union_case (c_cfg c) then true
  else layout_from (zN (nth 0 (c_cfg c) 0)) (Some og_empty) (Some og_empty) (c_ops c) (c_obs c).

(* C13: a foreign image (written by the generator's spec encoder: every variant of the Java/C++
   writers) must be accepted, and the state dumped right after must be the one the independent
   decoder reads from the same bytes: mode, lg_k, type, the coupon set / the registers, and for
   arrays the out-of-order flag, cur_min, the exceptions, and kxq0/kxq1 (and the HIP accumulator
   unless out of order, where it is zeroed).  op 9 is always followed by the dump (op 3). *)
Fixpoint sorted_nodup_insert (x : Z) (l : list Z) : list Z :=
  match l with [] => [x] | y :: r => if x <? y then x :: l else if x =? y then l else y :: sorted_nodup_insert x r end.
Definition sort_set (l : list Z) : list Z := fold_right sorted_nodup_insert [] l.

Definition dump_matches_image (im : himage) (ob : list Z) : bool :=
  (nth 0 ob (-1) =? Nz (im_mode im)) && (nth 1 ob (-1) =? Nz (im_lgk im)) && (nth 2 ob (-1) =? Nz (im_type im)) &&
  if (im_mode im =? 2)%N then
    match dump_regs ob with
    | Some vs =>
        list_eqb Z.eqb vs (map Nz (im_regs im)) &&
        (nth 5 ob (-1) =? zbool (im_ooo im)) &&
        (if im_ooo im then nth 6 ob (-1) =? 0 else nth 6 ob (-1) =? Nz (im_hip im)) &&
        (nth 7 ob (-1) =? Nz (im_kxq0 im)) && (nth 8 ob (-1) =? Nz (im_kxq1 im)) &&
        (if (im_type im =? 0)%N then (nth 3 ob (-1) =? Nz (im_cur_min im)) && (nth 9 ob (-1) =? Z.of_nat (length (im_aux im))) else true)
    | None => false
    end
  else
    list_eqb Z.eqb (skipn 5 ob) (sort_set (map Nz (im_coupons im))) &&
    (nth 4 ob (-1) =? Z.of_nat (length (sort_set (map Nz (im_coupons im))))).

(* the merge of the freshly loaded image into an empty union of the same lg_k (op 30) shows the
   image's state as an Hll8 sketch: the registers, or the coupon set in the image's mode *)
Definition merged_matches_image (im : himage) (ob : list Z) : bool :=
  let lgk := im_lgk im in
  (nth 1 ob (-1) =? Nz lgk) && (nth 2 ob (-1) =? 2) &&
  if (im_mode im =? 2)%N then
    let vs := skipn 10 ob in
    if forallb (fun v => (v =? 0)%N) (im_regs im) then nth 0 ob (-1) =? 0      (* an empty source leaves the union empty *)
    else (nth 0 ob (-1) =? 2) && (nth 9 ob (-1) =? 0) && list_eqb Z.eqb vs (map Nz (im_regs im))
  else
    (* an empty union adopts a list / set source as it is: same mode, same coupon set *)
    let cs := sort_set (map Nz (im_coupons im)) in
    (nth 0 ob (-1) =? Nz (im_mode im)) && list_eqb Z.eqb (skipn 5 ob) cs && (nth 4 ob (-1) =? Z.of_nat (length cs)).

(* estimate and bounds of a sketch loaded from a valid image: seven numbers, the estimate not a NaN
   and not negative (-0.0, the value of an accepted hip_accum field -0.0, counts as zero) *)
Definition qry_sane (ob : list Z) : bool :=
  (Z.of_nat (length ob) =? 7) && negb (is_nan_bits (nth 0 ob 0)) && (nth 0 ob 0 <=? 9223372036854775808).

(* state: the image the slot (g, t) was loaded from, and whether it has been updated since.
   strict (C13: spec-encoded images): every image the layout decoder understands must be accepted;
   not strict (C14: mutated images): IF such an image is accepted, the sketch must be the one it encodes;
   its own image may later be refused and its estimate after updates may be meaningless, because the
   kxq0 / kxq1 fields of an accepted image are not compared with its registers (known finding
   C14-hll-kxq-not-validated): a round trip answering Err is tolerated there, a panic never is *)
Fixpoint foreign_from (strict : bool) (cur : option (Z * Z * himage)) (fresh : bool) (ops : list zop) (obs : list (list Z)) : bool :=
  match ops, obs with
  | [], [] => true
  | (code, a) :: r, ob :: obr =>
      if list_eqb Z.eqb ob PANIC then false else
      let here := match cur with Some (g, t, _) => (nth 0 a 0 =? g) && (nth 1 a 0 =? t) | None => false end in
      match code with
      | 9 => match hll_spec_decode (map zN (skipn 2 a)) with
             | Some im => if list_eqb Z.eqb ob [1] then foreign_from strict (Some (nth 0 a 0, nth 1 a 0, im)) true r obr
                          else negb strict && list_eqb Z.eqb ob ERR && foreign_from strict None false r obr
             | None => foreign_from strict None false r obr       (* not a valid image under the layout: no claim *)
             end
      | 1 | 2 => foreign_from strict cur (if match cur with Some (g, _, _) => nth 0 a 0 =? g | None => false end then false else fresh) r obr
      | 3 => match cur with
             | Some (_, _, im) => (if here && fresh then dump_matches_image im ob else negb (list_eqb Z.eqb ob ERR)) && foreign_from strict cur fresh r obr
             | None => foreign_from strict cur fresh r obr
             end
      | 30 => match cur with
              | Some (_, _, im) => (if here && fresh then merged_matches_image im ob else negb (list_eqb Z.eqb ob ERR)) && foreign_from strict cur fresh r obr
              | None => foreign_from strict cur fresh r obr
              end
      | 8 => match cur with
             | Some _ => (if here then match ob with [] => true | _ => negb strict && list_eqb Z.eqb ob ERR end else true) && foreign_from strict cur fresh r obr
             | None => foreign_from strict cur fresh r obr
             end
      | 31 => match cur with
              | Some _ => (if here then reser_flags_ok ob || (negb strict && list_eqb Z.eqb ob ERR) else true) && foreign_from strict cur fresh r obr
              | None => foreign_from strict cur fresh r obr
              end
      | 32 => match cur with
              | Some _ => (if here && (strict || fresh) then qry_sane ob else true) && foreign_from strict cur fresh r obr
              | None => foreign_from strict cur fresh r obr
              end
      | 4 | 5 | 6 | 7 => negb (list_eqb Z.eqb ob ERR) && foreign_from strict cur fresh r obr
      | _ => false
      end
  | _, _ => false
  end.

Definition foreign_ok (c : case) : bool :=
  if is_union_case (c_cfg c) then true else foreign_from true None false (c_ops c) (c_obs c).
(* C14: a mutated image that the layout decoder still understands and the crate ACCEPTS must give the
   sketch the image encodes (state, merge, re-serialization, sane queries) *)
Definition accepted_ok (c : case) : bool :=
  if is_union_case (c_cfg c) then true else foreign_from false None false (c_ops c) (c_obs c).

(* C14: no operation of the case panicked or allocated out of proportion (-997) *)
Definition no_panic (c : case) : bool :=
  forallb (fun ob => negb (list_eqb Z.eqb ob PANIC) && negb (list_eqb Z.eqb ob [-997])) (c_obs c).

Definition oracles : list (Z * (case -> bool)) :=
  [(0, prop_ok); (1, union_ok); (2, twin_ok); (3, layout_ok); (4, foreign_ok); (5, no_panic); (6, accepted_ok)].
