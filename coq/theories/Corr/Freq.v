(* Correspondence driver for Frequent Items (family `freq`): replays a Z-encoded case on the
   model and yields the observations the Rust harness prints (harness/src/freq.rs), plus the
   property oracle (the Spec: an exact frequency map per sketch).  No proofs here.

   The observations come from the concrete level (Model.Freq PART B: the hash table slot by
   slot).  In lock step the abstract level (PART A, the one the theorems of Props/C07.v are
   about) is run on the same operations, fed with the samples and replay orders the concrete
   level used; if an abstract step rejects them (not an admissible choice) or the two levels
   stop agreeing, the observation is replaced by [BAD] so the tie is reported broken.  Hence
   every replayed crate step is (checked to be) an instance of a proved step. *)
From DS Require Import Base.Prelude Base.FloatBits Base.Oracles Model.Freq Spec.FreqLayout.
Open Scope Z_scope.

Definition BAD : list Z := [-777].

(* ---------- lock-step agreement between the two levels ---------- *)
Definition quick_eq (c : fc) (a : fi) : bool :=
  ((fc_lg_max c =? fi_lg_max a) && (rp_lg (fc_map c) =? fi_lg_cur a) && (fc_offset c =? fi_offset a)
   && (fc_weight c =? fi_weight a) && (fc_num_active c =? fi_num_active a)
   && (fc_cur_cap c =? fi_cur_cap a) && (fc_sample_size c =? fi_sample_size a))%N.

Fixpoint strictly_increasing (l : list Z) : bool :=
  match l with
  | x :: ((y :: _) as r) => (x <? y) && strictly_increasing r
  | _ => true
  end.
Definition distinct_keys (l : list Z) : bool := strictly_increasing (msort Z.leb l).

(* the table holds exactly the abstract counters *)
Definition full_eq (c : fc) (a : fi) : bool :=
  let es := active_entries (fc_map c) in
  quick_eq c a
  && (N.of_nat (length es) =? fc_num_active c)%N
  && distinct_keys (map e_key es)
  && forallb (fun e => (0 <? e_val e)%N && (cs_get (fi_cs a) (e_key e) =? e_val e)%N) es.

(* [order] is a permutation of the (duplicate-free) counter list [cs] *)
Definition perm_check (order cs : counters) : bool :=
  (length order =? length cs)%nat && distinct_keys (map fst order)
  && forallb (fun p => (0 <? snd p)%N && (cs_get cs (fst p) =? snd p)%N) order.

(* size_of::<Option<i64>>() + size_of::<u64>() + size_of::<u16>(): what one slot of
   ReversePurgeItemHashMap<i64> occupies (keys, values, states) *)
Definition SLOT_BYTES : N := 26.

(* serialize() decoded into a layout-independent observation: the pairs sorted by item *)
Definition canon_of (bs : list N) : list Z :=
  Nz (N.of_nat (length bs)) :: map Nz (firstn 6 bs) ++
  (if (length bs <? 32)%nat then [0; 0; 0] else
   let n := le_val (firstn 4 (skipn 8 bs)) in
   let hd3 := [Nz n; Nz (le_val (firstn 8 (skipn 16 bs))); Nz (le_val (firstn 8 (skipn 24 bs)))] in
   match read_u64s (N.to_nat n) (skipn 32 bs) with
   | Some (vals, rest) =>
       match read_u64s (N.to_nat n) rest with
       | Some (items, _) =>
           hd3 ++ flat_map (fun p => [fst p; Nz (snd p)])
                    (msort (fun a b => Z.leb (fst a) (fst b)) (combine (map i64_of_u64 items) vals))
       | None => hd3
       end
   | None => hd3
   end).

(* ---------- slots ---------- *)
Definition sl : Type := (fc * fi)%type.
Definition slots := list (option sl).
Definition get_slot (st : slots) (i : Z) : option sl := nth (Z.to_nat i) st None.
Definition put_slot (st : slots) (i : Z) (s : sl) : slots := set_nth (Z.to_nat i) (Some s) st.

Definition zrow (r : row) : list Z := [row_item r; Nz (row_est r); Nz (row_ub r); Nz (row_lb r)].
Definition row_eqb (a b : row) : bool :=
  (row_item a =? row_item b) && (row_est a =? row_est b)%N && (row_ub a =? row_ub b)%N && (row_lb a =? row_lb b)%N.
Definition sort_rows (l : list row) : list row := msort (fun a b => Z.leb (row_item a) (row_item b)) l.

(* state: slots and the "levels still agree" flag *)
Definition state : Type := (slots * bool)%type.

(* ops 20..25 are ops 0..5 on FrequentItemsSketch<String> (harness/src/freq.rs): the model keys a
   String item by the id the generator gave it and gets the hash of its bytes + 0xff; the argument
   positions are those of the i64 ops (the item's bytes follow and are ignored here) *)
(* ops 40..52 are ops 0..12 on FrequentItemsSketch<u64>: an item crosses the case format as the i64 with the
   same bits (same hash, same image bytes), so the i64 model answers them.  Ops 31..34 (String images) have no
   model counterpart: the legs that use them leave them out of the comparison (mask) and judge the crate's
   observations with [prop_generic]. *)
Definition norm_code (code : Z) : Z :=
  if (20 <=? code) && (code <=? 25) then code - 20
  else if (40 <=? code) && (code <=? 52) then code - 40 else code.

Definition step (st0 : state) (o : zop) : state * list Z :=
  let '(st, good) := st0 in
  let '(code0, a) := o in
  let code := norm_code code0 in
  let a0 := nth 0 a 0 in let a1 := nth 1 a 0 in let a2 := nth 2 a 0 in let a3 := nth 3 a 0 in
  let fail := ((st, false), BAD) in
  let out (st' : slots) (ok : bool) (ob : list Z) : state * list Z :=
    if good && ok then ((st', true), ob) else ((st', false), BAD) in
  match code with
  | 0 => (* new slot max_map_size *)
      match fc_new (zN a1) with
      | Ok c => let ab := fi_new_lg (N.log2 (zN a1)) in out (put_slot st a0 (c, ab)) (full_eq c ab) []
      | _ => ((st, good), PANIC)
      end
  | 1 => (* update slot item weight hash *)
      match get_slot st a0 with
      | Some (c, ab) =>
          match fc_update c a1 (zN a3) (zN a2) with
          | Ok (c', tr) =>
              match fi_update tr ab a1 (zN a2) with
              | Some (ab', []) =>
                  let ok := match tr with
                            | [] => if (rp_lg (fc_map c') =? rp_lg (fc_map c))%N
                                    then quick_eq c' ab' && (rp_get (fc_map c') a1 (zN a3) =? cs_get (fi_cs ab') a1)%N
                                    else full_eq c' ab'
                            | _ => full_eq c' ab'
                            end in
                  out (put_slot st a0 (c', ab')) ok []
              | _ => fail
              end
          | _ => ((st, good), PANIC)
          end
      | None => ((st, good), EMPTY)
      end
  | 2 => (* query slot item hash *)
      match get_slot st a0 with
      | Some (c, ab) =>
          let h := zN a2 in
          let e := fc_estimate c a1 h in let l := fc_lower c a1 h in let u := fc_upper c a1 h in
          out st ((e =? fi_estimate ab a1)%N && (l =? fi_lower ab a1)%N && (u =? fi_upper ab a1)%N
                  && (fc_offset c =? fi_max_error ab)%N)
              [Nz e; Nz l; Nz u; Nz (fc_offset c)]
      | None => ((st, good), EMPTY)
      end
  | 3 => (* stats slot *)
      match get_slot st a0 with
      | Some (c, ab) =>
          out st (quick_eq c ab && (fc_max_cap c =? fi_max_cap ab)%N && Bool.eqb (fc_is_empty c) (fi_is_empty ab))
              [Nz (fc_offset c); Nz (fc_weight c); Nz (fc_num_active c); zbool (fc_is_empty c);
               Nz (rp_lg (fc_map c)); Nz (fc_cur_cap c); Nz (fc_lg_max c); Nz (fc_max_cap c)]
      | None => ((st, good), EMPTY)
      end
  | 4 => (* merge dst src *)
      match get_slot st a0, get_slot st a1 with
      | Some (c, ab), Some (co, abo) =>
          match fc_merge c co with
          | Ok (c', tr) =>
              let order := map (fun e => (e_key e, e_val e)) (rp_iter (fc_map co)) in
              match fi_merge tr order ab abo with
              | Some (ab', []) => out (put_slot st a0 (c', ab')) (perm_check order (fi_cs abo) && full_eq c' ab') []
              | _ => fail
              end
          | _ => ((st, good), PANIC)
          end
      | _, _ => ((st, good), EMPTY)
      end
  | 5 => (* frequent slot error_type mode threshold *)
      match get_slot st a0 with
      | Some (c, ab) =>
          let nfp := negb (a1 =? 0) in
          let rows := if a2 =? 0 then fc_frequent nfp c else fc_frequent_thr nfp (zN a3) c in
          let arows := sort_rows (if a2 =? 0 then fi_frequent nfp ab else fi_frequent_thr nfp (zN a3) ab) in
          out st (list_eqb row_eqb rows arows) (Nz (fc_offset c) :: flat_map zrow rows)
      | None => ((st, good), EMPTY)
      end
  | 6 => (* serialize slot *)
      match get_slot st a0 with
      | Some (c, ab) => out st (full_eq c ab) (map Nz (fc_serialize c))
      | None => ((st, good), EMPTY)
      end
  | 7 => (* roundtrip src dst *)
      match get_slot st a0 with
      | Some (c, ab) =>
          let hashes := map e_hash (active_entries (fc_map c)) in
          match fc_deserialize (fc_serialize c) hashes with
          | Ok c' => out (put_slot st a1 (c', fi_of_fc c')) true [1]
          | Err => ((st, good), ERR)
          | Stuck => ((st, good), PANIC)
          end
      | None => ((st, good), EMPTY)
      end
  | 8 => (* deserialize slot k hash_1..hash_k bytes... *)
      let k := Z.to_nat a1 in
      let hashes := map zN (firstn k (skipn 2 a)) in
      let bytes := map zN (skipn (2 + k) a) in
      match fc_deserialize bytes hashes with
      | Ok c' => out (put_slot st a0 (c', fi_of_fc c')) true [1]
      | Err => ((st, good), ERR)
      | Stuck => ((st, good), PANIC)
      end
  | 9 => (* reset slot *)
      match get_slot st a0 with
      | Some (c, ab) =>
          match fc_reset c with
          | Ok c' => let ab' := fi_reset ab in out (put_slot st a0 (c', ab')) (full_eq c' ab') []
          | _ => ((st, good), PANIC)
          end
      | None => ((st, good), EMPTY)
      end
  | 10 => (* epsilon slot *)
      match get_slot st a0 with
      | Some (c, _) => out st true [fc_epsilon_bits c]
      | None => ((st, good), EMPTY)
      end
  | 11 => (* parse slot k hash_1..hash_k bytes...: the slot is cleared first.  The crate's peak allocation is
             the two vectors (8 bytes per announced counter each) plus the table of the announced current map
             (SLOT_BYTES per slot), allocated once the image has passed validation; the harness reports a peak
             above 64 * len + 1 MiB as ALLOC and drops the value. *)
      let k := Z.to_nat a1 in
      let hashes := map zN (firstn k (skipn 2 a)) in
      let bytes := map zN (skipn (2 + k) a) in
      let cleared := set_nth (Z.to_nat a0) None st in
      match fc_parse bytes with
      | Ok img =>
          let nvals := match img with ImgEmpty _ _ => 0%N | ImgFull _ _ _ _ vs _ => N.of_nat (length vs) end in
          if (64 * N.of_nat (length bytes) + 1048576 <? SLOT_BYTES * fc_deser_table_slots bytes + 16 * nvals)%N
          then ((cleared, good), ALLOC)
          else match fc_build img hashes with
               | Ok c' => out (put_slot st a0 (c', fi_of_fc c')) true [1]
               | Err => ((cleared, good), ERR)
               | Stuck => ((cleared, good), PANIC)
               end
      | Err => ((cleared, good), ERR)
      | Stuck => ((cleared, good), PANIC)
      end
  | 12 => (* canon slot *)
      match get_slot st a0 with
      | Some (c, ab) => out st (full_eq c ab) (canon_of (fc_serialize c))
      | None => ((st, good), EMPTY)
      end
  | _ => ((st, good), PANIC)
  end.

Fixpoint run_from (st : state) (ops : list zop) : list (list Z) :=
  match ops with
  | [] => []
  | o :: r => let '(st', ob) := step st o in ob :: run_from st' r
  end.

Definition run (cfg : list Z) (ops : list zop) : list (list Z) :=
  run_from (repeat None 8, true) ops.

(* =====================================================================================
   Property oracle (C07), written from the property text, independent of the model:
   per slot the exact frequency map and the exact total weight of everything that was
   updated or merged into it.  A slot whose history is not known (filled by a
   deserialization) is not judged.
   ===================================================================================== *)
Definition truth_map := list (Z * N).
Fixpoint tm_add (m : truth_map) (x : Z) (w : N) : truth_map :=
  match m with
  | [] => [(x, w)]
  | (y, v) :: r => if x =? y then (y, (v + w)%N) :: r else (y, v) :: tm_add r x w
  end.
Fixpoint tm_get (m : truth_map) (x : Z) : N :=
  match m with [] => 0%N | (y, v) :: r => if x =? y then v else tm_get r x end.
Fixpoint tm_merge (a b : truth_map) : truth_map :=
  match b with [] => a | (y, v) :: r => tm_merge (tm_add a y v) r end.

Record ospec := mkO {
  o_truth : truth_map;
  o_total : N;
  o_size : N;              (* this sketch's max_map_size (>= 8) *)
  o_uniform : bool         (* every sketch merged into it had the same max_map_size *)
}.
Definition ostate := list (option ospec).
Definition og (st : ostate) (i : Z) : option ospec := nth (Z.to_nat i) st None.
Definition op_ (st : ostate) (i : Z) (v : option ospec) : ostate := set_nth (Z.to_nat i) v st.

(* rows [item; est; ub; lb] of a frequent_items observation *)
Fixpoint parse_rows (fuel : nat) (l : list Z) : list (Z * N * N * N) :=
  match fuel, l with
  | S f, i :: e :: u :: lo :: r => (i, zN e, zN u, zN lo) :: parse_rows f r
  | _, _ => []
  end.

(* the bracket for one item: lower <= truth <= upper, upper - lower <= maximum_error *)
Definition bracket_ok (t lb ub err : N) : bool := ((lb <=? t) && (t <=? ub) && (ub - lb <=? err))%N.

(* what the Spec says about shapes: new / update / merge / reset observe nothing *)
Definition is_pow2 (n : N) : bool := ((0 <? n) && (N.land n (n - 1) =? 0))%N.
Definition nil_obs {A} (ob : list A) : bool := match ob with [] => true | _ => false end.

(* A PANIC observation is predicted by the Spec only for new(max_map_size) with a size that is not
   a power of two (documented); it ends the case.  Every other PANIC, a missing PANIC there, an
   observation of the wrong shape, an EMPTY observation for a slot the Spec knows to hold a sketch,
   and a length mismatch between operations and observations (the drivers cut the operations after
   the observation of a panic) make the oracle fail. *)
Fixpoint prop_from (st : ostate) (ops : list zop) (obs : list (list Z)) : bool :=
  match ops, obs with
  | [], [] => true
  | (code0, a) :: r, ob :: obr =>
      let code := norm_code code0 in
      let a0 := nth 0 a 0 in let a1 := nth 1 a 0 in let a2 := nth 2 a 0 in let a3 := nth 3 a 0 in
      if list_eqb Z.eqb ob PANIC then (code =? 0) && negb (is_pow2 (zN a1)) && nil_obs obr else
      match code with
      | 0 => is_pow2 (zN a1) && nil_obs ob && prop_from (op_ st a0 (Some (mkO [] 0 (N.max (zN a1) 8) true))) r obr
      | 1 => match og st a0 with
             | Some s => nil_obs ob &&
                         prop_from (op_ st a0 (Some (mkO (tm_add (o_truth s) a1 (zN a2)) (o_total s + zN a2) (o_size s) (o_uniform s)))) r obr
             | None => prop_from st r obr
             end
      | 2 => match og st a0 with
             | Some s =>
                 let est := zN (nth 0 ob 0) in let lb := zN (nth 1 ob 0) in let ub := zN (nth 2 ob 0) in
                 let err := zN (nth 3 ob 0) in
                 Nat.eqb (length ob) 4 &&
                 bracket_ok (tm_get (o_truth s) a1) lb ub err && (lb <=? est)%N && (est <=? ub)%N && prop_from st r obr
             | None => prop_from st r obr
             end
      | 3 => match og st a0 with
             | Some s =>
                 let err := zN (nth 0 ob 0) in let total := zN (nth 1 ob 0) in let active := zN (nth 2 ob 0) in
                 let lgm := zN (nth 6 ob 0) in let mcap := zN (nth 7 ob 0) in
                 Nat.eqb (length ob) 8
                 && (total =? o_total s)%N                           (* total_weight is exact *)
                 && (active <=? 3 * o_size s / 4)%N                  (* capacity *)
                 (* the reported configuration is the one of the map in use: sizes below 8 are raised to 8 *)
                 && (mcap =? 3 * o_size s / 4)%N && (lgm =? N.log2 (o_size s))%N
                 && (if o_uniform s
                     then if (o_size s <=? 1024)%N
                          then (2 * o_size s * err <=? 7 * o_total s)%N    (* maximum_error <= (3.5 / M) * N *)
                          else (512 * err <=? o_total s)%N                 (* map sizes from 2048: maximum_error <= N / 512 *)
                     else true)
                 && prop_from st r obr
             | None => prop_from st r obr
             end
      | 4 => match og st a0, og st a1 with
             | Some s, Some t =>
                 nil_obs ob &&
                 prop_from (op_ st a0 (Some (mkO (tm_merge (o_truth s) (o_truth t)) (o_total s + o_total t) (o_size s)
                                                 (o_uniform s && o_uniform t && (o_size s =? o_size t)%N)))) r obr
             | _, _ => prop_from (op_ st a0 None) r obr
             end
      | 5 => match og st a0 with
             | Some s =>
                 let err := zN (nth 0 ob 0) in
                 let thr := if a2 =? 0 then err else N.max (zN a3) err in
                 let rows := parse_rows (length ob) (tl ob) in
                 (* one leading maximum_error, then complete rows *)
                 Nat.eqb (length ob) (S (4 * length rows)) &&
                 (* every reported row brackets the truth *)
                 forallb (fun rw => let '(i, _, u, lo) := rw in bracket_ok (tm_get (o_truth s) i) lo u err) rows
                 && (if a1 =? 0
                     then (* NoFalseNegatives: every item whose true count exceeds the threshold is reported *)
                       forallb (fun p => if (thr <? snd p)%N then existsb (fun rw => fst (fst (fst rw)) =? fst p) rows else true)
                               (o_truth s)
                     else (* NoFalsePositives: only items whose true count exceeds the threshold *)
                       forallb (fun rw => (thr <? tm_get (o_truth s) (fst (fst (fst rw))))%N) rows)
                 && prop_from st r obr
             | None => prop_from st r obr
             end
      | 7 => if list_eqb Z.eqb ob [1] then prop_from (op_ st a1 None) r obr else prop_from st r obr
      | 8 => if list_eqb Z.eqb ob [1] then prop_from (op_ st a0 None) r obr else prop_from st r obr
      | 9 => match og st a0 with
             | Some s => nil_obs ob && prop_from (op_ st a0 (Some (mkO [] 0 (o_size s) true))) r obr
             | None => prop_from st r obr
             end
      | 11 => prop_from (op_ st a0 None) r obr
      | _ => prop_from st r obr
      end
  | _, _ => false
  end.

Definition prop_ok (c : case) : bool := prop_from (repeat None 8) (c_ops c) (c_obs c).

(* =====================================================================================
   Codec oracles (C11, C12, C13, C14, C18), evaluated on the crate's observations only.
   ===================================================================================== *)

(* ---- C11: deserialize(serialize(s)) behaves exactly as s.  Op 7 (roundtrip src dst) is the fork;
   new / deserialize / parse re-initialise a slot. ---- *)
Definition prop_roundtrip : case -> bool := twin_oracle 7 [0; 8; 11].

Definition is_obs (ob v : list Z) : bool := list_eqb Z.eqb ob v.

(* the exact history of every slot (same bookkeeping as prop_from); a round trip copies it *)
Definition o_next (st : ostate) (code : Z) (a ob : list Z) : ostate :=
  let a0 := nth 0 a 0 in let a1 := nth 1 a 0 in let a2 := nth 2 a 0 in
  if is_obs ob EMPTY then st else
  match code with
  | 0 => op_ st a0 (Some (mkO [] 0 (N.max (zN a1) 8) true))
  | 1 => match og st a0 with
         | Some s => op_ st a0 (Some (mkO (tm_add (o_truth s) a1 (zN a2)) (o_total s + zN a2) (o_size s) (o_uniform s)))
         | None => st
         end
  | 4 => match og st a0, og st a1 with
         | Some s, Some t => op_ st a0 (Some (mkO (tm_merge (o_truth s) (o_truth t)) (o_total s + o_total t) (o_size s)
                                                  (o_uniform s && o_uniform t && (o_size s =? o_size t)%N)))
         | _, _ => op_ st a0 None
         end
  | 7 => if is_obs ob [1] then op_ st a1 (og st a0) else st
  | 8 => if is_obs ob [1] then op_ st a0 None else st
  | 9 => match og st a0 with
         | Some s => op_ st a0 (Some (mkO [] 0 (o_size s) true))
         | None => st
         end
  | 11 => op_ st a0 None
  | _ => st
  end.

Definition sort_pairs (l : list (Z * N)) : list (Z * N) := msort (fun a b => Z.leb (fst a) (fst b)) l.
Definition pair_eqb (a b : Z * N) : bool := (fst a =? fst b) && (snd a =? snd b)%N.

(* ---- C12 / C18: the crate's image, decoded by the independent layout decoder, is the state the
   Spec knows from the history: weight exactly; every (item, count) of the image brackets the
   exact frequency (count <= f <= count + offset); items distinct; no more counters than the
   capacity of the announced current map; size = 8 (no weight) | 32 + 16 * counters. ---- *)
Definition image_ok (s : ospec) (ob : list Z) : bool :=
  match spec_decode (map zN ob) with
  | None => false
  | Some d =>
      let lg := N.log2 (o_size s) in
      ((a_lg_max d =? lg) && (3 <=? a_lg_cur d) && (a_lg_cur d <=? lg)
       && (a_weight d =? o_total s)
       && (a_offset d + sumN (map snd (a_counters d)) <=? a_weight d))%N
      && distinct_keys (map fst (a_counters d))
      && forallb (fun p => let f := tm_get (o_truth s) (fst p) in
                           ((0 <? snd p) && (snd p <=? f) && (f <=? snd p + a_offset d))%N) (a_counters d)
      && (N.of_nat (length (a_counters d)) <=? spec_capacity (a_lg_cur d))%N
      && Nat.eqb (length ob) (spec_size (o_total s) (length (a_counters d)))
  end.

Fixpoint layout_from (st : ostate) (ops : list zop) (obs : list (list Z)) : bool :=
  match ops, obs with
  | (code, a) :: r, ob :: obr =>
      (* the legs this oracle judges make valid calls only: no PANIC is predicted; a slot the Spec knows
         to hold a sketch never observes EMPTY *)
      if is_obs ob PANIC then false else
      let ok :=
        match code, og st (nth 0 a 0) with
        | 6, Some s => image_ok s ob
        | 3, Some s => (* C18: never more active items than maximum_map_capacity = 3/4 of the map size *)
                       let act := zN (nth 2 ob 0) in let mcap := zN (nth 7 ob 0) in
                       let lgc := zN (nth 4 ob 0) in let ccap := zN (nth 5 ob 0) in let lgm := zN (nth 6 ob 0) in
                       Nat.eqb (length ob) 8 && ((act <=? 3 * o_size s / 4) && (mcap =? 3 * o_size s / 4)
                                                 && (lgm =? N.log2 (o_size s)) && (3 <=? lgc) && (lgc <=? lgm) && (ccap <=? mcap))%N
        | _, Some s => negb (is_obs ob EMPTY)
        | _, None => true
        end in
      ok && layout_from (o_next st code a ob) r obr
  | [], [] => true
  | _, _ => false
  end.
Definition prop_layout (c : case) : bool := layout_from (repeat None 8) (c_ops c) (c_obs c).

(* ---- C14 ---- *)
Definition no_panic : case -> bool := no_panic_oracle.

(* ---- C13: an image that is valid under the layout (decoded by the independent decoder from
   the bytes the generator's spec encoder produced) must be accepted, and the sketch must then
   hold exactly that state: accessors, bounds of tracked and untracked items, frequent_items,
   re-serialization, a further round trip, and a merge into a fresh sketch. ---- *)
Record fexp := mkFE { fe_abs : fi_abs; fe_lgcur : bool (* lg_cur_map_size is part of the expectation *) }.
Definition fstate := list (option fexp).
Definition fg (st : fstate) (i : Z) : option fexp := nth (Z.to_nat i) st None.
Definition fp (st : fstate) (i : Z) (v : option fexp) : fstate := set_nth (Z.to_nat i) v st.

Definition abs_valid (a : fi_abs) : bool :=
  ((3 <=? a_lg_cur a) && (a_lg_cur a <=? a_lg_max a) && (a_lg_max a <=? 62)
   && (a_weight a <? 18446744073709551616)
   && (a_offset a + sumN (map snd (a_counters a)) <=? a_weight a)
   && (N.of_nat (length (a_counters a)) <=? spec_capacity (a_lg_cur a)))%N
  && distinct_keys (map fst (a_counters a))
  && forallb (fun p => (0 <? snd p)%N) (a_counters a).

Fixpoint abs_get (l : list (Z * N)) (x : Z) : N :=
  match l with [] => 0%N | (y, v) :: r => if x =? y then v else abs_get r x end.

Definition frows (a : fi_abs) (nfp : bool) (thr : N) : list Z :=
  let off := a_offset a in
  flat_map (fun p => let lo := snd p in let up := (snd p + off)%N in
                     if (if nfp then thr <? lo else thr <? up)%N then [fst p; Nz up; Nz up; Nz lo] else [])
           (sort_pairs (a_counters a)).

Definition fexp_check (e : fexp) (code : Z) (a ob : list Z) : bool :=
  let d := fe_abs e in
  let a1 := nth 1 a 0 in let a2 := nth 2 a 0 in let a3 := nth 3 a 0 in
  match code with
  | 2 => let c := abs_get (a_counters d) a1 in
         is_obs ob [Nz (if (0 <? c)%N then c + a_offset d else 0)%N; Nz c; Nz (c + a_offset d)%N; Nz (a_offset d)]
  | 3 => let n := N.of_nat (length (a_counters d)) in
         Nat.eqb (length ob) 8 && (nth 0 ob 0 =? Nz (a_offset d)) && (nth 1 ob 0 =? Nz (a_weight d)) && (nth 2 ob 0 =? Nz n)
         && (nth 3 ob 0 =? zbool (n =? 0)%N)
         && (if fe_lgcur e then (nth 4 ob 0 =? Nz (a_lg_cur d)) && (nth 5 ob 0 =? Nz (spec_capacity (a_lg_cur d))) else true)
         && (nth 6 ob 0 =? Nz (a_lg_max d)) && (nth 7 ob 0 =? Nz (spec_capacity (a_lg_max d)))
  | 5 => let thr := if a2 =? 0 then a_offset d else N.max (zN a3) (a_offset d) in
         is_obs ob (Nz (a_offset d) :: frows d (negb (a1 =? 0)) thr)
  | 6 => match spec_decode (map zN ob) with
         | Some d' => ((a_lg_max d' =? a_lg_max d) && (a_weight d' =? a_weight d) && (a_offset d' =? a_offset d))%N
                      && (if fe_lgcur e then (a_lg_cur d' =? a_lg_cur d)%N else true)
                      && list_eqb pair_eqb (sort_pairs (a_counters d')) (sort_pairs (a_counters d))
                      && Nat.eqb (length ob) (spec_size (a_weight d) (length (a_counters d)))
         | None => false
         end
  | _ => true
  end.

Fixpoint foreign_from (st : fstate) (ops : list zop) (obs : list (list Z)) : bool :=
  match ops, obs with
  | (code, a) :: r, ob :: obr =>
      let a0 := nth 0 a 0 in let a1 := nth 1 a 0 in
      if is_obs ob PANIC then false else
      (* EMPTY is what a slot without a sketch observes (a rejected image); never a slot that holds the expected state *)
      if is_obs ob EMPTY then match fg st a0 with Some _ => (code =? 4) | None => true end && foreign_from st r obr else
      match code with
      | 11 => let bytes := map zN (skipn (2 + Z.to_nat a1) a) in
              match spec_decode bytes with
              | Some d => if abs_valid d
                          then (* a valid image must not be rejected *)
                               negb (is_obs ob ERR) &&
                               foreign_from (fp st a0 (if is_obs ob [1] then Some (mkFE d true) else None)) r obr
                          else foreign_from (fp st a0 None) r obr
              | None => foreign_from (fp st a0 None) r obr
              end
      | 0 => foreign_from (fp st a0 (Some (mkFE (mkFA (N.max (N.log2 (zN a1)) 3) 3 0 0 []) true))) r obr
      | 7 => foreign_from (if is_obs ob [1] then fp st a1 (fg st a0) else st) r obr
      | 4 => (* merge into a sketch without weight: the result holds the partner's state when it fits *)
             let st' := match fg st a0, fg st a1 with
                        | Some e, Some t =>
                            if (a_weight (fe_abs t) =? 0)%N then st
                            else if ((a_weight (fe_abs e) =? 0) &&
                                     (N.of_nat (length (a_counters (fe_abs t))) <=? spec_capacity (a_lg_max (fe_abs e))))%N
                            then fp st a0 (Some (mkFE (mkFA (a_lg_max (fe_abs e)) 0 (a_weight (fe_abs t)) (a_offset (fe_abs t))
                                                            (a_counters (fe_abs t))) false))
                            else fp st a0 None
                        | _, _ => fp st a0 None
                        end in
             foreign_from st' r obr
      | 1 | 9 => foreign_from (fp st a0 None) r obr
      | 8 => foreign_from (if is_obs ob [1] then fp st a0 None else st) r obr
      | _ => match fg st a0 with
             | Some e => fexp_check e code a ob && foreign_from st r obr
             | None => foreign_from st r obr
             end
      end
  | [], [] => true
  | _, _ => false
  end.
Definition prop_foreign (c : case) : bool := foreign_from (repeat None 8) (c_ops c) (c_obs c).

(* ---- String images (crate-only): a round trip must reproduce every accessor, row and the image's pairs
   (op 33 observes [1]); an accepted image must be usable (op 34 observes [1]); parsing observes [1] or ERR ---- *)
Fixpoint generic_from (ops : list zop) (obs : list (list Z)) : bool :=
  match ops, obs with
  | [], [] => true
  | (code, _) :: r, ob :: obr =>
      (if (code =? 33) || (code =? 34) then is_obs ob [1] || is_obs ob EMPTY
       else if code =? 32 then is_obs ob [1] || is_obs ob ERR
       else negb (is_obs ob PANIC))
      && generic_from r obr
  | _, _ => false
  end.
Definition prop_generic (c : case) : bool := generic_from (c_ops c) (c_obs c).

(* oracles by number (tools/families/freq.py: ORACLES) *)
Definition oracles : list (Z * (case -> bool)) :=
  [(0, prop_ok); (1, prop_roundtrip); (2, prop_layout); (3, no_panic); (4, prop_foreign); (5, prop_generic)].
