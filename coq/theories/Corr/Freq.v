(* Correspondence driver for Frequent Items (family `freq`): replays a Z-encoded case on the
   model and yields the observations the Rust harness prints (harness/src/freq.rs), plus the
   property oracle (the Spec: an exact frequency map per sketch).  No proofs here.

   The observations come from the concrete level (Model.Freq PART B: the hash table slot by
   slot).  In lock step the abstract level (PART A, the one the theorems of Props/C07.v are
   about) is run on the same operations, fed with the samples and replay orders the concrete
   level used; if an abstract step rejects them (not an admissible choice) or the two levels
   stop agreeing, the observation is replaced by [BAD] so the tie is reported broken.  Hence
   every replayed crate step is (checked to be) an instance of a proved step. *)
From DS Require Import Base.Prelude Base.FloatBits Model.Freq.
Open Scope Z_scope.

Definition BAD : list Z := [-777].

(* ---------- lock-step agreement between the two levels ---------- *)
Definition quick_eq (c : fc) (a : fi) : bool :=
  ((fc_lg_max c =? fi_lg_max a) && (rp_lg (fc_map c) =? fi_lg_cur a) && (fc_offset c =? fi_offset a)
   && (fc_weight c =? fi_weight a) && (fc_num_active c =? fi_num_active a)
   && (fc_cur_cap c =? fi_cur_cap a) && (fc_sample_size c =? fi_sample_size a))%N.

Fixpoint strictly_increasing (l : list Z) : bool :=
  match l with
  | x :: ((y :: _) as r) => (x <? y) && strictly_increasing r
  | _ => true
  end.
Definition distinct_keys (l : list Z) : bool := strictly_increasing (msort Z.leb l).

(* the table holds exactly the abstract counters *)
Definition full_eq (c : fc) (a : fi) : bool :=
  let es := active_entries (fc_map c) in
  quick_eq c a
  && (N.of_nat (length es) =? fc_num_active c)%N
  && distinct_keys (map e_key es)
  && forallb (fun e => (0 <? e_val e)%N && (cs_get (fi_cs a) (e_key e) =? e_val e)%N) es.

(* [order] is a permutation of the (duplicate-free) counter list [cs] *)
Definition perm_check (order cs : counters) : bool :=
  (length order =? length cs)%nat && distinct_keys (map fst order)
  && forallb (fun p => (0 <? snd p)%N && (cs_get cs (fst p) =? snd p)%N) order.

(* ---------- slots ---------- *)
Definition sl : Type := (fc * fi)%type.
Definition slots := list (option sl).
Definition get_slot (st : slots) (i : Z) : option sl := nth (Z.to_nat i) st None.
Definition put_slot (st : slots) (i : Z) (s : sl) : slots := set_nth (Z.to_nat i) (Some s) st.

Definition zrow (r : row) : list Z := [row_item r; Nz (row_est r); Nz (row_ub r); Nz (row_lb r)].
Definition row_eqb (a b : row) : bool :=
  (row_item a =? row_item b) && (row_est a =? row_est b)%N && (row_ub a =? row_ub b)%N && (row_lb a =? row_lb b)%N.
Definition sort_rows (l : list row) : list row := msort (fun a b => Z.leb (row_item a) (row_item b)) l.

(* state: slots and the "levels still agree" flag *)
Definition state : Type := (slots * bool)%type.

Definition step (st0 : state) (o : zop) : state * list Z :=
  let '(st, good) := st0 in
  let '(code, a) := o in
  let a0 := nth 0 a 0 in let a1 := nth 1 a 0 in let a2 := nth 2 a 0 in let a3 := nth 3 a 0 in
  let fail := ((st, false), BAD) in
  let out (st' : slots) (ok : bool) (ob : list Z) : state * list Z :=
    if good && ok then ((st', true), ob) else ((st', false), BAD) in
  match code with
  | 0 => (* new slot max_map_size *)
      match fc_new (zN a1) with
      | Ok c => let ab := fi_new_lg (N.log2 (zN a1)) in out (put_slot st a0 (c, ab)) (full_eq c ab) []
      | _ => ((st, good), PANIC)
      end
  | 1 => (* update slot item weight hash *)
      match get_slot st a0 with
      | Some (c, ab) =>
          match fc_update c a1 (zN a3) (zN a2) with
          | Ok (c', tr) =>
              match fi_update tr ab a1 (zN a2) with
              | Some (ab', []) =>
                  let ok := match tr with
                            | [] => if (rp_lg (fc_map c') =? rp_lg (fc_map c))%N
                                    then quick_eq c' ab' && (rp_get (fc_map c') a1 (zN a3) =? cs_get (fi_cs ab') a1)%N
                                    else full_eq c' ab'
                            | _ => full_eq c' ab'
                            end in
                  out (put_slot st a0 (c', ab')) ok []
              | _ => fail
              end
          | _ => ((st, good), PANIC)
          end
      | None => ((st, good), PANIC)
      end
  | 2 => (* query slot item hash *)
      match get_slot st a0 with
      | Some (c, ab) =>
          let h := zN a2 in
          let e := fc_estimate c a1 h in let l := fc_lower c a1 h in let u := fc_upper c a1 h in
          out st ((e =? fi_estimate ab a1)%N && (l =? fi_lower ab a1)%N && (u =? fi_upper ab a1)%N
                  && (fc_offset c =? fi_max_error ab)%N)
              [Nz e; Nz l; Nz u; Nz (fc_offset c)]
      | None => ((st, good), PANIC)
      end
  | 3 => (* stats slot *)
      match get_slot st a0 with
      | Some (c, ab) =>
          out st (quick_eq c ab && (fc_max_cap c =? fi_max_cap ab)%N && Bool.eqb (fc_is_empty c) (fi_is_empty ab))
              [Nz (fc_offset c); Nz (fc_weight c); Nz (fc_num_active c); zbool (fc_is_empty c);
               Nz (rp_lg (fc_map c)); Nz (fc_cur_cap c); Nz (fc_lg_max c); Nz (fc_max_cap c)]
      | None => ((st, good), PANIC)
      end
  | 4 => (* merge dst src *)
      match get_slot st a0, get_slot st a1 with
      | Some (c, ab), Some (co, abo) =>
          match fc_merge c co with
          | Ok (c', tr) =>
              let order := map (fun e => (e_key e, e_val e)) (rp_iter (fc_map co)) in
              match fi_merge tr order ab abo with
              | Some (ab', []) => out (put_slot st a0 (c', ab')) (perm_check order (fi_cs abo) && full_eq c' ab') []
              | _ => fail
              end
          | _ => ((st, good), PANIC)
          end
      | _, _ => ((st, good), PANIC)
      end
  | 5 => (* frequent slot error_type mode threshold *)
      match get_slot st a0 with
      | Some (c, ab) =>
          let nfp := negb (a1 =? 0) in
          let rows := if a2 =? 0 then fc_frequent nfp c else fc_frequent_thr nfp (zN a3) c in
          let arows := sort_rows (if a2 =? 0 then fi_frequent nfp ab else fi_frequent_thr nfp (zN a3) ab) in
          out st (list_eqb row_eqb rows arows) (Nz (fc_offset c) :: flat_map zrow rows)
      | None => ((st, good), PANIC)
      end
  | 6 => (* serialize slot *)
      match get_slot st a0 with
      | Some (c, ab) => out st (full_eq c ab) (map Nz (fc_serialize c))
      | None => ((st, good), PANIC)
      end
  | 7 => (* roundtrip src dst *)
      match get_slot st a0 with
      | Some (c, ab) =>
          let hashes := map e_hash (active_entries (fc_map c)) in
          match fc_deserialize (fc_serialize c) hashes with
          | Ok c' => out (put_slot st a1 (c', fi_of_fc c')) true [1]
          | Err => ((st, good), ERR)
          | Stuck => ((st, good), PANIC)
          end
      | None => ((st, good), PANIC)
      end
  | 8 => (* deserialize slot k hash_1..hash_k bytes... *)
      let k := Z.to_nat a1 in
      let hashes := map zN (firstn k (skipn 2 a)) in
      let bytes := map zN (skipn (2 + k) a) in
      match fc_deserialize bytes hashes with
      | Ok c' => out (put_slot st a0 (c', fi_of_fc c')) true [1]
      | Err => ((st, good), ERR)
      | Stuck => ((st, good), PANIC)
      end
  | 9 => (* reset slot *)
      match get_slot st a0 with
      | Some (c, ab) =>
          match fc_reset c with
          | Ok c' => let ab' := fi_reset ab in out (put_slot st a0 (c', ab')) (full_eq c' ab') []
          | _ => ((st, good), PANIC)
          end
      | None => ((st, good), PANIC)
      end
  | 10 => (* epsilon slot *)
      match get_slot st a0 with
      | Some (c, _) => out st true [fc_epsilon_bits c]
      | None => ((st, good), PANIC)
      end
  | _ => ((st, good), PANIC)
  end.

Fixpoint run_from (st : state) (ops : list zop) : list (list Z) :=
  match ops with
  | [] => []
  | o :: r => let '(st', ob) := step st o in ob :: run_from st' r
  end.

Definition run (cfg : list Z) (ops : list zop) : list (list Z) :=
  run_from (repeat None 8, true) ops.

(* =====================================================================================
   Property oracle (C07), written from the property text, independent of the model:
   per slot the exact frequency map and the exact total weight of everything that was
   updated or merged into it.  A slot whose history is not known (filled by a
   deserialization) is not judged.
   ===================================================================================== *)
Definition truth_map := list (Z * N).
Fixpoint tm_add (m : truth_map) (x : Z) (w : N) : truth_map :=
  match m with
  | [] => [(x, w)]
  | (y, v) :: r => if x =? y then (y, (v + w)%N) :: r else (y, v) :: tm_add r x w
  end.
Fixpoint tm_get (m : truth_map) (x : Z) : N :=
  match m with [] => 0%N | (y, v) :: r => if x =? y then v else tm_get r x end.
Fixpoint tm_merge (a b : truth_map) : truth_map :=
  match b with [] => a | (y, v) :: r => tm_merge (tm_add a y v) r end.

Record ospec := mkO {
  o_truth : truth_map;
  o_total : N;
  o_size : N;              (* this sketch's max_map_size (>= 8) *)
  o_uniform : bool         (* every sketch merged into it had the same max_map_size *)
}.
Definition ostate := list (option ospec).
Definition og (st : ostate) (i : Z) : option ospec := nth (Z.to_nat i) st None.
Definition op_ (st : ostate) (i : Z) (v : option ospec) : ostate := set_nth (Z.to_nat i) v st.

(* rows [item; est; ub; lb] of a frequent_items observation *)
Fixpoint parse_rows (fuel : nat) (l : list Z) : list (Z * N * N * N) :=
  match fuel, l with
  | S f, i :: e :: u :: lo :: r => (i, zN e, zN u, zN lo) :: parse_rows f r
  | _, _ => []
  end.

(* the bracket for one item: lower <= truth <= upper, upper - lower <= maximum_error *)
Definition bracket_ok (t lb ub err : N) : bool := ((lb <=? t) && (t <=? ub) && (ub - lb <=? err))%N.

Fixpoint prop_from (st : ostate) (ops : list zop) (obs : list (list Z)) : bool :=
  match ops, obs with
  | (code, a) :: r, ob :: obr =>
      let a0 := nth 0 a 0 in let a1 := nth 1 a 0 in let a2 := nth 2 a 0 in let a3 := nth 3 a 0 in
      if list_eqb Z.eqb ob PANIC then true else
      match code with
      | 0 => prop_from (op_ st a0 (Some (mkO [] 0 (N.max (zN a1) 8) true))) r obr
      | 1 => match og st a0 with
             | Some s => prop_from (op_ st a0 (Some (mkO (tm_add (o_truth s) a1 (zN a2)) (o_total s + zN a2) (o_size s) (o_uniform s)))) r obr
             | None => prop_from st r obr
             end
      | 2 => match og st a0 with
             | Some s =>
                 let est := zN (nth 0 ob 0) in let lb := zN (nth 1 ob 0) in let ub := zN (nth 2 ob 0) in
                 let err := zN (nth 3 ob 0) in
                 bracket_ok (tm_get (o_truth s) a1) lb ub err && (lb <=? est)%N && (est <=? ub)%N && prop_from st r obr
             | None => prop_from st r obr
             end
      | 3 => match og st a0 with
             | Some s =>
                 let err := zN (nth 0 ob 0) in let total := zN (nth 1 ob 0) in let active := zN (nth 2 ob 0) in
                 (total =? o_total s)%N                              (* total_weight is exact *)
                 && (active <=? 3 * o_size s / 4)%N                  (* capacity *)
                 && (if o_uniform s && (o_size s <=? 1024)%N         (* maximum_error <= (3.5 / M) * N *)
                     then (2 * o_size s * err <=? 7 * o_total s)%N else true)
                 && prop_from st r obr
             | None => prop_from st r obr
             end
      | 4 => match og st a0, og st a1 with
             | Some s, Some t =>
                 prop_from (op_ st a0 (Some (mkO (tm_merge (o_truth s) (o_truth t)) (o_total s + o_total t) (o_size s)
                                                 (o_uniform s && o_uniform t && (o_size s =? o_size t)%N)))) r obr
             | _, _ => prop_from (op_ st a0 None) r obr
             end
      | 5 => match og st a0 with
             | Some s =>
                 let err := zN (nth 0 ob 0) in
                 let thr := if a2 =? 0 then err else N.max (zN a3) err in
                 let rows := parse_rows (length ob) (tl ob) in
                 (* every reported row brackets the truth *)
                 forallb (fun rw => let '(i, _, u, lo) := rw in bracket_ok (tm_get (o_truth s) i) lo u err) rows
                 && (if a1 =? 0
                     then (* NoFalseNegatives: every item whose true count exceeds the threshold is reported *)
                       forallb (fun p => if (thr <? snd p)%N then existsb (fun rw => fst (fst (fst rw)) =? fst p) rows else true)
                               (o_truth s)
                     else (* NoFalsePositives: only items whose true count exceeds the threshold *)
                       forallb (fun rw => (thr <? tm_get (o_truth s) (fst (fst (fst rw))))%N) rows)
                 && prop_from st r obr
             | None => prop_from st r obr
             end
      | 7 => if list_eqb Z.eqb ob [1] then prop_from (op_ st a1 None) r obr else prop_from st r obr
      | 8 => if list_eqb Z.eqb ob [1] then prop_from (op_ st a0 None) r obr else prop_from st r obr
      | 9 => match og st a0 with
             | Some s => prop_from (op_ st a0 (Some (mkO [] 0 (o_size s) true))) r obr
             | None => prop_from st r obr
             end
      | _ => prop_from st r obr
      end
  | _, _ => true
  end.

Definition prop_ok (c : case) : bool := prop_from (repeat None 8) (c_ops c) (c_obs c).

(* oracles by number (tools/families/freq.py: ORACLES) *)
Definition oracles : list (Z * (case -> bool)) := [(0, prop_ok)].
