(* Correspondence driver for the CPC sketch: replays a Z-encoded case on the model and yields the
   observations the Rust harness prints; plus the property oracle (the bit-matrix Spec, written
   independently of the model) used on the crate's observations.  (No proofs here.)

   cfg = [lg_k; seed]
   ops:  0 new                      -> []
         1 update  [item; h1; h2]   -> summary      (h1,h2 = reference MurmurHash3 of the item's 8 LE bytes)
         2 row_col [rc]             -> summary      (hook CpcSketch::verif_row_col_update)
         3 dump                     -> [lg_k; C; offset; fic; flavor; merge; kxp; hip; has_table; |win|; win...; |tab|; sorted tab...]
         4 validate                 -> [0|1]
         5 matrix                   -> the K rows of build_bit_matrix
         6 flavor_of [lg_k; c]      -> [determine_flavor code]      (u64 arithmetic of the repaired crate = unbounded)
         9 phase_of  [lg_k; c]      -> [determine_pseudo_phase]     (hook CpcSketch::verif_determine_pseudo_phase)
        18 roundtrip                -> []   crate: sketch := deserialize(serialize(sketch)); model: unchanged, except
                                            that the copy always owns a (possibly empty) table  (C11)
        19 ser       [seed_hash]    -> the bytes of serialize()   (not produced by the model: masked; C12 oracle)
        24 sk_roundtrip [slot]      -> [1] the slot's sketch, serialized, is accepted by deserialize and the copy has the same
                                       coupon count (and matrix for lg_k <= 16); [0] its own image is rejected
        32 max_bytes [lg_k]         -> [CpcSketch::max_serialized_bytes(lg_k)]
        40 deser     [bytes...]     -> crate only (masked): [0; wrapper_err] = Err (wrapper_err: CpcWrapper::new is Err too)
                                       | [1; wrapper_agrees; updates_ok; union_ok] ++ float-free dump of the Ok value
                                       (wrapper_agrees: CpcWrapper::new Ok with the sketch's lg_k, is_empty, estimate, 2-sigma
                                       bounds; updates_ok: the 40 pairs [use_pairs], estimate, validate, serialize + deserialize
                                       ran without panic; union_ok: union of the value and its updated copy, to_sketch); C14 oracles
        41 mut_deser [kind; pos; val] -> as 40 on a mutation of the current sketch's own image (kind 0 flip bit pos,
                                       1 set byte pos := val, 2 truncate to pos, 3 set the u32 at int index pos := val,
                                       4 append val bytes, 5 set two bytes)
        30 big       [lg_k; full_cols; extra] -> [C; flavor; offset; validate; 1; C'; 1]
                     a fresh sketch receives full_cols complete columns 0.. and [extra] rows of the next column
                     (all pairs distinct, rows in a scrambled order), is serialized and deserialized; C' is the
                     coupon count of the copy and the last 1 says its bit matrix equals the original's.  The model
                     answers in closed form (C = full_cols * K + extra; flavor and offset are functions of C by
                     cpc_refines); the lists of the executable model are too slow for lg_k >= 17.
         7 offset_of [lg_k; c]      -> [determine_correct_offset]
         8 estimate                 -> [bits of estimate()]  (HIP only: merge_flag = false)
   summary = [C; offset; fic; flavor; kxp bits; hip bits]

   C06 (CpcUnion) works on numbered sketch slots and union slots:
        10 sk_new    [slot; lg_k]          -> []
        11 sk_rc     [slot; rc]            -> [C; offset; fic; flavor]
        12 sk_item   [slot; item; h1; h2]  -> [C; offset; fic; flavor]
        13 sk_dump   [slot]                -> [lg_k; C; offset; fic; flavor; merge; |win|; win...; |tab|; sorted tab...]
        14 sk_validate [slot]              -> [0|1]
        15 sk_matrix [slot]                -> the K rows
        16 sk_roundtrip [slot]             -> []   crate: slot := deserialize(serialize(slot)); model: unchanged (C11)
        17 sk_ser    [slot; seed_hash]     -> the bytes of serialize() (not produced by the model: masked; C12)
        20 un_new    [uslot; lg_k]         -> []
        21 un_update [uslot; slot]         -> [lg_k; num_coupons; kind]      kind 0 accumulator, 1 bit matrix
        22 un_state  [uslot]               -> [lg_k; kind] ++ (kind 0: sk_dump of the accumulator | kind 1: the K rows)
        23 un_result [uslot; slot]         -> sk_dump of to_sketch(), which is stored in [slot]
   kxp / HIP are not observed on this path: the accumulator's float registers depend on the order in which
   the source's hash-table slots are walked, and are dead once merge_flag is set. *)
From DS Require Import Base.Prelude Base.FloatBits Model.Cpc Model.CpcUnion Model.CpcPhase Model.CpcCheck Model.CpcFrame Spec.CpcLayout.
From Coq Require Import Floats FSets.FMapPositive.
Open Scope Z_scope.

Definition summary (s : cpc) : list Z :=
  [Nz (c_num s); Nz (c_off s); Nz (c_fic s); Nz (cpc_flavor s); bits_of_float (c_kxp s); bits_of_float (c_hip s)].

Fixpoint insert_sorted (x : N) (l : list N) : list N :=
  match l with
  | [] => [x]
  | y :: r => if (x <=? y)%N then x :: l else y :: insert_sorted x r
  end.
Definition sortN (l : list N) : list N := fold_left (fun acc x => insert_sorted x acc) l [].

Definition dump (s : cpc) : list Z :=
  let tab := match c_table s with Some t => sortN t | None => [] end in
  [Nz (c_lgk s); Nz (c_num s); Nz (c_off s); Nz (c_fic s); Nz (cpc_flavor s); zbool (c_merge s);
   bits_of_float (c_kxp s); bits_of_float (c_hip s);
   zbool (match c_table s with Some _ => true | None => false end)]
  ++ Z.of_nat (length (c_win s)) :: map Nz (c_win s)
  ++ Z.of_nat (length tab) :: map Nz tab.

(* float-free dump used on the union path *)
Definition dumpnf (s : cpc) : list Z :=
  let tab := match c_table s with Some t => sortN t | None => [] end in
  [Nz (c_lgk s); Nz (c_num s); Nz (c_off s); Nz (c_fic s); Nz (cpc_flavor s); zbool (c_merge s)]
  ++ Z.of_nat (length (c_win s)) :: map Nz (c_win s)
  ++ Z.of_nat (length tab) :: map Nz tab.
Definition summarynf (s : cpc) : list Z := [Nz (c_num s); Nz (c_off s); Nz (c_fic s); Nz (cpc_flavor s)].

Record cstate := mkCS { cs_cur : option cpc; cs_sk : list (Z * cpc); cs_un : list (Z * cpcu) }.

Fixpoint lookup {A} (k : Z) (l : list (Z * A)) : option A :=
  match l with
  | [] => None
  | (k', v) :: r => if k =? k' then Some v else lookup k r
  end.
Definition store {A} (k : Z) (v : A) (l : list (Z * A)) : list (Z * A) :=
  (k, v) :: filter (fun kv => negb (fst kv =? k)) l.

Definition set_cur (st : cstate) (c : option cpc) : cstate := mkCS c (cs_sk st) (cs_un st).
Definition set_sk (st : cstate) (k : Z) (s : cpc) : cstate := mkCS (cs_cur st) (store k s (cs_sk st)) (cs_un st).
Definition set_un (st : cstate) (k : Z) (u : cpcu) : cstate := mkCS (cs_cur st) (cs_sk st) (store k u (cs_un st)).

Definition ustate_obs (u : cpcu) : list Z :=
  match u_st u with
  | UAcc s => [Nz (u_lgk u); 0] ++ dumpnf s
  | UMat m => [Nz (u_lgk u); 1] ++ map Nz m
  end.
Definition ukind (u : cpcu) : Z := match u_st u with UAcc _ => 0 | UMat _ => 1 end.

Definition step (cfg : list Z) (st : cstate) (o : zop) : cstate * list Z :=
  let '(code, a) := o in
  let a0 := nth 0 a 0 in let a1 := nth 1 a 0 in
  match code with
  | 0 => match cpc_new (zN (nth 0 cfg 0)) with Ok s => (set_cur st (Some s), []) | _ => (set_cur st None, PANIC) end
  | 6 => (st, [Nz (determine_flavor (zN a0) (zN a1))])
  | 9 => (st, match determine_pseudo_phase (zN a0) (zN a1) with Ok p => [Nz p] | _ => PANIC end)
  | 32 => (st, match max_serialized_bytes (zN a0) with Ok b => [Nz b] | _ => PANIC end)
  | 40 | 41 => (st, [])
  | 30 => let lgk := zN a0 in let c := (zN a1 * 2 ^ lgk + zN (nth 2 a 0%Z))%N in
          (st, [Nz c; Nz (determine_flavor lgk c); Nz (determine_correct_offset lgk c); 1; 1; Nz c; 1])
  | 7 => (st, [Nz (determine_correct_offset (zN a0) (zN a1))])
  | 10 => match cpc_new (zN a1) with Ok s => (set_sk st a0 s, []) | _ => (st, PANIC) end
  | 11 => match lookup a0 (cs_sk st) with
          | Some s => match row_col_update s (zN a1) with Ok s' => (set_sk st a0 s', summarynf s') | _ => (st, PANIC) end
          | None => (st, PANIC) end
  | 12 => match lookup a0 (cs_sk st) with
          | Some s => match cpc_update s (zN (nth 2 a 0)) (zN (nth 3 a 0)) with
                      | Ok s' => (set_sk st a0 s', summarynf s') | _ => (st, PANIC) end
          | None => (st, PANIC) end
  | 13 => match lookup a0 (cs_sk st) with Some s => (st, dumpnf s) | None => (st, PANIC) end
  | 14 => match lookup a0 (cs_sk st) with
          | Some s => match cpc_validate s with Ok b => (st, [zbool b]) | _ => (st, PANIC) end
          | None => (st, PANIC) end
  | 15 => match lookup a0 (cs_sk st) with
          | Some s => match build_bit_matrix s with Ok m => (st, map Nz m) | _ => (st, PANIC) end
          | None => (st, PANIC) end
  | 16 => match lookup a0 (cs_sk st) with Some _ => (st, []) | None => (st, PANIC) end
  | 17 => match lookup a0 (cs_sk st) with Some _ => (st, []) | None => (st, PANIC) end
  | 24 => match lookup a0 (cs_sk st) with
          | Some s => if (8 * c_num s <? 475 * 2 ^ c_lgk s)%N then (st, [1])
                      else match c_table s with
                           | Some (_ :: _) => (st, PANIC)      (* offset > 56 with surprising values: serialize asserts *)
                           | _ => (st, [0])                    (* written, and rejected by the reader's own domain bound *)
                           end
          | None => (st, PANIC) end
  | 20 => match union_new (zN a1) with Ok u => (set_un st a0 u, []) | _ => (st, PANIC) end
  | 21 => match lookup a0 (cs_un st), lookup a1 (cs_sk st) with
          | Some u, Some s =>
              match union_update u s with
              | Ok u' => (set_un st a0 u', [Nz (u_lgk u'); Nz (union_num_coupons u'); ukind u'])
              | _ => (st, PANIC) end
          | _, _ => (st, PANIC) end
  | 22 => match lookup a0 (cs_un st) with Some u => (st, ustate_obs u) | None => (st, PANIC) end
  | 23 => match lookup a0 (cs_un st) with
          | Some u => match union_to_sketch u with Ok s => (set_sk st a1 s, dumpnf s) | _ => (st, PANIC) end
          | None => (st, PANIC) end
  | _ =>
    match cs_cur st with
    | None => (st, PANIC)
    | Some s =>
      match code with
      | 1 => match cpc_update s (zN (nth 1 a 0)) (zN (nth 2 a 0)) with
             | Ok s' => (set_cur st (Some s'), summary s') | _ => (set_cur st None, PANIC) end
      | 2 => match row_col_update s (zN (nth 0 a 0)) with
             | Ok s' => (set_cur st (Some s'), summary s') | _ => (set_cur st None, PANIC) end
      | 3 => (st, dump s)
      | 4 => match cpc_validate s with Ok b => (st, [zbool b]) | _ => (set_cur st None, PANIC) end
      | 5 => match build_bit_matrix s with Ok m => (st, map Nz m) | _ => (set_cur st None, PANIC) end
      | 8 => (st, [if c_merge s then (-1) else bits_of_float (c_hip s)])
      | 18 => (set_cur st (Some (match c_table s with None => set_table s (Some []) | Some _ => s end)), [])
      | 19 => (st, [])
      | _ => (st, PANIC)
      end
    end
  end.

Fixpoint run_from (cfg : list Z) (st : cstate) (ops : list zop) : list (list Z) :=
  match ops with
  | [] => []
  | o :: r => let '(st', ob) := step cfg st o in ob :: run_from cfg st' r
  end.

Definition run (cfg : list Z) (ops : list zop) : list (list Z) := run_from cfg (mkCS None [] []) ops.

(* ------------------------------------------------------------------------------------------------
   Property oracle: the Spec of C05, evaluated on the crate's observations.
   Spec state: the k x 64 bit matrix as a map row -> word (absent = 0), the number of distinct pairs,
   and the number of set bits of every column.  Nothing below uses the model's sketch functions. *)
Record ospec := mkO { o_m : PositiveMap.t N; o_c : N; o_cols : list N }.
Definition o_empty : ospec := mkO (PositiveMap.empty N) 0%N (repeat 0%N 64).
Definition o_row (st : ospec) (r : N) : N :=
  match PositiveMap.find (N.succ_pos r) (o_m st) with Some w => w | None => 0%N end.

Definition o_add (st : ospec) (r c : N) : ospec :=
  let w := o_row st r in
  if N.testbit w c then st
  else mkO (PositiveMap.add (N.succ_pos r) (N.lor w (2 ^ c)%N) (o_m st)) (o_c st + 1)%N
           (set_nthN c (nthN (o_cols st) c 0 + 1)%N (o_cols st)).

(* the property's own derivation of (row, col) from the hash: row = h1 & (k-1), col = min(63, lz(h2));
   the pair whose code would be u32::MAX (the table's empty marker) has the low row bit flipped *)
Definition spec_pair (lgk h1 h2 : N) : N * N :=
  let k := (2 ^ lgk)%N in
  let lz := (64 - N.size h2)%N in
  let col := N.min 63 lz in
  let row := (h1 mod k)%N in
  if ((row =? 67108863) && (col =? 63))%N then (67108862%N, col) else (row, col).

(* flavor and offset as functions of the coupon count (unbounded arithmetic) *)
Definition spec_flavor (lgk c : N) : N :=
  let k := (2 ^ lgk)%N in
  if (c =? 0)%N then 0%N else if (32 * c <? 3 * k)%N then 1%N else if (2 * c <? k)%N then 2%N
  else if (8 * c <? 27 * k)%N then 3%N else 4%N.
Definition spec_offset (lgk c : N) : N :=
  let k := (2 ^ lgk)%N in
  if (8 * c <? 19 * k)%N then 0%N else ((8 * c - 19 * k) / (8 * k))%N.

Definition zat (ob : list Z) (i : nat) : Z := nth i ob (-1).

Definition cols_full_below (st : ospec) (k fic : N) : bool :=
  forallb (fun c => (nthN (o_cols st) c 0 =? k)%N) (map N.of_nat (seq 0 (N.to_nat fic))).

(* the summary of a sketch that has absorbed exactly the pairs recorded in [st] *)
Definition summary_ok (lgk : N) (st : ospec) (ob : list Z) : bool :=
  let k := (2 ^ lgk)%N in
  let c := zN (zat ob 0) in let off := zN (zat ob 1) in let fic := zN (zat ob 2) in
  (0 <=? zat ob 0) && (c =? o_c st)%N && (off =? spec_offset lgk c)%N && (off <=? 56)%N
  && (zN (zat ob 3) =? spec_flavor lgk c)%N
  && (fic <=? off)%N && cols_full_below st k fic.

(* number of surprising values at window offset [off]: zeros before the window, ones after it *)
Definition spec_surprises (st : ospec) (k off : N) : N :=
  fold_left (fun acc c =>
    let n := nthN (o_cols st) c 0%N in
    if (c <? off)%N then (acc + (k - n))%N else if (c <? off + 8)%N then acc else (acc + n)%N)
    (map N.of_nat (seq 0 64)) 0%N.

Fixpoint rows_ok (st : ospec) (r : N) (rows : list Z) : bool :=
  match rows with
  | [] => true
  | w :: rest => (w =? Nz (o_row st r)) && rows_ok st (r + 1)%N rest
  end.

Fixpoint win_ok (st : ospec) (off r : N) (win : list Z) : bool :=
  match win with
  | [] => true
  | b :: rest => (zN b =? N.land (N.shiftr (o_row st r) off) 255)%N && win_ok st off (r + 1)%N rest
  end.

Definition dump_ok (lgk : N) (st : ospec) (ob : list Z) : bool :=
  let k := (2 ^ lgk)%N in
  let c := zN (zat ob 1) in let off := zN (zat ob 2) in
  let nwin := Z.to_nat (nth 9 ob 0) in
  let win := firstn nwin (skipn 10 ob) in
  let ntab := nth (10 + nwin) ob 0 in
  let tab := map zN (skipn (11 + nwin) ob) in
  let windowed := negb (32 * c <? 3 * k)%N in
  summary_ok lgk st (firstn 4 (skipn 1 ob))
  && (zN (zat ob 0) =? lgk)%N
  && (zat ob 5 =? 0)                                          (* never merged *)
  && ((c =? 0)%N || (zat ob 8 =? 1))                          (* a non-empty sketch owns a table *)
  && (Z.of_nat nwin =? (if windowed then Nz k else 0))             (* window present iff flavor > Sparse *)
  && (Z.of_nat (length tab) =? ntab)
  && win_ok st off 0 win
  && (if windowed then
        (zN ntab =? spec_surprises st k off)%N
        && forallb (fun rc => let r := (rc / 64)%N in let cl := (rc mod 64)%N in
                     (r <? k)%N &&
                     (if (cl <? off)%N then negb (N.testbit (o_row st r) cl)
                      else if (cl <? off + 8)%N then false else N.testbit (o_row st r) cl)) tab
      else
        (zN ntab =? c)%N
        && forallb (fun rc => let r := (rc / 64)%N in ((r <? k)%N && N.testbit (o_row st r) (rc mod 64))) tab)
  (* sorted strictly ascending, hence duplicate-free *)
  && (fix asc (l : list N) : bool :=
        match l with x :: ((y :: _) as r) => (x <? y)%N && asc r | _ => true end) tab.

(* The surprising-value table holds at most 3 * 2^min(26, lg_k + 5) / 4 pairs (PairTable::rebuild asserts): a pair
   that needs more is outside the property's domain and must make the crate panic (the boundary is tied).
   The table grows when a surprising one is inserted (at the offset before the pair) and is rebuilt when the
   window moves (at the next offset). *)
Definition cap_full (lgk n : N) : bool := (3 * 2 ^ (N.min 26 (lgk + 5)) <? 4 * n)%N.

Definition overflows (lgk : N) (st st' : ospec) (col : N) : bool :=
  let k := (2 ^ lgk)%N in
  let c := o_c st in let c' := o_c st' in
  if (c' =? c)%N then false                                   (* not novel: nothing is stored *)
  else if (32 * c <? 3 * k)%N then cap_full lgk c'             (* sparse insert (never full in practice) *)
  else
    let off := spec_offset lgk c in
    ((off + 8 <=? col)%N && cap_full lgk (spec_surprises st' k off))
    || (((27 + 8 * off) * k <=? 8 * c')%N && cap_full lgk (spec_surprises st' k (off + 1))).

Fixpoint prop_from (lgk : N) (st : ospec) (ops : list zop) (obs : list (list Z)) : bool :=
  match ops, obs with
  | [], [] => true
  | (code, a) :: r, ob :: obr =>
      match code with
      | 0 => negb (list_eqb Z.eqb ob PANIC) && prop_from lgk o_empty r obr
      | 1 => let '(row, col) := spec_pair lgk (zN (nth 1 a 0)) (zN (nth 2 a 0)) in
             let st' := o_add st row col in
             if overflows lgk st st' col then list_eqb Z.eqb ob PANIC      (* the case ends here on both sides *)
             else summary_ok lgk st' ob && prop_from lgk st' r obr
      | 2 => let rc := zN (nth 0 a 0) in
             let st' := o_add st (rc / 64)%N (rc mod 64)%N in
             if overflows lgk st st' (rc mod 64)%N then list_eqb Z.eqb ob PANIC
             else summary_ok lgk st' ob && prop_from lgk st' r obr
      | 3 => dump_ok lgk st ob && prop_from lgk st r obr
      | 4 => list_eqb Z.eqb ob [1] && prop_from lgk st r obr
      | 5 => (Z.of_nat (length ob) =? Nz (2 ^ lgk)) && rows_ok st 0 ob && prop_from lgk st r obr
      | 6 => let l := zN (nth 0 a 0) in let c := zN (nth 1 a 0) in
             (zN (zat ob 0) =? spec_flavor l c)%N && (0 <=? zat ob 0) && prop_from lgk st r obr
      | 7 => let l := zN (nth 0 a 0) in let c := zN (nth 1 a 0) in
             (zN (zat ob 0) =? spec_offset l c)%N && (0 <=? zat ob 0) && prop_from lgk st r obr
      | _ => negb (list_eqb Z.eqb ob PANIC) && prop_from lgk st r obr
      end
  | _, _ => false                                                          (* an observation is missing *)
  end.

Definition prop_ok (c : case) : bool :=
  prop_from (zN (nth 0 (c_cfg c) 0)) o_empty (c_ops c) (c_obs c).

(* ------------------------------------------------------------------------------------------------
   Oracle of C12: the crate's serialize() output, decoded by the independent layout decoder
   (Spec/CpcLayout.v: fields located from the format's fixed preamble-ints table), must describe the Spec
   state: lg_k, coupon count, a sound first interesting column, the HIP registers last observed, a window
   stream iff the flavor is Pinned or Sliding, a surprising-value stream iff there are surprising values to
   store, their number, and stream lengths within the deterministic bounds. *)
Definition ceil_div (a b : N) : N := ((a + b - 1) / b)%N.

(* [regs]: Some (kxp, hip) = the HIP registers the image must carry; None = the image of a merged sketch
   (no registers) when [merged], any registers otherwise *)
Definition image_ok_gen (lgk : N) (st : ospec) (merged : bool) (regs : option (Z * Z)) (seed_hash : N) (bytes : list Z) : bool :=
  match spec_decode (map zN bytes) with
  | None => false
  | Some a =>
      let k := (2 ^ lgk)%N in
      let c := o_c st in
      let f := spec_flavor lgk c in
      let off := spec_offset lgk c in
      let nsurp := if (f <=? 2)%N then c else spec_surprises st k off in
      forallb (fun b => (0 <=? b) && (b <? 256)) bytes
      && (ca_lgk a =? lgk)%N && (ca_num a =? c)%N && (ca_seedhash a =? seed_hash)%N
      && (ca_fic a <=? off)%N && cols_full_below st k (ca_fic a)
      && match ca_hip a, regs with
         | Some (x, y), Some (kxp, hip) => if (c =? 0)%N then true else (Nz x =? kxp) && (Nz y =? hip)
         | Some _, None => negb merged
         | None, Some _ => false                           (* sketches built by updates are never merged *)
         | None, None => merged
         end
      && match ca_win a with
         | Some ww => (3 <=? f)%N && (ceil_div (k + 11) 32 <=? lenN ww)%N && (lenN ww <=? ceil_div (12 * k + 11) 32)%N
         | None => (f <=? 2)%N
         end
      && match ca_sv a with
         | Some (n, sw) => (1 <=? nsurp)%N && (n =? nsurp)%N && (1 <=? lenN sw)%N
         | None => (nsurp =? 0)%N
         end
  end.

Definition image_ok (lgk : N) (st : ospec) (kxp hip : Z) (seed_hash : N) (bytes : list Z) : bool :=
  image_ok_gen lgk st false (Some (kxp, hip)) seed_hash bytes.

(* ------------------------------------------------------------------------------------------------
   Property oracle of C06: the union result is the OR of the inputs' matrices, rows folded modulo the
   smallest lg_k among the union and its non-empty inputs.  Spec state: every sketch slot carries its
   lg_k and exact matrix (from the pairs offered, or from the union it was taken from); every union slot
   carries (lg_k, matrix).  Nothing below uses the model's sketch or union functions. *)
Fixpoint ppop (p : positive) : N :=
  match p with xH => 1%N | xO q => ppop q | xI q => (1 + ppop q)%N end.
Definition npop (n : N) : N := match n with N0 => 0%N | Npos p => ppop p end.

Definition pm_row (m : PositiveMap.t N) (r : N) : N :=
  match PositiveMap.find (N.succ_pos r) m with Some w => w | None => 0%N end.
(* OR every row r of [src] into row (r mod 2^lg) of [dst] *)
Definition pm_fold_into (lg : N) (src dst : PositiveMap.t N) : PositiveMap.t N :=
  PositiveMap.fold (fun p w acc =>
     let r := ((N.pos p - 1) mod 2 ^ lg)%N in
     PositiveMap.add (N.succ_pos r) (N.lor (pm_row acc r) w) acc) src dst.
Definition pm_pop (m : PositiveMap.t N) : N := PositiveMap.fold (fun _ w acc => (acc + npop w)%N) m 0%N.
Definition pm_cols (m : PositiveMap.t N) : list N :=
  map (fun c => PositiveMap.fold (fun _ w acc => if N.testbit w c then (acc + 1)%N else acc) m 0%N)
      (map N.of_nat (seq 0 64)).
Definition ospec_of (m : PositiveMap.t N) : ospec := mkO m (pm_pop m) (pm_cols m).

Record sspec := mkSS { ss_lgk : N; ss_o : ospec; ss_merged : bool }.
Record uspec := mkUS { us_lgk : N; us_m : PositiveMap.t N }.

(* the float-free dump [lg_k; C; off; fic; flavor; merge; |win|; win..; |tab|; tab..] of a sketch that
   represents exactly the matrix of [st] *)
Definition dumpnf_ok (lgk : N) (st : ospec) (merged : bool) (ob : list Z) : bool :=
  let k := (2 ^ lgk)%N in
  let c := zN (zat ob 1) in let off := zN (zat ob 2) in
  let nwin := Z.to_nat (nth 6 ob 0) in
  let win := firstn nwin (skipn 7 ob) in
  let ntab := nth (7 + nwin) ob 0 in
  let tab := map zN (skipn (8 + nwin) ob) in
  let windowed := negb (32 * c <? 3 * k)%N in
  summary_ok lgk st (firstn 4 (skipn 1 ob))
  && (zN (zat ob 0) =? lgk)%N
  && (zat ob 5 =? zbool merged)                              (* every union result is marked as merged *)
  && (Z.of_nat nwin =? (if windowed then Nz k else 0))
  && (Z.of_nat (length tab) =? ntab)
  && win_ok st off 0 win
  && (if windowed then
        (zN ntab =? spec_surprises st k off)%N
        && forallb (fun rc => let r := (rc / 64)%N in let cl := (rc mod 64)%N in
                     (r <? k)%N &&
                     (if (cl <? off)%N then negb (N.testbit (o_row st r) cl)
                      else if (cl <? off + 8)%N then false else N.testbit (o_row st r) cl)) tab
      else
        (zN ntab =? c)%N
        && forallb (fun rc => let r := (rc / 64)%N in ((r <? k)%N && N.testbit (o_row st r) (rc mod 64))) tab)
  && (fix asc (l : list N) : bool :=
        match l with x :: ((y :: _) as r) => (x <? y)%N && asc r | _ => true end) tab.

(* one union update at the Spec level *)
Definition uspec_update (u : uspec) (s : sspec) : uspec :=
  if (o_c (ss_o s) =? 0)%N then u
  else let lg := N.min (us_lgk u) (ss_lgk s) in
       mkUS lg (pm_fold_into lg (o_m (ss_o s)) (pm_fold_into lg (us_m u) (PositiveMap.empty N))).

Fixpoint union_from (sks : list (Z * sspec)) (uns : list (Z * uspec)) (ops : list zop) (obs : list (list Z)) : bool :=
  match ops, obs with
  | (code, a) :: r, ob :: obr =>
      let a0 := nth 0 a 0 in let a1 := nth 1 a 0 in
      let ok := negb (list_eqb Z.eqb ob PANIC) in
      match code with
      | 10 => ok && union_from (store a0 (mkSS (zN a1) o_empty false) sks) uns r obr
      | 11 | 12 =>
          match lookup a0 sks with
          | Some ss =>
              let '(row, col) := if code =? 11 then ((zN a1 / 64)%N, (zN a1 mod 64)%N)
                                 else spec_pair (ss_lgk ss) (zN (nth 2 a 0)) (zN (nth 3 a 0)) in
              let o' := o_add (ss_o ss) row col in
              ok && summary_ok (ss_lgk ss) o' ob && union_from (store a0 (mkSS (ss_lgk ss) o' (ss_merged ss)) sks) uns r obr
          | None => false
          end
      | 13 => match lookup a0 sks with
              | Some ss => dumpnf_ok (ss_lgk ss) (ss_o ss) (ss_merged ss) ob && union_from sks uns r obr
              | None => false end
      | 14 => list_eqb Z.eqb ob [1] && union_from sks uns r obr
      | 15 => match lookup a0 sks with
              | Some ss => (Z.of_nat (length ob) =? Nz (2 ^ ss_lgk ss)) && rows_ok (ss_o ss) 0 ob && union_from sks uns r obr
              | None => false end
      | 17 => match lookup a0 sks with
              | Some ss => image_ok_gen (ss_lgk ss) (ss_o ss) (ss_merged ss) None (zN a1) ob && union_from sks uns r obr
              | None => false end
      | 24 => list_eqb Z.eqb ob [1] && union_from sks uns r obr     (* a sketch, also a union result, can be written and read back *)
      | 20 => ok && union_from sks (store a0 (mkUS (zN a1) (PositiveMap.empty N)) uns) r obr
      | 21 => match lookup a0 uns, lookup a1 sks with
              | Some u, Some ss =>
                  let u' := uspec_update u ss in
                  (zN (zat ob 0) =? us_lgk u')%N && (0 <=? zat ob 1) && (zN (zat ob 1) =? pm_pop (us_m u'))%N
                  && union_from sks (store a0 u' uns) r obr
              | _, _ => false end
      | 22 => match lookup a0 uns with
              | Some u =>
                  (zN (zat ob 0) =? us_lgk u)%N
                  && (if zat ob 1 =? 1
                      then (Z.of_nat (length ob) =? 2 + Nz (2 ^ us_lgk u)) && rows_ok (ospec_of (us_m u)) 0 (skipn 2 ob)
                           && (3 * 2 ^ us_lgk u <=? 32 * pm_pop (us_m u))%N     (* a matrix is never in the sparse range *)
                      else dumpnf_ok (us_lgk u) (ospec_of (us_m u)) (zat ob 7 =? 1) (skipn 2 ob)   (* the accumulator's own flag is not specified *)
                           && (32 * pm_pop (us_m u) <? 3 * 2 ^ us_lgk u)%N)     (* an accumulator is empty or sparse *)
                  && union_from sks uns r obr
              | None => false end
      | 23 => match lookup a0 uns with
              | Some u =>
                  let o := ospec_of (us_m u) in
                  dumpnf_ok (us_lgk u) o true ob && union_from (store a1 (mkSS (us_lgk u) o true) sks) uns r obr
              | None => false end
      | _ => ok && union_from sks uns r obr
      end
  | [], [] => true
  | _, _ => false
  end.

Definition union_ok (c : case) : bool := union_from [] [] (c_ops c) (c_obs c).

(* ------------------------------------------------------------------------------------------------
   Oracle of the C17 leg (configuration extremes): no operation panics, and the pure threshold functions
   and the scripted large sketches answer what the thresholds say in unbounded arithmetic. *)
Definition spec_phase (lgk c : N) : N :=
  let k := (2 ^ lgk)%N in
  if (1000 * c <? 2375 * k)%N then
    if (4 * c <? 3 * k)%N then 16%N else if (10 * c <? 11 * k)%N then 17%N else if (100 * c <? 132 * k)%N then 18%N
    else if (3 * c <? 5 * k)%N then 19%N else if (1000 * c <? 1965 * k)%N then 20%N
    else if (1000 * c <? 2275 * k)%N then 21%N else 6%N
  else ((c / 2 ^ (lgk - 4)) mod 16)%N.

Fixpoint extremes_from (ops : list zop) (obs : list (list Z)) : bool :=
  match ops, obs with
  | (code, a) :: r, ob :: obr =>
      let l := zN (nth 0 a 0) in let c := zN (nth 1 a 0) in
      negb (list_eqb Z.eqb ob PANIC) &&
      match code with
      | 6 => (zN (zat ob 0) =? spec_flavor l c)%N && (0 <=? zat ob 0)
      | 7 => (zN (zat ob 0) =? spec_offset l c)%N && (0 <=? zat ob 0)
      | 9 => (zN (zat ob 0) =? spec_phase l c)%N && (0 <=? zat ob 0)
      | 30 => let cc := (c * 2 ^ l + zN (nth 2 a 0%Z))%N in
              list_eqb Z.eqb ob [Nz cc; Nz (spec_flavor l cc); Nz (spec_offset l cc); 1; 1; Nz cc; 1]
      | _ => true
      end && extremes_from r obr
  | [], [] => true
  | _, _ => false
  end.

Definition extremes_ok (c : case) : bool := extremes_from (c_ops c) (c_obs c).

Fixpoint layout_from (lgk : N) (st : ospec) (kxp hip : Z) (ops : list zop) (obs : list (list Z)) : bool :=
  match ops, obs with
  | (code, a) :: r, ob :: obr =>
      match code with
      | 0 => layout_from lgk o_empty 0 0 r obr
      | 1 => let '(row, col) := spec_pair lgk (zN (nth 1 a 0)) (zN (nth 2 a 0)) in
             layout_from lgk (o_add st row col) (zat ob 4) (zat ob 5) r obr
      | 2 => let rc := zN (nth 0 a 0) in
             layout_from lgk (o_add st (rc / 64)%N (rc mod 64)%N) (zat ob 4) (zat ob 5) r obr
      | 19 => image_ok lgk st kxp hip (zN (nth 0 a 0)) ob && layout_from lgk st kxp hip r obr
      | _ => negb (list_eqb Z.eqb ob PANIC) && layout_from lgk st kxp hip r obr
      end
  | [], [] => true
  | _, _ => false
  end.

Definition layout_ok (c : case) : bool :=
  layout_from (zN (nth 0 (c_cfg c) 0)) o_empty 0 0 (c_ops c) (c_obs c).

(* ------------------------------------------------------------------------------------------------
   Oracle of the C14 leg: deserialize of arbitrary / mutated bytes never panics, and a value returned as Ok
   passes the executable invariant check (Model/CpcCheck.v, sound by Proofs/CpcCheckProofs.v), so that it
   can be used like any sketch built by updates. *)
Definition state_of_dump (ob : list Z) : cpc :=
  (* ob = lg_k; C; off; fic; flavor; merge; |win|; win..; |tab|; tab.. *)
  let nwin := Z.to_nat (nth 6 ob 0) in
  let win := map zN (firstn nwin (skipn 7 ob)) in
  let tab := map zN (skipn (8 + nwin) ob) in
  mkCpc (zN (zat ob 0)) (zN (zat ob 3)) (zN (zat ob 1)) (Some tab) (zN (zat ob 2)) win (zat ob 5 =? 1) zero zero.

(* the use phase of the harness (deser_and_use): 40 fixed pairs, then a union of the value and its updated copy *)
Definition use_pairs (lgk : N) : list N :=
  filter (fun rc => negb (rc =? 4294967295)%N)
    (map (fun i => let row := ((i * 37 + 11) mod 2 ^ lgk)%N in
                   let col := if (i mod 4 =? 3)%N then (63 - i mod 5)%N else ((i * 5) mod 9)%N in
                   (row * 64 + col)%N) (map N.of_nat (seq 0 40))).
Definition use_updates (s : cpc) : outcome cpc := Model.Cpc.run_from s (use_pairs (c_lgk s)).
Definition use_union (s s2 : cpc) : outcome cpc :=
  obind (union_new (c_lgk s)) (fun u => obind (union_update u s) (fun u1 => obind (union_update u1 s2) union_to_sketch)).
Definition is_ok {A} (x : outcome A) : bool := match x with Ok _ => true | _ => false end.

(* [tie = false] (malformed_ok, the property): an accepted value passes the invariant check, the wrapper agrees with
   it, and it is USABLE: the further updates and the union run without panic.
   [tie = true] (malformed_tie_ok, the exact boundary): the use phase fails exactly when the model is Stuck on the same
   operations, i.e. when the accepted value is so close to the edge of the sketch's domain (window offset 56,
   surprising-value table capacity) that the 40 pairs or the union leave it. *)
Definition deser_obs_gen (tie : bool) (ob : list Z) : bool :=
  negb (list_eqb Z.eqb ob PANIC) &&
  match ob with
  | [0; w] => (w =? 0) || (w =? 1)
  | 1 :: w :: up :: un :: d =>
      forallb (fun x => 0 <=? x) d &&
      (Z.of_nat (length d) =? 8 + nth 6 d 0 + nth (7 + Z.to_nat (nth 6 d 0)) d 0) &&
      inv_check (state_of_dump d) &&
      (zN (zat d 4) =? cpc_flavor (state_of_dump d))%N &&
      (w =? 1) &&
      (if tie then
         let s := state_of_dump d in
         match use_updates s with
         | Ok s2 => (up =? 1) && (un =? zbool (is_ok (use_union s s2)))
         | _ => (up =? 0) && (un =? zbool (is_ok (use_union s s)))
         end
       else (up =? 1) && (un =? 1))
  | _ => false
  end.
Definition deser_obs_ok := deser_obs_gen false.

Fixpoint malformed_gen (tie : bool) (ops : list zop) (obs : list (list Z)) : bool :=
  match ops, obs with
  | (code, a) :: r, ob :: obr =>
      (if (code =? 40) || (code =? 41) then deser_obs_gen tie ob else negb (list_eqb Z.eqb ob PANIC))
      && malformed_gen tie r obr
  | [], [] => true
  | _, _ => false
  end.
Definition malformed_from := malformed_gen false.

Definition malformed_ok (c : case) : bool := malformed_from (c_ops c) (c_obs c).
Definition malformed_tie_ok (c : case) : bool := malformed_gen true (c_ops c) (c_obs c).

Definition oracles : list (Z * (case -> bool)) :=
  [(0, prop_ok); (1, union_ok); (2, extremes_ok); (3, layout_ok); (4, malformed_ok); (5, malformed_tie_ok)].
