(* Correspondence driver for the CPC sketch: replays a Z-encoded case on the model and yields the
   observations the Rust harness prints; plus the property oracle (the bit-matrix Spec, written
   independently of the model) used on the crate's observations.  (No proofs here.)

   cfg = [lg_k; seed]
   ops:  0 new                      -> []
         1 update  [item; h1; h2]   -> summary      (h1,h2 = reference MurmurHash3 of the item's 8 LE bytes)
         2 row_col [rc]             -> summary      (hook CpcSketch::verif_row_col_update)
         3 dump                     -> [lg_k; C; offset; fic; flavor; merge; kxp; hip; has_table; |win|; win...; |tab|; sorted tab...]
         4 validate                 -> [0|1]
         5 matrix                   -> the K rows of build_bit_matrix
         6 flavor_of [lg_k; c]      -> [determine_flavor code]      (u32 arithmetic as compiled)
         7 offset_of [lg_k; c]      -> [determine_correct_offset]
         8 estimate                 -> [bits of estimate()]  (HIP only: merge_flag = false)
   summary = [C; offset; fic; flavor; kxp bits; hip bits] *)
From DS Require Import Base.Prelude Base.FloatBits Model.Cpc.
From Coq Require Import Floats FSets.FMapPositive.
Open Scope Z_scope.

Definition summary (s : cpc) : list Z :=
  [Nz (c_num s); Nz (c_off s); Nz (c_fic s); Nz (cpc_flavor s); bits_of_float (c_kxp s); bits_of_float (c_hip s)].

Fixpoint insert_sorted (x : N) (l : list N) : list N :=
  match l with
  | [] => [x]
  | y :: r => if (x <=? y)%N then x :: l else y :: insert_sorted x r
  end.
Definition sortN (l : list N) : list N := fold_left (fun acc x => insert_sorted x acc) l [].

Definition dump (s : cpc) : list Z :=
  let tab := match c_table s with Some t => sortN t | None => [] end in
  [Nz (c_lgk s); Nz (c_num s); Nz (c_off s); Nz (c_fic s); Nz (cpc_flavor s); zbool (c_merge s);
   bits_of_float (c_kxp s); bits_of_float (c_hip s);
   zbool (match c_table s with Some _ => true | None => false end)]
  ++ Z.of_nat (length (c_win s)) :: map Nz (c_win s)
  ++ Z.of_nat (length tab) :: map Nz tab.

Definition step (cfg : list Z) (st : option cpc) (o : zop) : option cpc * list Z :=
  let '(code, a) := o in
  match code with
  | 0 => match cpc_new (zN (nth 0 cfg 0)) with Ok s => (Some s, []) | _ => (None, PANIC) end
  | 6 => (st, [Nz (determine_flavor_u32 (zN (nth 0 a 0)) (zN (nth 1 a 0)))])
  | 7 => (st, [Nz (determine_correct_offset (zN (nth 0 a 0)) (zN (nth 1 a 0)))])
  | _ =>
    match st with
    | None => (st, PANIC)
    | Some s =>
      match code with
      | 1 => match cpc_update s (zN (nth 1 a 0)) (zN (nth 2 a 0)) with
             | Ok s' => (Some s', summary s') | _ => (None, PANIC) end
      | 2 => match row_col_update s (zN (nth 0 a 0)) with
             | Ok s' => (Some s', summary s') | _ => (None, PANIC) end
      | 3 => (st, dump s)
      | 4 => match cpc_validate s with Ok b => (st, [zbool b]) | _ => (None, PANIC) end
      | 5 => match build_bit_matrix s with Ok m => (st, map Nz m) | _ => (None, PANIC) end
      | 8 => (st, [if c_merge s then (-1) else bits_of_float (c_hip s)])
      | _ => (st, PANIC)
      end
    end
  end.

Fixpoint run_from (cfg : list Z) (st : option cpc) (ops : list zop) : list (list Z) :=
  match ops with
  | [] => []
  | o :: r => let '(st', ob) := step cfg st o in ob :: run_from cfg st' r
  end.

Definition run (cfg : list Z) (ops : list zop) : list (list Z) := run_from cfg None ops.

(* ------------------------------------------------------------------------------------------------
   Property oracle: the Spec of C05, evaluated on the crate's observations.
   Spec state: the k x 64 bit matrix as a map row -> word (absent = 0), the number of distinct pairs,
   and the number of set bits of every column.  Nothing below uses the model's sketch functions. *)
Record ospec := mkO { o_m : PositiveMap.t N; o_c : N; o_cols : list N }.
Definition o_empty : ospec := mkO (PositiveMap.empty N) 0%N (repeat 0%N 64).
Definition o_row (st : ospec) (r : N) : N :=
  match PositiveMap.find (N.succ_pos r) (o_m st) with Some w => w | None => 0%N end.

Definition o_add (st : ospec) (r c : N) : ospec :=
  let w := o_row st r in
  if N.testbit w c then st
  else mkO (PositiveMap.add (N.succ_pos r) (N.lor w (2 ^ c)%N) (o_m st)) (o_c st + 1)%N
           (set_nthN c (nthN (o_cols st) c 0 + 1)%N (o_cols st)).

(* the property's own derivation of (row, col) from the hash: row = h1 & (k-1), col = min(63, lz(h2));
   the pair whose code would be u32::MAX (the table's empty marker) has the low row bit flipped *)
Definition spec_pair (lgk h1 h2 : N) : N * N :=
  let k := (2 ^ lgk)%N in
  let lz := (64 - N.size h2)%N in
  let col := N.min 63 lz in
  let row := (h1 mod k)%N in
  if ((row =? 67108863) && (col =? 63))%N then (67108862%N, col) else (row, col).

(* flavor and offset as functions of the coupon count (unbounded arithmetic) *)
Definition spec_flavor (lgk c : N) : N :=
  let k := (2 ^ lgk)%N in
  if (c =? 0)%N then 0%N else if (32 * c <? 3 * k)%N then 1%N else if (2 * c <? k)%N then 2%N
  else if (8 * c <? 27 * k)%N then 3%N else 4%N.
Definition spec_offset (lgk c : N) : N :=
  let k := (2 ^ lgk)%N in
  if (8 * c <? 19 * k)%N then 0%N else ((8 * c - 19 * k) / (8 * k))%N.

Definition zat (ob : list Z) (i : nat) : Z := nth i ob (-1).

Definition cols_full_below (st : ospec) (k fic : N) : bool :=
  forallb (fun c => (nthN (o_cols st) c 0 =? k)%N) (map N.of_nat (seq 0 (N.to_nat fic))).

(* the summary of a sketch that has absorbed exactly the pairs recorded in [st] *)
Definition summary_ok (lgk : N) (st : ospec) (ob : list Z) : bool :=
  let k := (2 ^ lgk)%N in
  let c := zN (zat ob 0) in let off := zN (zat ob 1) in let fic := zN (zat ob 2) in
  (0 <=? zat ob 0) && (c =? o_c st)%N && (off =? spec_offset lgk c)%N && (off <=? 56)%N
  && (zN (zat ob 3) =? spec_flavor lgk c)%N
  && (fic <=? off)%N && cols_full_below st k fic.

(* number of surprising values at window offset [off]: zeros before the window, ones after it *)
Definition spec_surprises (st : ospec) (k off : N) : N :=
  fold_left (fun acc c =>
    let n := nthN (o_cols st) c 0%N in
    if (c <? off)%N then (acc + (k - n))%N else if (c <? off + 8)%N then acc else (acc + n)%N)
    (map N.of_nat (seq 0 64)) 0%N.

Fixpoint rows_ok (st : ospec) (r : N) (rows : list Z) : bool :=
  match rows with
  | [] => true
  | w :: rest => (w =? Nz (o_row st r)) && rows_ok st (r + 1)%N rest
  end.

Fixpoint win_ok (st : ospec) (off r : N) (win : list Z) : bool :=
  match win with
  | [] => true
  | b :: rest => (zN b =? N.land (N.shiftr (o_row st r) off) 255)%N && win_ok st off (r + 1)%N rest
  end.

Definition dump_ok (lgk : N) (st : ospec) (ob : list Z) : bool :=
  let k := (2 ^ lgk)%N in
  let c := zN (zat ob 1) in let off := zN (zat ob 2) in
  let nwin := Z.to_nat (nth 9 ob 0) in
  let win := firstn nwin (skipn 10 ob) in
  let ntab := nth (10 + nwin) ob 0 in
  let tab := map zN (skipn (11 + nwin) ob) in
  let windowed := negb (32 * c <? 3 * k)%N in
  summary_ok lgk st (firstn 4 (skipn 1 ob))
  && (zN (zat ob 0) =? lgk)%N
  && (zat ob 5 =? 0)                                          (* never merged *)
  && (zat ob 8 =? (if (c =? 0)%N then 0 else 1))              (* table allocated iff non-empty *)
  && (Z.of_nat nwin =? (if windowed then Nz k else 0))             (* window present iff flavor > Sparse *)
  && (Z.of_nat (length tab) =? ntab)
  && win_ok st off 0 win
  && (if windowed then
        (zN ntab =? spec_surprises st k off)%N
        && forallb (fun rc => let r := (rc / 64)%N in let cl := (rc mod 64)%N in
                     (r <? k)%N &&
                     (if (cl <? off)%N then negb (N.testbit (o_row st r) cl)
                      else if (cl <? off + 8)%N then false else N.testbit (o_row st r) cl)) tab
      else
        (zN ntab =? c)%N
        && forallb (fun rc => let r := (rc / 64)%N in ((r <? k)%N && N.testbit (o_row st r) (rc mod 64))) tab)
  (* sorted strictly ascending, hence duplicate-free *)
  && (fix asc (l : list N) : bool :=
        match l with x :: ((y :: _) as r) => (x <? y)%N && asc r | _ => true end) tab.

Fixpoint prop_from (lgk : N) (st : ospec) (ops : list zop) (obs : list (list Z)) : bool :=
  match ops, obs with
  | (code, a) :: r, ob :: obr =>
      match code with
      | 0 => negb (list_eqb Z.eqb ob PANIC) && prop_from lgk o_empty r obr
      | 1 => let '(row, col) := spec_pair lgk (zN (nth 1 a 0)) (zN (nth 2 a 0)) in
             let st' := o_add st row col in
             summary_ok lgk st' ob && prop_from lgk st' r obr
      | 2 => let rc := zN (nth 0 a 0) in
             let st' := o_add st (rc / 64)%N (rc mod 64)%N in
             summary_ok lgk st' ob && prop_from lgk st' r obr
      | 3 => dump_ok lgk st ob && prop_from lgk st r obr
      | 4 => list_eqb Z.eqb ob [1] && prop_from lgk st r obr
      | 5 => (Z.of_nat (length ob) =? Nz (2 ^ lgk)) && rows_ok st 0 ob && prop_from lgk st r obr
      | 6 => let l := zN (nth 0 a 0) in let c := zN (nth 1 a 0) in
             (* outside the u32 range of `c << 5` the crate's answer is not covered by C05 (C17) *)
             ((134217728 <=? c)%N || (zN (zat ob 0) =? spec_flavor l c)%N) && prop_from lgk st r obr
      | 7 => let l := zN (nth 0 a 0) in let c := zN (nth 1 a 0) in
             (zN (zat ob 0) =? spec_offset l c)%N && (0 <=? zat ob 0) && prop_from lgk st r obr
      | _ => negb (list_eqb Z.eqb ob PANIC) && prop_from lgk st r obr
      end
  | _, _ => true
  end.

Definition prop_ok (c : case) : bool :=
  prop_from (zN (nth 0 (c_cfg c) 0)) o_empty (c_ops c) (c_obs c).

Definition oracles : list (Z * (case -> bool)) := [(0, prop_ok)].
