(* Correspondence driver for the Bloom filter: replays a Z-encoded case on the model and
   yields the same observations the Rust harness prints; plus the property oracle (the
   Spec: a set of bit positions per slot, kept as a characteristic vector, written
   independently of the model).  No proofs here.  Op codes: tools/families/bloom.py. *)
From DS Require Import Base.Prelude Model.Bloom.
Open Scope Z_scope.

Definition slots := list (option bloom).
Definition get_slot (st : slots) (i : Z) : option bloom := nth (Z.to_nat i) st None.
Definition put_slot (st : slots) (i : Z) (s : bloom) : slots := set_nth (Z.to_nat i) (Some s) st.

(* a = slot :: item :: h0 :: h1 :: _ *)
Definition arg_h0 (a : list Z) : N := zN (nth 2 a 0).
Definition arg_h1 (a : list Z) : N := zN (nth 3 a 0).

(* fpp probe: a = slot :: bound :: (item, h0, h1)* ; number of probes reported as contained *)
Fixpoint count_contained (f : bloom) (l : list Z) (acc : Z) : Z :=
  match l with
  | _ :: h0 :: h1 :: r => count_contained f r (acc + zbool (bf_contains f (zN h0) (zN h1)))
  | _ => acc
  end.

Definition step (st : slots) (o : zop) : slots * list Z :=
  let '(code, a) := o in
  let slot := nth 0 a 0 in
  match code with
  | 0 => match bf_with_size (zN (nth 1 a 0)) (zN (nth 2 a 0)) (zN (nth 3 a 0)) with
         | Ok f => (put_slot st slot f, [])
         | _ => (st, PANIC) end
  | 1 => match get_slot st slot with
         | Some f => (put_slot st slot (bf_insert f (arg_h0 a) (arg_h1 a)), [])
         | None => (st, PANIC) end
  | 2 => match get_slot st slot with
         | Some f => (st, [zbool (bf_contains f (arg_h0 a) (arg_h1 a))])
         | None => (st, PANIC) end
  | 3 => match get_slot st slot with
         | Some f => let '(b, f') := bf_contains_and_insert f (arg_h0 a) (arg_h1 a) in
                     (put_slot st slot f', [zbool b])
         | None => (st, PANIC) end
  | 4 => match get_slot st slot, get_slot st (nth 1 a 0) with
         | Some f, Some g => match bf_union f g with
                             | Ok f' => (put_slot st slot f', [])
                             | _ => (st, PANIC) end
         | _, _ => (st, PANIC) end
  | 5 => match get_slot st slot, get_slot st (nth 1 a 0) with
         | Some f, Some g => match bf_intersect f g with
                             | Ok f' => (put_slot st slot f', [])
                             | _ => (st, PANIC) end
         | _, _ => (st, PANIC) end
  | 6 => match get_slot st slot with
         | Some f => match bf_invert f with
                     | Ok f' => (put_slot st slot f', [])
                     | _ => (st, PANIC) end
         | None => (st, PANIC) end
  | 7 => match get_slot st slot with
         | Some f => (put_slot st slot (bf_reset f), [])
         | None => (st, PANIC) end
  | 8 => match get_slot st slot with
         | Some f => (st, [Nz (bf_used f)])
         | None => (st, PANIC) end
  | 9 => match get_slot st slot with
         | Some f => (st, map Nz (bf_serialize f))
         | None => (st, PANIC) end
  | 10 => match get_slot st slot with
          | Some f => match bf_deserialize (bf_serialize f) with
                      | Ok f' => (put_slot st slot f', [1])
                      | Err => (st, ERR)
                      | Stuck => (st, PANIC) end
          | None => (st, PANIC) end
  | 11 => match bf_deserialize (map zN (skipn 1 a)) with
          | Ok f' => (put_slot st slot f', [1])
          | Err => (st, ERR)
          | Stuck => (st, PANIC) end
  | 12 => match get_slot st slot with
          | Some f => (st, [Nz (bf_capacity f); Nz (bf_nh f); Nz (bf_seed f); zbool (bf_is_empty f)])
          | None => (st, PANIC) end
  | 13 => match get_slot st slot, get_slot st (nth 1 a 0) with
          | Some f, Some g => (st, [zbool (bf_is_compatible f g)])
          | _, _ => (st, PANIC) end
  | 14 => (* with_accuracy(n, p).seed(seed): a = slot :: n :: p bits :: seed :: num_bits :: num_hashes, the
             last two being the ln-based sizing recomputed by the generator (no Coq counterpart) *)
          match bf_with_size (zN (nth 4 a 0)) (zN (nth 5 a 0)) (zN (nth 3 a 0)) with
          | Ok f => (put_slot st slot f, [Nz (bf_capacity f); Nz (bf_nh f)])
          | _ => (st, PANIC) end
  | 15 => match get_slot st slot with
          | Some f => (st, [count_contained f (skipn 2 a) 0])
          | None => (st, PANIC) end
  | _ => (st, PANIC)
  end.

Fixpoint run_from (st : slots) (ops : list zop) : list (list Z) :=
  match ops with
  | [] => []
  | o :: r => let '(st', ob) := step st o in ob :: run_from st' r
  end.

(* cfg = [number of slots] *)
Definition run (cfg : list Z) (ops : list zop) : list (list Z) :=
  run_from (repeat None (Z.to_nat (nth 0 cfg 8))) ops.

(* ---------- property oracle (the Spec, not the model) ----------
   Per slot: num_hashes, seed and the SET of bit positions as a characteristic vector
   (list bool of length capacity; position p is in the set iff the p-th entry is true).
   The set evolves by the textbook rules (insert adds the item's positions, union = or,
   intersect = and, invert = complement, reset = empty) and every observation of the crate
   is judged against it:
     contains / contains_and_insert  = "all positions of the item are in the set"
                                       (in particular never false for an inserted item)
     bits_used                       = cardinality of the set
     serialize                       : the image's bit array is the set, its count field is
                                       the cardinality; the empty form only for the empty set
     roundtrip                       : succeeds (and the set is unchanged afterwards)
     info                            : capacity = 64 * ceil(num_bits / 64); is_empty iff set empty *)
Record sp := mkSp { sp_nh : Z; sp_seed : Z; sp_set : list bool }.
Definition ospec := list (option sp).
Definition og (st : ospec) (i : Z) : option sp := nth (Z.to_nat i) st None.
Definition op_ (st : ospec) (i : Z) (v : option sp) : ospec := set_nth (Z.to_nat i) v st.

Definition sp_cap (s : sp) : Z := Z.of_nat (length (sp_set s)).
Definition card (v : list bool) : Z := Z.of_nat (length (filter (fun b => b) v)).
Definition mem (v : list bool) (p : Z) : bool := nth (Z.to_nat p) v false.
Definition add (v : list bool) (p : Z) : list bool := set_nth (Z.to_nat p) true v.

(* the property's formula: ((h0 + i*h1) mod 2^64 >> 1) mod capacity, i = 1..num_hashes *)
Definition sp_pos (cap h0 h1 i : Z) : Z := (((h0 + i * h1) mod 18446744073709551616) / 2) mod cap.
Definition sp_positions (s : sp) (h0 h1 : Z) : list Z :=
  map (fun i => sp_pos (sp_cap s) h0 h1 (Z.of_nat i)) (seq 1 (Z.to_nat (sp_nh s))).
Definition sp_contains (s : sp) (h0 h1 : Z) : bool := forallb (mem (sp_set s)) (sp_positions s h0 h1).
Definition sp_insert (s : sp) (h0 h1 : Z) : sp :=
  mkSp (sp_nh s) (sp_seed s) (fold_left add (sp_positions s h0 h1) (sp_set s)).

Fixpoint map2 (g : bool -> bool -> bool) (a b : list bool) : list bool :=
  match a, b with x :: a', y :: b' => g x y :: map2 g a' b' | _, _ => [] end.
Definition sp_compatible (a b : sp) : bool :=
  (sp_cap a =? sp_cap b) && (sp_nh a =? sp_nh b) && (sp_seed a =? sp_seed b).

(* bits of a byte string, least significant bit of each byte first *)
Fixpoint byte_bits (n : nat) (b : Z) : list bool :=
  match n with O => [] | S n' => Z.odd b :: byte_bits n' (b / 2) end.
Definition bits_of_bytes (bs : list Z) : list bool := flat_map (byte_bits 8) bs.
Fixpoint le_valZ (l : list Z) : Z := match l with [] => 0 | b :: r => b + 256 * le_valZ r end.
Definition beqb_list (a b : list bool) : bool := list_eqb Bool.eqb a b.

(* what a serialized image says about the set (Appendix A of DESIGN.md): flags bit 2 = empty form *)
Definition image_empty (bs : list Z) : bool := Z.odd (nth 3 bs 0 / 4).
Definition image_count (bs : list Z) : Z := le_valZ (firstn 8 (skipn 24 bs)).
Definition image_bits (bs : list Z) : list bool := bits_of_bytes (skipn 32 bs).

Definition serialize_ok (s : sp) (bs : list Z) : bool :=
  if image_empty bs then card (sp_set s) =? 0
  else beqb_list (image_bits bs) (sp_set s) && (image_count bs =? card (sp_set s)).

(* a foreign image accepted by the crate: the set it denotes, when its count field is
   consistent with its array (exact, or the "dirty" marker 2^64-1); otherwise nothing is claimed *)
Definition image_spec (bs : list Z) : option sp :=
  let nh := le_valZ (firstn 2 (skipn 4 bs)) in
  let seed := le_valZ (firstn 8 (skipn 8 bs)) in
  let nw := le_valZ (firstn 4 (skipn 16 bs)) in
  if image_empty bs then Some (mkSp nh seed (repeat false (Z.to_nat (64 * nw))))
  else
    let v := firstn (Z.to_nat (64 * nw)) (image_bits bs) in
    if (image_count bs =? 18446744073709551615) || (image_count bs =? card v) then Some (mkSp nh seed v)
    else None.

Fixpoint count_spec (s : sp) (l : list Z) (acc : Z) : Z :=
  match l with
  | _ :: h0 :: h1 :: r => count_spec s r (acc + zbool (sp_contains s h0 h1))
  | _ => acc
  end.

Fixpoint prop_from (st : ospec) (ops : list zop) (obs : list (list Z)) : bool :=
  match ops, obs with
  | (code, a) :: r, ob :: obr =>
      let slot := nth 0 a 0 in
      if list_eqb Z.eqb ob PANIC then true else
      match code with
      | 0 => let words := (nth 1 a 0 + 63) / 64 in
             prop_from (op_ st slot (Some (mkSp (nth 2 a 0) (nth 3 a 0) (repeat false (Z.to_nat (64 * words)))))) r obr
      | 1 => match og st slot with
             | Some s => prop_from (op_ st slot (Some (sp_insert s (nth 2 a 0) (nth 3 a 0)))) r obr
             | None => prop_from st r obr end
      | 2 => match og st slot with
             | Some s => (nth 0 ob (-1) =? zbool (sp_contains s (nth 2 a 0) (nth 3 a 0))) && prop_from st r obr
             | None => prop_from st r obr end
      | 3 => match og st slot with
             | Some s => (nth 0 ob (-1) =? zbool (sp_contains s (nth 2 a 0) (nth 3 a 0)))
                         && prop_from (op_ st slot (Some (sp_insert s (nth 2 a 0) (nth 3 a 0)))) r obr
             | None => prop_from st r obr end
      | 4 => match og st slot, og st (nth 1 a 0) with
             | Some s, Some t => if sp_compatible s t
                                 then prop_from (op_ st slot (Some (mkSp (sp_nh s) (sp_seed s) (map2 orb (sp_set s) (sp_set t))))) r obr
                                 else prop_from (op_ st slot None) r obr
             | _, _ => prop_from (op_ st slot None) r obr end
      | 5 => match og st slot, og st (nth 1 a 0) with
             | Some s, Some t => if sp_compatible s t
                                 then prop_from (op_ st slot (Some (mkSp (sp_nh s) (sp_seed s) (map2 andb (sp_set s) (sp_set t))))) r obr
                                 else prop_from (op_ st slot None) r obr
             | _, _ => prop_from (op_ st slot None) r obr end
      | 6 => match og st slot with
             | Some s => prop_from (op_ st slot (Some (mkSp (sp_nh s) (sp_seed s) (map negb (sp_set s))))) r obr
             | None => prop_from st r obr end
      | 7 => match og st slot with
             | Some s => prop_from (op_ st slot (Some (mkSp (sp_nh s) (sp_seed s) (map (fun _ => false) (sp_set s))))) r obr
             | None => prop_from st r obr end
      | 8 => match og st slot with
             | Some s => (nth 0 ob (-1) =? card (sp_set s)) && prop_from st r obr
             | None => prop_from st r obr end
      | 9 => match og st slot with
             | Some s => serialize_ok s ob && prop_from st r obr
             | None => prop_from st r obr end
      | 10 => match og st slot with
              | Some s => list_eqb Z.eqb ob [1] && prop_from st r obr
              | None => prop_from st r obr end
      | 11 => if list_eqb Z.eqb ob [1] then prop_from (op_ st slot (image_spec (skipn 1 a))) r obr
              else prop_from st r obr
      | 12 => match og st slot with
              | Some s => (nth 0 ob (-1) =? sp_cap s) && (nth 1 ob (-1) =? sp_nh s) && (nth 2 ob (-1) =? sp_seed s)
                          && (nth 3 ob (-1) =? zbool (card (sp_set s) =? 0)) && prop_from st r obr
              | None => prop_from st r obr end
      | 14 => (* sizing is transcendental: take the crate's own answer for capacity / num_hashes *)
              prop_from (op_ st slot (Some (mkSp (nth 1 ob 0) (nth 3 a 0) (repeat false (Z.to_nat (nth 0 ob 0)))))) r obr
      | 15 => match og st slot with
              | Some s => (nth 0 ob (-1) =? count_spec s (skipn 2 a) 0) && (nth 0 ob (-1) <=? nth 1 a 0) && prop_from st r obr
              | None => prop_from st r obr end
      | _ => prop_from st r obr
      end
  | _, _ => true
  end.

Definition prop_ok (c : case) : bool :=
  prop_from (repeat None (Z.to_nat (nth 0 (c_cfg c) 8))) (c_ops c) (c_obs c).

(* oracles by number (tools/families/bloom.py: ORACLES) *)
Definition oracles : list (Z * (case -> bool)) := [(0, prop_ok)].
